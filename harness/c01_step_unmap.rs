//@ include-into src/structures/paging/mapper/mapped_page_table.rs
//
// C01 / C02 / C09 / C11 step harnesses for `unmap` and `update_flags` (4 KiB, 2 MiB, 1 GiB) of
// MappedPageTable<P> over the 7-table pool of c01_pool.rs. Same scheme as c01_step_map.rs: ONE
// call from an arbitrary well-formed pre-state of the given shape, oracle walk before and after on
// an address inside the page and on an arbitrary probe, frame check through one symbolic
// (table, slot) pair.
//
// Shapes: as in c01_step_map.rs, plus `table_entry` for the huge sizes: the slot where the
// 2 MiB / 1 GiB leaf would be holds a pointer to a lower table, i.e. NO mapping of that size
// exists. C02: "no call reports success for a mapping of a size that does not exist".
// The documentation does not say WHICH error such a call returns (DESIGN.md section 7), so any
// Err is accepted there, with the state unchanged. A success in that state is attributed to the
// single clause `no_success_for_nonexistent_size`; the other clauses of that harness are then
// evaluated as for the (required) error outcome only.
// `sym`: the leaf-level word is 0 or ANY present word of the leaf class (P1: any present word;
// P2 / P3: P | PS with arbitrary address bits, also misaligned -> InvalidFrameAddress(entry address)
// for unmap; update_flags has no such variant, misaligned leaves are outside its documented states).
// Words with P clear that are not 0 are not reachable from the empty table under the C01
// quantifier (every flags argument contains PRESENT) and are not generated.

#[cfg(kani)]
mod verif_c01_step_unmap {
    use super::verif_c01_pool::*;
    use super::*;

    const OK: u8 = 0;
    const E_NOT_MAPPED: u8 = 1;
    const E_PARENT_HUGE: u8 = 2;
    /// the leaf slot holds a table pointer: some Err, the documentation does not say which
    const E_NO_SUCH_MAPPING: u8 = 3;
    /// the leaf slot holds P | PS with a frame address that is not aligned to the page size
    const E_INVALID_FRAME: u8 = 4;

    /// Documented outcome of unmap / update_flags for a page whose leaf entry is at level `l`.
    fn model_outcome(sh: Shape, pre: &Pre, l: usize) -> u8 {
        match model_reach(sh, pre, l) {
            NOT_MAPPED_ABOVE => E_NOT_MAPPED,
            HUGE_ABOVE => E_PARENT_HUGE,
            _ => match entry_kind(sh, pre, l) {
                E_ABSENT => E_NOT_MAPPED,
                E_LEAF => OK,
                E_MISALIGNED => E_INVALID_FRAME,
                _ => E_NO_SUCH_MAPPING,
            },
        }
    }

    macro_rules! ob {
        ($prop:literal, $op:literal, $sz:literal, $shape:literal, $clause:literal) => {
            concat!($prop, ".", $op, "_", $sz, ".shape_", $shape, ".", $clause)
        };
    }

    macro_rules! unmap_step {
        ($S:ty, $sz:literal, $shape:literal, $SH:expr, $ix:expr) => {{
            let ix: Idx = $ix;
            let sh: Shape = $SH;
            mk_pool!(pool);
            let pre = build_path(&pool, &ix, sh);
            add_background(&pool, &ix);
            let page: Page<$S> = page_of::<$S>(&ix);
            let (inside, jx) = any_inside::<$S>(&ix);
            let probe = any_canonical();
            let probe_in_page = probe & !(<$S as Sz>::BYTES - 1) == page.start_address().as_u64();
            let w_in_pre = hw_walk_ix(&pool, &jx, inside);
            let w_pr_pre = hw_walk(&pool, probe);
            kani::assume(w_in_pre.kind != MALFORMED && w_pr_pre.kind != MALFORMED);
            let (fk, fs, f_pre) = any_slot(&pool);
            const LV: usize = <$S as Sz>::L;

            let mut mapper = unsafe { MappedPageTable::new(&mut *pool.p[0], pool) };
            let res = Mapper::<$S>::unmap(&mut mapper, page);

            let outcome = model_outcome(sh, &pre, LV);
            let mut dict = Dict::new();
            if outcome == OK {
                dict.set(LV, ix.0[LV], 0, 0);
            }
            let w_in = hw_walk_ix(&pool, &jx, inside);
            let w_pr = hw_walk(&pool, probe);
            let f_post = pool.rd(fk, fs);

            // ---- every clause is evaluated first, then each is checked on its own path (each!)
            let ok = res.is_ok();
            // a success although no mapping of this size exists: attributed to ONE clause
            let bogus = ok && outcome == E_NO_SUCH_MAPPING;
            let c_nosuch = !bogus;
            let outcome_ok = bogus
                || match &res {
                    Ok(_) => outcome == OK,
                    Err(UnmapError::PageNotMapped) => outcome == E_NOT_MAPPED || outcome == E_NO_SUCH_MAPPING,
                    Err(UnmapError::ParentEntryHugePage) => outcome == E_PARENT_HUGE || outcome == E_NO_SUCH_MAPPING,
                    Err(UnmapError::InvalidFrameAddress(a)) => outcome == E_NO_SUCH_MAPPING || (outcome == E_INVALID_FRAME && a.as_u64() == pre.e[LV] & ADDR),
                };
            let (frame_ok, token_ok) = match &res {
                Ok((f, token)) => (bogus || f.start_address().as_u64() == pre.e[LV] & <$S as Sz>::LEAF_ADDR, token.page() == page),
                _ => (true, true),
            };
            let good = ok && !bogus;
            let c_gone = !good || w_in.kind == NOT_MAPPED;
            let c_other = !good || probe_in_page || (same_mapping(&w_pr_pre, &w_pr) && rights_only_added(&w_pr_pre, &w_pr, 0));
            let c_err_same = ok || (same_mapping(&w_in_pre, &w_in) && same_mapping(&w_pr_pre, &w_pr) && rights_only_added(&w_in_pre, &w_in, 0) && rights_only_added(&w_pr_pre, &w_pr, 0));
            let c_wf = bogus || (w_in.kind != MALFORMED && w_pr.kind != MALFORMED);
            let tr = mapper.translate(VirtAddr::new(probe));
            // (a misaligned huge leaf has reserved bits set: the hardware faults, there is nothing to agree on)
            let c_tr = bogus || (outcome == E_INVALID_FRAME && probe_in_page) || translate_agrees(&tr, &w_pr, probe);
            let c_frame = bogus || dict.agrees(fk, fs, f_pre, f_post);
            let g = ghost();
            let c_noalloc = g.seq == 0 && g.zero_elsewhere == 0;
            let c_outside = bogus || g.outside == 0;
            each! {
                c_nosuch => ob!("C02", "unmap", $sz, $shape, "no_success_for_nonexistent_size: no mapping of this size exists, the call must not succeed"),
                outcome_ok => ob!("C02", "unmap", $sz, $shape, "documented_outcome: Ok for a mapped page of this size, PageNotMapped iff an entry on the path is absent, ParentEntryHugePage iff the page lies inside a larger huge page, InvalidFrameAddress(entry address) iff the leaf frame is misaligned"),
                frame_ok => ob!("C01", "unmap", $sz, $shape, "returns_mapped_frame: the frame held by the leaf entry, i.e. the one given to the earlier map"),
                token_ok => ob!("C11", "unmap", $sz, $shape, "token_names_page"),
                token_ok => ob!("C01", "unmap", $sz, $shape, "result_reports_page: a successful unmap reports the page it acted on"),
                c_gone => ob!("C01", "unmap", $sz, $shape, "target_not_mapped_after: every address of the page walks to not-mapped"),
                c_other => ob!("C01", "unmap", $sz, $shape, "other_addresses_unchanged: an address outside the page keeps frame, size, leaf flags and rights"),
                c_err_same => ob!("C02", "unmap", $sz, $shape, "error_leaves_every_mapping: frame, size, leaf flags and rights of the target and of an arbitrary address as before"),
                c_wf => ob!("C09", "unmap", $sz, $shape, "no_dangling_table_pointer: every present non-leaf entry still points to a page table"),
                c_tr => ob!("C01", "unmap", $sz, $shape, "translate_agrees_after: translate(probe) == hardware walk in the post-state"),
                c_frame => ob!("C09", "unmap", $sz, $shape, "only_dictated_slots_change: only the leaf slot of a successful unmap changes (to 0); parent tables stay linked; nothing else is written"),
                c_noalloc => ob!("C09", "unmap", $sz, $shape, "no_frames_requested_or_zeroed: unmap has no allocator and never runs zero()"),
                c_outside => ob!("C09", "unmap", $sz, $shape, "no_access_outside_page_tables: no pointer was requested for a frame that is not a page table of the hierarchy"),
            }
            kani::cover(outcome == OK, concat!("unmap_", $sz, " ", $shape, ": Ok"));
            kani::cover(outcome == E_NOT_MAPPED, concat!("unmap_", $sz, " ", $shape, ": PageNotMapped"));
            kani::cover(outcome == E_PARENT_HUGE, concat!("unmap_", $sz, " ", $shape, ": ParentEntryHugePage"));
        }};
    }

    macro_rules! update_flags_step {
        ($S:ty, $sz:literal, $shape:literal, $SH:expr, $ix:expr) => {{
            let ix: Idx = $ix;
            let sh: Shape = $SH;
            mk_pool!(pool);
            let pre = build_path(&pool, &ix, sh);
            add_background(&pool, &ix);
            let page: Page<$S> = page_of::<$S>(&ix);
            let flags = any_leaf_flags();
            let (inside, jx) = any_inside::<$S>(&ix);
            let probe = any_canonical();
            let probe_in_page = probe & !(<$S as Sz>::BYTES - 1) == page.start_address().as_u64();
            let w_in_pre = hw_walk_ix(&pool, &jx, inside);
            let w_pr_pre = hw_walk(&pool, probe);
            kani::assume(w_in_pre.kind != MALFORMED && w_pr_pre.kind != MALFORMED);
            let (fk, fs, f_pre) = any_slot(&pool);
            const LV: usize = <$S as Sz>::L;

            let mut mapper = unsafe { MappedPageTable::new(&mut *pool.p[0], pool) };
            let res = unsafe { Mapper::<$S>::update_flags(&mut mapper, page, flags) };

            let outcome = model_outcome(sh, &pre, LV);
            // FlagUpdateError has no variant for a misaligned huge leaf: outside the documented states
            kani::assume(outcome != E_INVALID_FRAME);
            let mut dict = Dict::new();
            if outcome == OK {
                dict.set(LV, ix.0[LV], (pre.e[LV] & <$S as Sz>::LEAF_ADDR) | flags.bits() | <$S as Sz>::LEAF_EXTRA, 0);
            }
            let w_in = hw_walk_ix(&pool, &jx, inside);
            let w_pr = hw_walk(&pool, probe);
            let f_post = pool.rd(fk, fs);

            // ---- every clause is evaluated first, then each is checked on its own path (each!)
            let ok = res.is_ok();
            // a success although no mapping of this size exists: attributed to ONE clause
            let bogus = ok && outcome == E_NO_SUCH_MAPPING;
            let c_nosuch = !bogus;
            let outcome_ok = bogus
                || match &res {
                    Ok(_) => outcome == OK,
                    Err(FlagUpdateError::PageNotMapped) => outcome == E_NOT_MAPPED || outcome == E_NO_SUCH_MAPPING,
                    Err(FlagUpdateError::ParentEntryHugePage) => outcome == E_PARENT_HUGE || outcome == E_NO_SUCH_MAPPING,
                };
            let token_ok = match &res {
                Ok(token) => token.page() == page,
                _ => true,
            };
            let good = ok && !bogus;
            let c_keeps = !good || (w_in.kind == MAPPED && w_in.size == w_in_pre.size && w_in.phys == w_in_pre.phys);
            let c_leaf = !good || w_in.leaf == flags.bits() | <$S as Sz>::LEAF_EXTRA;
            let c_other = !good || probe_in_page || (same_mapping(&w_pr_pre, &w_pr) && rights_only_added(&w_pr_pre, &w_pr, 0));
            let c_err_same = ok || (same_mapping(&w_in_pre, &w_in) && same_mapping(&w_pr_pre, &w_pr) && rights_only_added(&w_in_pre, &w_in, 0) && rights_only_added(&w_pr_pre, &w_pr, 0));
            let c_wf = bogus || (w_in.kind != MALFORMED && w_pr.kind != MALFORMED);
            let tr = mapper.translate(VirtAddr::new(probe));
            // (a misaligned huge leaf has reserved bits set: the hardware faults, there is nothing to agree on)
            let c_tr = bogus || (outcome == E_INVALID_FRAME && probe_in_page) || translate_agrees(&tr, &w_pr, probe);
            let c_frame = bogus || dict.agrees(fk, fs, f_pre, f_post);
            let g = ghost();
            let c_noalloc = g.seq == 0 && g.zero_elsewhere == 0;
            let c_outside = bogus || g.outside == 0;
            each! {
                c_nosuch => ob!("C02", "update_flags", $sz, $shape, "no_success_for_nonexistent_size: no mapping of this size exists, the call must not succeed"),
                outcome_ok => ob!("C02", "update_flags", $sz, $shape, "documented_outcome: Ok for a mapped page of this size, PageNotMapped iff an entry on the path is absent, ParentEntryHugePage iff the page lies inside a larger huge page"),
                token_ok => ob!("C11", "update_flags", $sz, $shape, "token_names_page"),
                token_ok => ob!("C01", "update_flags", $sz, $shape, "result_reports_page: a successful call reports the page it acted on"),
                c_keeps => ob!("C01", "update_flags", $sz, $shape, "target_keeps_frame_and_size: every address of the page walks to the same physical address at the same size"),
                c_leaf => ob!("C01", "update_flags", $sz, $shape, "target_leaf_flags_replaced: leaf flags == flags (plus PS for a huge page)"),
                c_other => ob!("C01", "update_flags", $sz, $shape, "other_addresses_unchanged: an address outside the page keeps frame, size, leaf flags and rights"),
                c_err_same => ob!("C02", "update_flags", $sz, $shape, "error_leaves_every_mapping: frame, size, leaf flags and rights of the target and of an arbitrary address as before"),
                c_wf => ob!("C09", "update_flags", $sz, $shape, "no_dangling_table_pointer: every present non-leaf entry still points to a page table"),
                c_tr => ob!("C01", "update_flags", $sz, $shape, "translate_agrees_after: translate(probe) == hardware walk in the post-state"),
                c_frame => ob!("C09", "update_flags", $sz, $shape, "only_dictated_slots_change: only the leaf slot of a successful call changes (same frame, new flags); nothing else is written"),
                c_noalloc => ob!("C09", "update_flags", $sz, $shape, "no_frames_requested_or_zeroed: update_flags has no allocator and never runs zero()"),
                c_outside => ob!("C09", "update_flags", $sz, $shape, "no_access_outside_page_tables: no pointer was requested for a frame that is not a page table of the hierarchy"),
            }
            kani::cover(outcome == OK, concat!("update_flags_", $sz, " ", $shape, ": Ok"));
            kani::cover(outcome == E_NOT_MAPPED, concat!("update_flags_", $sz, " ", $shape, ": PageNotMapped"));
            kani::cover(outcome == E_PARENT_HUGE, concat!("update_flags_", $sz, " ", $shape, ": ParentEntryHugePage"));
        }};
    }

    //@ obligation C02 C02.unmap_4kib.shape_p4_absent.error_leaves_every_mapping bounded="pool of 7 tables (4 path + 3 allocatable); tree-shaped sparse pre-state (target path, one neighbour word per path table, garbage in allocatable frames); page-table indices (0,1,511,2)"
    //@ obligation C02 C02.unmap_4kib.shape_p4_absent.documented_outcome bounded="pool of 7 tables (4 path + 3 allocatable); tree-shaped sparse pre-state (target path, one neighbour word per path table, garbage in allocatable frames); page-table indices (0,1,511,2)"
    //@ obligation C01 C01.unmap_4kib.shape_p4_absent.translate_agrees_after bounded="pool of 7 tables (4 path + 3 allocatable); tree-shaped sparse pre-state (target path, one neighbour word per path table, garbage in allocatable frames); page-table indices (0,1,511,2)"
    //@ obligation C09 C09.unmap_4kib.shape_p4_absent.only_dictated_slots_change bounded="pool of 7 tables (4 path + 3 allocatable); tree-shaped sparse pre-state (target path, one neighbour word per path table, garbage in allocatable frames); page-table indices (0,1,511,2)"
    //@ obligation C09 C09.unmap_4kib.shape_p4_absent.no_frames_requested_or_zeroed bounded="pool of 7 tables (4 path + 3 allocatable); tree-shaped sparse pre-state (target path, one neighbour word per path table, garbage in allocatable frames); page-table indices (0,1,511,2)"
    //@ obligation C09 C09.unmap_4kib.shape_p4_absent.no_dangling_table_pointer bounded="pool of 7 tables (4 path + 3 allocatable); tree-shaped sparse pre-state (target path, one neighbour word per path table, garbage in allocatable frames); page-table indices (0,1,511,2)"
    //@ obligation C09 C09.unmap_4kib.shape_p4_absent.no_access_outside_page_tables bounded="pool of 7 tables (4 path + 3 allocatable); tree-shaped sparse pre-state (target path, one neighbour word per path table, garbage in allocatable frames); page-table indices (0,1,511,2)"
    #[kani::proof]
    #[kani::stub(PageTable::zero, zero_stub)]
    fn c01_unmap_4kib_p4_absent_lo() {
        unmap_step!(Size4KiB, "4kib", "p4_absent", P4_ABSENT, IDX_LO);
        kani::cover!(true, "c01_unmap_4kib_p4_absent_lo: reachable");
    }

    //@ obligation C02 C02.unmap_4kib.shape_p4_absent.error_leaves_every_mapping tier=thorough bounded="pool of 7 tables (4 path + 3 allocatable); tree-shaped sparse pre-state (target path, one neighbour word per path table, garbage in allocatable frames); page-table indices (511,510,1,0)"
    //@ obligation C02 C02.unmap_4kib.shape_p4_absent.documented_outcome tier=thorough bounded="pool of 7 tables (4 path + 3 allocatable); tree-shaped sparse pre-state (target path, one neighbour word per path table, garbage in allocatable frames); page-table indices (511,510,1,0)"
    //@ obligation C01 C01.unmap_4kib.shape_p4_absent.translate_agrees_after tier=thorough bounded="pool of 7 tables (4 path + 3 allocatable); tree-shaped sparse pre-state (target path, one neighbour word per path table, garbage in allocatable frames); page-table indices (511,510,1,0)"
    //@ obligation C09 C09.unmap_4kib.shape_p4_absent.only_dictated_slots_change tier=thorough bounded="pool of 7 tables (4 path + 3 allocatable); tree-shaped sparse pre-state (target path, one neighbour word per path table, garbage in allocatable frames); page-table indices (511,510,1,0)"
    //@ obligation C09 C09.unmap_4kib.shape_p4_absent.no_frames_requested_or_zeroed tier=thorough bounded="pool of 7 tables (4 path + 3 allocatable); tree-shaped sparse pre-state (target path, one neighbour word per path table, garbage in allocatable frames); page-table indices (511,510,1,0)"
    //@ obligation C09 C09.unmap_4kib.shape_p4_absent.no_dangling_table_pointer tier=thorough bounded="pool of 7 tables (4 path + 3 allocatable); tree-shaped sparse pre-state (target path, one neighbour word per path table, garbage in allocatable frames); page-table indices (511,510,1,0)"
    //@ obligation C09 C09.unmap_4kib.shape_p4_absent.no_access_outside_page_tables tier=thorough bounded="pool of 7 tables (4 path + 3 allocatable); tree-shaped sparse pre-state (target path, one neighbour word per path table, garbage in allocatable frames); page-table indices (511,510,1,0)"
    #[kani::proof]
    #[kani::stub(PageTable::zero, zero_stub)]
    fn c01_unmap_4kib_p4_absent_hi() {
        unmap_step!(Size4KiB, "4kib", "p4_absent", P4_ABSENT, IDX_HI);
        kani::cover!(true, "c01_unmap_4kib_p4_absent_hi: reachable");
    }

    //@ obligation C02 C02.unmap_4kib.shape_p4_absent.error_leaves_every_mapping tier=thorough bounded="pool of 7 tables (4 path + 3 allocatable); tree-shaped sparse pre-state (target path, one neighbour word per path table, garbage in allocatable frames); page-table indices (255,511,0,256)"
    //@ obligation C02 C02.unmap_4kib.shape_p4_absent.documented_outcome tier=thorough bounded="pool of 7 tables (4 path + 3 allocatable); tree-shaped sparse pre-state (target path, one neighbour word per path table, garbage in allocatable frames); page-table indices (255,511,0,256)"
    //@ obligation C01 C01.unmap_4kib.shape_p4_absent.translate_agrees_after tier=thorough bounded="pool of 7 tables (4 path + 3 allocatable); tree-shaped sparse pre-state (target path, one neighbour word per path table, garbage in allocatable frames); page-table indices (255,511,0,256)"
    //@ obligation C09 C09.unmap_4kib.shape_p4_absent.only_dictated_slots_change tier=thorough bounded="pool of 7 tables (4 path + 3 allocatable); tree-shaped sparse pre-state (target path, one neighbour word per path table, garbage in allocatable frames); page-table indices (255,511,0,256)"
    //@ obligation C09 C09.unmap_4kib.shape_p4_absent.no_frames_requested_or_zeroed tier=thorough bounded="pool of 7 tables (4 path + 3 allocatable); tree-shaped sparse pre-state (target path, one neighbour word per path table, garbage in allocatable frames); page-table indices (255,511,0,256)"
    //@ obligation C09 C09.unmap_4kib.shape_p4_absent.no_dangling_table_pointer tier=thorough bounded="pool of 7 tables (4 path + 3 allocatable); tree-shaped sparse pre-state (target path, one neighbour word per path table, garbage in allocatable frames); page-table indices (255,511,0,256)"
    //@ obligation C09 C09.unmap_4kib.shape_p4_absent.no_access_outside_page_tables tier=thorough bounded="pool of 7 tables (4 path + 3 allocatable); tree-shaped sparse pre-state (target path, one neighbour word per path table, garbage in allocatable frames); page-table indices (255,511,0,256)"
    #[kani::proof]
    #[kani::stub(PageTable::zero, zero_stub)]
    fn c01_unmap_4kib_p4_absent_mid() {
        unmap_step!(Size4KiB, "4kib", "p4_absent", P4_ABSENT, IDX_MID);
        kani::cover!(true, "c01_unmap_4kib_p4_absent_mid: reachable");
    }

    //@ obligation C02 C02.unmap_4kib.shape_p4_absent.error_leaves_every_mapping tier=thorough bounded="pool of 7 tables (4 path + 3 allocatable); tree-shaped sparse pre-state (target path, one neighbour word per path table, garbage in allocatable frames); page-table indices (256,0,510,511)"
    //@ obligation C02 C02.unmap_4kib.shape_p4_absent.documented_outcome tier=thorough bounded="pool of 7 tables (4 path + 3 allocatable); tree-shaped sparse pre-state (target path, one neighbour word per path table, garbage in allocatable frames); page-table indices (256,0,510,511)"
    //@ obligation C01 C01.unmap_4kib.shape_p4_absent.translate_agrees_after tier=thorough bounded="pool of 7 tables (4 path + 3 allocatable); tree-shaped sparse pre-state (target path, one neighbour word per path table, garbage in allocatable frames); page-table indices (256,0,510,511)"
    //@ obligation C09 C09.unmap_4kib.shape_p4_absent.only_dictated_slots_change tier=thorough bounded="pool of 7 tables (4 path + 3 allocatable); tree-shaped sparse pre-state (target path, one neighbour word per path table, garbage in allocatable frames); page-table indices (256,0,510,511)"
    //@ obligation C09 C09.unmap_4kib.shape_p4_absent.no_frames_requested_or_zeroed tier=thorough bounded="pool of 7 tables (4 path + 3 allocatable); tree-shaped sparse pre-state (target path, one neighbour word per path table, garbage in allocatable frames); page-table indices (256,0,510,511)"
    //@ obligation C09 C09.unmap_4kib.shape_p4_absent.no_dangling_table_pointer tier=thorough bounded="pool of 7 tables (4 path + 3 allocatable); tree-shaped sparse pre-state (target path, one neighbour word per path table, garbage in allocatable frames); page-table indices (256,0,510,511)"
    //@ obligation C09 C09.unmap_4kib.shape_p4_absent.no_access_outside_page_tables tier=thorough bounded="pool of 7 tables (4 path + 3 allocatable); tree-shaped sparse pre-state (target path, one neighbour word per path table, garbage in allocatable frames); page-table indices (256,0,510,511)"
    #[kani::proof]
    #[kani::stub(PageTable::zero, zero_stub)]
    fn c01_unmap_4kib_p4_absent_up() {
        unmap_step!(Size4KiB, "4kib", "p4_absent", P4_ABSENT, IDX_UP);
        kani::cover!(true, "c01_unmap_4kib_p4_absent_up: reachable");
    }

    //@ obligation C02 C02.unmap_4kib.shape_p3_absent.error_leaves_every_mapping bounded="pool of 7 tables (4 path + 3 allocatable); tree-shaped sparse pre-state (target path, one neighbour word per path table, garbage in allocatable frames); page-table indices (0,1,511,2)"
    //@ obligation C02 C02.unmap_4kib.shape_p3_absent.documented_outcome bounded="pool of 7 tables (4 path + 3 allocatable); tree-shaped sparse pre-state (target path, one neighbour word per path table, garbage in allocatable frames); page-table indices (0,1,511,2)"
    //@ obligation C01 C01.unmap_4kib.shape_p3_absent.translate_agrees_after bounded="pool of 7 tables (4 path + 3 allocatable); tree-shaped sparse pre-state (target path, one neighbour word per path table, garbage in allocatable frames); page-table indices (0,1,511,2)"
    //@ obligation C09 C09.unmap_4kib.shape_p3_absent.only_dictated_slots_change bounded="pool of 7 tables (4 path + 3 allocatable); tree-shaped sparse pre-state (target path, one neighbour word per path table, garbage in allocatable frames); page-table indices (0,1,511,2)"
    //@ obligation C09 C09.unmap_4kib.shape_p3_absent.no_frames_requested_or_zeroed bounded="pool of 7 tables (4 path + 3 allocatable); tree-shaped sparse pre-state (target path, one neighbour word per path table, garbage in allocatable frames); page-table indices (0,1,511,2)"
    //@ obligation C09 C09.unmap_4kib.shape_p3_absent.no_dangling_table_pointer bounded="pool of 7 tables (4 path + 3 allocatable); tree-shaped sparse pre-state (target path, one neighbour word per path table, garbage in allocatable frames); page-table indices (0,1,511,2)"
    //@ obligation C09 C09.unmap_4kib.shape_p3_absent.no_access_outside_page_tables bounded="pool of 7 tables (4 path + 3 allocatable); tree-shaped sparse pre-state (target path, one neighbour word per path table, garbage in allocatable frames); page-table indices (0,1,511,2)"
    #[kani::proof]
    #[kani::stub(PageTable::zero, zero_stub)]
    fn c01_unmap_4kib_p3_absent_lo() {
        unmap_step!(Size4KiB, "4kib", "p3_absent", P3_ABSENT, IDX_LO);
        kani::cover!(true, "c01_unmap_4kib_p3_absent_lo: reachable");
    }

    //@ obligation C02 C02.unmap_4kib.shape_p3_absent.error_leaves_every_mapping tier=thorough bounded="pool of 7 tables (4 path + 3 allocatable); tree-shaped sparse pre-state (target path, one neighbour word per path table, garbage in allocatable frames); page-table indices (511,510,1,0)"
    //@ obligation C02 C02.unmap_4kib.shape_p3_absent.documented_outcome tier=thorough bounded="pool of 7 tables (4 path + 3 allocatable); tree-shaped sparse pre-state (target path, one neighbour word per path table, garbage in allocatable frames); page-table indices (511,510,1,0)"
    //@ obligation C01 C01.unmap_4kib.shape_p3_absent.translate_agrees_after tier=thorough bounded="pool of 7 tables (4 path + 3 allocatable); tree-shaped sparse pre-state (target path, one neighbour word per path table, garbage in allocatable frames); page-table indices (511,510,1,0)"
    //@ obligation C09 C09.unmap_4kib.shape_p3_absent.only_dictated_slots_change tier=thorough bounded="pool of 7 tables (4 path + 3 allocatable); tree-shaped sparse pre-state (target path, one neighbour word per path table, garbage in allocatable frames); page-table indices (511,510,1,0)"
    //@ obligation C09 C09.unmap_4kib.shape_p3_absent.no_frames_requested_or_zeroed tier=thorough bounded="pool of 7 tables (4 path + 3 allocatable); tree-shaped sparse pre-state (target path, one neighbour word per path table, garbage in allocatable frames); page-table indices (511,510,1,0)"
    //@ obligation C09 C09.unmap_4kib.shape_p3_absent.no_dangling_table_pointer tier=thorough bounded="pool of 7 tables (4 path + 3 allocatable); tree-shaped sparse pre-state (target path, one neighbour word per path table, garbage in allocatable frames); page-table indices (511,510,1,0)"
    //@ obligation C09 C09.unmap_4kib.shape_p3_absent.no_access_outside_page_tables tier=thorough bounded="pool of 7 tables (4 path + 3 allocatable); tree-shaped sparse pre-state (target path, one neighbour word per path table, garbage in allocatable frames); page-table indices (511,510,1,0)"
    #[kani::proof]
    #[kani::stub(PageTable::zero, zero_stub)]
    fn c01_unmap_4kib_p3_absent_hi() {
        unmap_step!(Size4KiB, "4kib", "p3_absent", P3_ABSENT, IDX_HI);
        kani::cover!(true, "c01_unmap_4kib_p3_absent_hi: reachable");
    }

    //@ obligation C02 C02.unmap_4kib.shape_p3_absent.error_leaves_every_mapping tier=thorough bounded="pool of 7 tables (4 path + 3 allocatable); tree-shaped sparse pre-state (target path, one neighbour word per path table, garbage in allocatable frames); page-table indices (255,511,0,256)"
    //@ obligation C02 C02.unmap_4kib.shape_p3_absent.documented_outcome tier=thorough bounded="pool of 7 tables (4 path + 3 allocatable); tree-shaped sparse pre-state (target path, one neighbour word per path table, garbage in allocatable frames); page-table indices (255,511,0,256)"
    //@ obligation C01 C01.unmap_4kib.shape_p3_absent.translate_agrees_after tier=thorough bounded="pool of 7 tables (4 path + 3 allocatable); tree-shaped sparse pre-state (target path, one neighbour word per path table, garbage in allocatable frames); page-table indices (255,511,0,256)"
    //@ obligation C09 C09.unmap_4kib.shape_p3_absent.only_dictated_slots_change tier=thorough bounded="pool of 7 tables (4 path + 3 allocatable); tree-shaped sparse pre-state (target path, one neighbour word per path table, garbage in allocatable frames); page-table indices (255,511,0,256)"
    //@ obligation C09 C09.unmap_4kib.shape_p3_absent.no_frames_requested_or_zeroed tier=thorough bounded="pool of 7 tables (4 path + 3 allocatable); tree-shaped sparse pre-state (target path, one neighbour word per path table, garbage in allocatable frames); page-table indices (255,511,0,256)"
    //@ obligation C09 C09.unmap_4kib.shape_p3_absent.no_dangling_table_pointer tier=thorough bounded="pool of 7 tables (4 path + 3 allocatable); tree-shaped sparse pre-state (target path, one neighbour word per path table, garbage in allocatable frames); page-table indices (255,511,0,256)"
    //@ obligation C09 C09.unmap_4kib.shape_p3_absent.no_access_outside_page_tables tier=thorough bounded="pool of 7 tables (4 path + 3 allocatable); tree-shaped sparse pre-state (target path, one neighbour word per path table, garbage in allocatable frames); page-table indices (255,511,0,256)"
    #[kani::proof]
    #[kani::stub(PageTable::zero, zero_stub)]
    fn c01_unmap_4kib_p3_absent_mid() {
        unmap_step!(Size4KiB, "4kib", "p3_absent", P3_ABSENT, IDX_MID);
        kani::cover!(true, "c01_unmap_4kib_p3_absent_mid: reachable");
    }

    //@ obligation C02 C02.unmap_4kib.shape_p3_absent.error_leaves_every_mapping tier=thorough bounded="pool of 7 tables (4 path + 3 allocatable); tree-shaped sparse pre-state (target path, one neighbour word per path table, garbage in allocatable frames); page-table indices (256,0,510,511)"
    //@ obligation C02 C02.unmap_4kib.shape_p3_absent.documented_outcome tier=thorough bounded="pool of 7 tables (4 path + 3 allocatable); tree-shaped sparse pre-state (target path, one neighbour word per path table, garbage in allocatable frames); page-table indices (256,0,510,511)"
    //@ obligation C01 C01.unmap_4kib.shape_p3_absent.translate_agrees_after tier=thorough bounded="pool of 7 tables (4 path + 3 allocatable); tree-shaped sparse pre-state (target path, one neighbour word per path table, garbage in allocatable frames); page-table indices (256,0,510,511)"
    //@ obligation C09 C09.unmap_4kib.shape_p3_absent.only_dictated_slots_change tier=thorough bounded="pool of 7 tables (4 path + 3 allocatable); tree-shaped sparse pre-state (target path, one neighbour word per path table, garbage in allocatable frames); page-table indices (256,0,510,511)"
    //@ obligation C09 C09.unmap_4kib.shape_p3_absent.no_frames_requested_or_zeroed tier=thorough bounded="pool of 7 tables (4 path + 3 allocatable); tree-shaped sparse pre-state (target path, one neighbour word per path table, garbage in allocatable frames); page-table indices (256,0,510,511)"
    //@ obligation C09 C09.unmap_4kib.shape_p3_absent.no_dangling_table_pointer tier=thorough bounded="pool of 7 tables (4 path + 3 allocatable); tree-shaped sparse pre-state (target path, one neighbour word per path table, garbage in allocatable frames); page-table indices (256,0,510,511)"
    //@ obligation C09 C09.unmap_4kib.shape_p3_absent.no_access_outside_page_tables tier=thorough bounded="pool of 7 tables (4 path + 3 allocatable); tree-shaped sparse pre-state (target path, one neighbour word per path table, garbage in allocatable frames); page-table indices (256,0,510,511)"
    #[kani::proof]
    #[kani::stub(PageTable::zero, zero_stub)]
    fn c01_unmap_4kib_p3_absent_up() {
        unmap_step!(Size4KiB, "4kib", "p3_absent", P3_ABSENT, IDX_UP);
        kani::cover!(true, "c01_unmap_4kib_p3_absent_up: reachable");
    }

    //@ obligation C02 C02.unmap_4kib.shape_p3_huge.error_leaves_every_mapping tier=thorough bounded="pool of 7 tables (4 path + 3 allocatable); tree-shaped sparse pre-state (target path, one neighbour word per path table, garbage in allocatable frames); page-table indices (0,1,511,2)"
    //@ obligation C02 C02.unmap_4kib.shape_p3_huge.documented_outcome tier=thorough bounded="pool of 7 tables (4 path + 3 allocatable); tree-shaped sparse pre-state (target path, one neighbour word per path table, garbage in allocatable frames); page-table indices (0,1,511,2)"
    //@ obligation C01 C01.unmap_4kib.shape_p3_huge.translate_agrees_after tier=thorough bounded="pool of 7 tables (4 path + 3 allocatable); tree-shaped sparse pre-state (target path, one neighbour word per path table, garbage in allocatable frames); page-table indices (0,1,511,2)"
    //@ obligation C09 C09.unmap_4kib.shape_p3_huge.only_dictated_slots_change tier=thorough bounded="pool of 7 tables (4 path + 3 allocatable); tree-shaped sparse pre-state (target path, one neighbour word per path table, garbage in allocatable frames); page-table indices (0,1,511,2)"
    //@ obligation C09 C09.unmap_4kib.shape_p3_huge.no_frames_requested_or_zeroed tier=thorough bounded="pool of 7 tables (4 path + 3 allocatable); tree-shaped sparse pre-state (target path, one neighbour word per path table, garbage in allocatable frames); page-table indices (0,1,511,2)"
    //@ obligation C09 C09.unmap_4kib.shape_p3_huge.no_dangling_table_pointer tier=thorough bounded="pool of 7 tables (4 path + 3 allocatable); tree-shaped sparse pre-state (target path, one neighbour word per path table, garbage in allocatable frames); page-table indices (0,1,511,2)"
    //@ obligation C09 C09.unmap_4kib.shape_p3_huge.no_access_outside_page_tables tier=thorough bounded="pool of 7 tables (4 path + 3 allocatable); tree-shaped sparse pre-state (target path, one neighbour word per path table, garbage in allocatable frames); page-table indices (0,1,511,2)"
    #[kani::proof]
    #[kani::stub(PageTable::zero, zero_stub)]
    fn c01_unmap_4kib_p3_huge_lo() {
        unmap_step!(Size4KiB, "4kib", "p3_huge", P3_HUGE, IDX_LO);
        kani::cover!(true, "c01_unmap_4kib_p3_huge_lo: reachable");
    }

    //@ obligation C02 C02.unmap_4kib.shape_p3_huge.error_leaves_every_mapping tier=thorough bounded="pool of 7 tables (4 path + 3 allocatable); tree-shaped sparse pre-state (target path, one neighbour word per path table, garbage in allocatable frames); page-table indices (511,510,1,0)"
    //@ obligation C02 C02.unmap_4kib.shape_p3_huge.documented_outcome tier=thorough bounded="pool of 7 tables (4 path + 3 allocatable); tree-shaped sparse pre-state (target path, one neighbour word per path table, garbage in allocatable frames); page-table indices (511,510,1,0)"
    //@ obligation C01 C01.unmap_4kib.shape_p3_huge.translate_agrees_after tier=thorough bounded="pool of 7 tables (4 path + 3 allocatable); tree-shaped sparse pre-state (target path, one neighbour word per path table, garbage in allocatable frames); page-table indices (511,510,1,0)"
    //@ obligation C09 C09.unmap_4kib.shape_p3_huge.only_dictated_slots_change tier=thorough bounded="pool of 7 tables (4 path + 3 allocatable); tree-shaped sparse pre-state (target path, one neighbour word per path table, garbage in allocatable frames); page-table indices (511,510,1,0)"
    //@ obligation C09 C09.unmap_4kib.shape_p3_huge.no_frames_requested_or_zeroed tier=thorough bounded="pool of 7 tables (4 path + 3 allocatable); tree-shaped sparse pre-state (target path, one neighbour word per path table, garbage in allocatable frames); page-table indices (511,510,1,0)"
    //@ obligation C09 C09.unmap_4kib.shape_p3_huge.no_dangling_table_pointer tier=thorough bounded="pool of 7 tables (4 path + 3 allocatable); tree-shaped sparse pre-state (target path, one neighbour word per path table, garbage in allocatable frames); page-table indices (511,510,1,0)"
    //@ obligation C09 C09.unmap_4kib.shape_p3_huge.no_access_outside_page_tables tier=thorough bounded="pool of 7 tables (4 path + 3 allocatable); tree-shaped sparse pre-state (target path, one neighbour word per path table, garbage in allocatable frames); page-table indices (511,510,1,0)"
    #[kani::proof]
    #[kani::stub(PageTable::zero, zero_stub)]
    fn c01_unmap_4kib_p3_huge_hi() {
        unmap_step!(Size4KiB, "4kib", "p3_huge", P3_HUGE, IDX_HI);
        kani::cover!(true, "c01_unmap_4kib_p3_huge_hi: reachable");
    }

    //@ obligation C02 C02.unmap_4kib.shape_p3_huge.error_leaves_every_mapping bounded="pool of 7 tables (4 path + 3 allocatable); tree-shaped sparse pre-state (target path, one neighbour word per path table, garbage in allocatable frames); page-table indices (255,511,0,256)"
    //@ obligation C02 C02.unmap_4kib.shape_p3_huge.documented_outcome bounded="pool of 7 tables (4 path + 3 allocatable); tree-shaped sparse pre-state (target path, one neighbour word per path table, garbage in allocatable frames); page-table indices (255,511,0,256)"
    //@ obligation C01 C01.unmap_4kib.shape_p3_huge.translate_agrees_after bounded="pool of 7 tables (4 path + 3 allocatable); tree-shaped sparse pre-state (target path, one neighbour word per path table, garbage in allocatable frames); page-table indices (255,511,0,256)"
    //@ obligation C09 C09.unmap_4kib.shape_p3_huge.only_dictated_slots_change bounded="pool of 7 tables (4 path + 3 allocatable); tree-shaped sparse pre-state (target path, one neighbour word per path table, garbage in allocatable frames); page-table indices (255,511,0,256)"
    //@ obligation C09 C09.unmap_4kib.shape_p3_huge.no_frames_requested_or_zeroed bounded="pool of 7 tables (4 path + 3 allocatable); tree-shaped sparse pre-state (target path, one neighbour word per path table, garbage in allocatable frames); page-table indices (255,511,0,256)"
    //@ obligation C09 C09.unmap_4kib.shape_p3_huge.no_dangling_table_pointer bounded="pool of 7 tables (4 path + 3 allocatable); tree-shaped sparse pre-state (target path, one neighbour word per path table, garbage in allocatable frames); page-table indices (255,511,0,256)"
    //@ obligation C09 C09.unmap_4kib.shape_p3_huge.no_access_outside_page_tables bounded="pool of 7 tables (4 path + 3 allocatable); tree-shaped sparse pre-state (target path, one neighbour word per path table, garbage in allocatable frames); page-table indices (255,511,0,256)"
    #[kani::proof]
    #[kani::stub(PageTable::zero, zero_stub)]
    fn c01_unmap_4kib_p3_huge_mid() {
        unmap_step!(Size4KiB, "4kib", "p3_huge", P3_HUGE, IDX_MID);
        kani::cover!(true, "c01_unmap_4kib_p3_huge_mid: reachable");
    }

    //@ obligation C02 C02.unmap_4kib.shape_p3_huge.error_leaves_every_mapping tier=thorough bounded="pool of 7 tables (4 path + 3 allocatable); tree-shaped sparse pre-state (target path, one neighbour word per path table, garbage in allocatable frames); page-table indices (256,0,510,511)"
    //@ obligation C02 C02.unmap_4kib.shape_p3_huge.documented_outcome tier=thorough bounded="pool of 7 tables (4 path + 3 allocatable); tree-shaped sparse pre-state (target path, one neighbour word per path table, garbage in allocatable frames); page-table indices (256,0,510,511)"
    //@ obligation C01 C01.unmap_4kib.shape_p3_huge.translate_agrees_after tier=thorough bounded="pool of 7 tables (4 path + 3 allocatable); tree-shaped sparse pre-state (target path, one neighbour word per path table, garbage in allocatable frames); page-table indices (256,0,510,511)"
    //@ obligation C09 C09.unmap_4kib.shape_p3_huge.only_dictated_slots_change tier=thorough bounded="pool of 7 tables (4 path + 3 allocatable); tree-shaped sparse pre-state (target path, one neighbour word per path table, garbage in allocatable frames); page-table indices (256,0,510,511)"
    //@ obligation C09 C09.unmap_4kib.shape_p3_huge.no_frames_requested_or_zeroed tier=thorough bounded="pool of 7 tables (4 path + 3 allocatable); tree-shaped sparse pre-state (target path, one neighbour word per path table, garbage in allocatable frames); page-table indices (256,0,510,511)"
    //@ obligation C09 C09.unmap_4kib.shape_p3_huge.no_dangling_table_pointer tier=thorough bounded="pool of 7 tables (4 path + 3 allocatable); tree-shaped sparse pre-state (target path, one neighbour word per path table, garbage in allocatable frames); page-table indices (256,0,510,511)"
    //@ obligation C09 C09.unmap_4kib.shape_p3_huge.no_access_outside_page_tables tier=thorough bounded="pool of 7 tables (4 path + 3 allocatable); tree-shaped sparse pre-state (target path, one neighbour word per path table, garbage in allocatable frames); page-table indices (256,0,510,511)"
    #[kani::proof]
    #[kani::stub(PageTable::zero, zero_stub)]
    fn c01_unmap_4kib_p3_huge_up() {
        unmap_step!(Size4KiB, "4kib", "p3_huge", P3_HUGE, IDX_UP);
        kani::cover!(true, "c01_unmap_4kib_p3_huge_up: reachable");
    }

    //@ obligation C02 C02.unmap_4kib.shape_p2_absent.error_leaves_every_mapping tier=thorough bounded="pool of 7 tables (4 path + 3 allocatable); tree-shaped sparse pre-state (target path, one neighbour word per path table, garbage in allocatable frames); page-table indices (0,1,511,2)"
    //@ obligation C02 C02.unmap_4kib.shape_p2_absent.documented_outcome tier=thorough bounded="pool of 7 tables (4 path + 3 allocatable); tree-shaped sparse pre-state (target path, one neighbour word per path table, garbage in allocatable frames); page-table indices (0,1,511,2)"
    //@ obligation C01 C01.unmap_4kib.shape_p2_absent.translate_agrees_after tier=thorough bounded="pool of 7 tables (4 path + 3 allocatable); tree-shaped sparse pre-state (target path, one neighbour word per path table, garbage in allocatable frames); page-table indices (0,1,511,2)"
    //@ obligation C09 C09.unmap_4kib.shape_p2_absent.only_dictated_slots_change tier=thorough bounded="pool of 7 tables (4 path + 3 allocatable); tree-shaped sparse pre-state (target path, one neighbour word per path table, garbage in allocatable frames); page-table indices (0,1,511,2)"
    //@ obligation C09 C09.unmap_4kib.shape_p2_absent.no_frames_requested_or_zeroed tier=thorough bounded="pool of 7 tables (4 path + 3 allocatable); tree-shaped sparse pre-state (target path, one neighbour word per path table, garbage in allocatable frames); page-table indices (0,1,511,2)"
    //@ obligation C09 C09.unmap_4kib.shape_p2_absent.no_dangling_table_pointer tier=thorough bounded="pool of 7 tables (4 path + 3 allocatable); tree-shaped sparse pre-state (target path, one neighbour word per path table, garbage in allocatable frames); page-table indices (0,1,511,2)"
    //@ obligation C09 C09.unmap_4kib.shape_p2_absent.no_access_outside_page_tables tier=thorough bounded="pool of 7 tables (4 path + 3 allocatable); tree-shaped sparse pre-state (target path, one neighbour word per path table, garbage in allocatable frames); page-table indices (0,1,511,2)"
    #[kani::proof]
    #[kani::stub(PageTable::zero, zero_stub)]
    fn c01_unmap_4kib_p2_absent_lo() {
        unmap_step!(Size4KiB, "4kib", "p2_absent", P2_ABSENT, IDX_LO);
        kani::cover!(true, "c01_unmap_4kib_p2_absent_lo: reachable");
    }

    //@ obligation C02 C02.unmap_4kib.shape_p2_absent.error_leaves_every_mapping bounded="pool of 7 tables (4 path + 3 allocatable); tree-shaped sparse pre-state (target path, one neighbour word per path table, garbage in allocatable frames); page-table indices (511,510,1,0)"
    //@ obligation C02 C02.unmap_4kib.shape_p2_absent.documented_outcome bounded="pool of 7 tables (4 path + 3 allocatable); tree-shaped sparse pre-state (target path, one neighbour word per path table, garbage in allocatable frames); page-table indices (511,510,1,0)"
    //@ obligation C01 C01.unmap_4kib.shape_p2_absent.translate_agrees_after bounded="pool of 7 tables (4 path + 3 allocatable); tree-shaped sparse pre-state (target path, one neighbour word per path table, garbage in allocatable frames); page-table indices (511,510,1,0)"
    //@ obligation C09 C09.unmap_4kib.shape_p2_absent.only_dictated_slots_change bounded="pool of 7 tables (4 path + 3 allocatable); tree-shaped sparse pre-state (target path, one neighbour word per path table, garbage in allocatable frames); page-table indices (511,510,1,0)"
    //@ obligation C09 C09.unmap_4kib.shape_p2_absent.no_frames_requested_or_zeroed bounded="pool of 7 tables (4 path + 3 allocatable); tree-shaped sparse pre-state (target path, one neighbour word per path table, garbage in allocatable frames); page-table indices (511,510,1,0)"
    //@ obligation C09 C09.unmap_4kib.shape_p2_absent.no_dangling_table_pointer bounded="pool of 7 tables (4 path + 3 allocatable); tree-shaped sparse pre-state (target path, one neighbour word per path table, garbage in allocatable frames); page-table indices (511,510,1,0)"
    //@ obligation C09 C09.unmap_4kib.shape_p2_absent.no_access_outside_page_tables bounded="pool of 7 tables (4 path + 3 allocatable); tree-shaped sparse pre-state (target path, one neighbour word per path table, garbage in allocatable frames); page-table indices (511,510,1,0)"
    #[kani::proof]
    #[kani::stub(PageTable::zero, zero_stub)]
    fn c01_unmap_4kib_p2_absent_hi() {
        unmap_step!(Size4KiB, "4kib", "p2_absent", P2_ABSENT, IDX_HI);
        kani::cover!(true, "c01_unmap_4kib_p2_absent_hi: reachable");
    }

    //@ obligation C02 C02.unmap_4kib.shape_p2_absent.error_leaves_every_mapping tier=thorough bounded="pool of 7 tables (4 path + 3 allocatable); tree-shaped sparse pre-state (target path, one neighbour word per path table, garbage in allocatable frames); page-table indices (255,511,0,256)"
    //@ obligation C02 C02.unmap_4kib.shape_p2_absent.documented_outcome tier=thorough bounded="pool of 7 tables (4 path + 3 allocatable); tree-shaped sparse pre-state (target path, one neighbour word per path table, garbage in allocatable frames); page-table indices (255,511,0,256)"
    //@ obligation C01 C01.unmap_4kib.shape_p2_absent.translate_agrees_after tier=thorough bounded="pool of 7 tables (4 path + 3 allocatable); tree-shaped sparse pre-state (target path, one neighbour word per path table, garbage in allocatable frames); page-table indices (255,511,0,256)"
    //@ obligation C09 C09.unmap_4kib.shape_p2_absent.only_dictated_slots_change tier=thorough bounded="pool of 7 tables (4 path + 3 allocatable); tree-shaped sparse pre-state (target path, one neighbour word per path table, garbage in allocatable frames); page-table indices (255,511,0,256)"
    //@ obligation C09 C09.unmap_4kib.shape_p2_absent.no_frames_requested_or_zeroed tier=thorough bounded="pool of 7 tables (4 path + 3 allocatable); tree-shaped sparse pre-state (target path, one neighbour word per path table, garbage in allocatable frames); page-table indices (255,511,0,256)"
    //@ obligation C09 C09.unmap_4kib.shape_p2_absent.no_dangling_table_pointer tier=thorough bounded="pool of 7 tables (4 path + 3 allocatable); tree-shaped sparse pre-state (target path, one neighbour word per path table, garbage in allocatable frames); page-table indices (255,511,0,256)"
    //@ obligation C09 C09.unmap_4kib.shape_p2_absent.no_access_outside_page_tables tier=thorough bounded="pool of 7 tables (4 path + 3 allocatable); tree-shaped sparse pre-state (target path, one neighbour word per path table, garbage in allocatable frames); page-table indices (255,511,0,256)"
    #[kani::proof]
    #[kani::stub(PageTable::zero, zero_stub)]
    fn c01_unmap_4kib_p2_absent_mid() {
        unmap_step!(Size4KiB, "4kib", "p2_absent", P2_ABSENT, IDX_MID);
        kani::cover!(true, "c01_unmap_4kib_p2_absent_mid: reachable");
    }

    //@ obligation C02 C02.unmap_4kib.shape_p2_absent.error_leaves_every_mapping tier=thorough bounded="pool of 7 tables (4 path + 3 allocatable); tree-shaped sparse pre-state (target path, one neighbour word per path table, garbage in allocatable frames); page-table indices (256,0,510,511)"
    //@ obligation C02 C02.unmap_4kib.shape_p2_absent.documented_outcome tier=thorough bounded="pool of 7 tables (4 path + 3 allocatable); tree-shaped sparse pre-state (target path, one neighbour word per path table, garbage in allocatable frames); page-table indices (256,0,510,511)"
    //@ obligation C01 C01.unmap_4kib.shape_p2_absent.translate_agrees_after tier=thorough bounded="pool of 7 tables (4 path + 3 allocatable); tree-shaped sparse pre-state (target path, one neighbour word per path table, garbage in allocatable frames); page-table indices (256,0,510,511)"
    //@ obligation C09 C09.unmap_4kib.shape_p2_absent.only_dictated_slots_change tier=thorough bounded="pool of 7 tables (4 path + 3 allocatable); tree-shaped sparse pre-state (target path, one neighbour word per path table, garbage in allocatable frames); page-table indices (256,0,510,511)"
    //@ obligation C09 C09.unmap_4kib.shape_p2_absent.no_frames_requested_or_zeroed tier=thorough bounded="pool of 7 tables (4 path + 3 allocatable); tree-shaped sparse pre-state (target path, one neighbour word per path table, garbage in allocatable frames); page-table indices (256,0,510,511)"
    //@ obligation C09 C09.unmap_4kib.shape_p2_absent.no_dangling_table_pointer tier=thorough bounded="pool of 7 tables (4 path + 3 allocatable); tree-shaped sparse pre-state (target path, one neighbour word per path table, garbage in allocatable frames); page-table indices (256,0,510,511)"
    //@ obligation C09 C09.unmap_4kib.shape_p2_absent.no_access_outside_page_tables tier=thorough bounded="pool of 7 tables (4 path + 3 allocatable); tree-shaped sparse pre-state (target path, one neighbour word per path table, garbage in allocatable frames); page-table indices (256,0,510,511)"
    #[kani::proof]
    #[kani::stub(PageTable::zero, zero_stub)]
    fn c01_unmap_4kib_p2_absent_up() {
        unmap_step!(Size4KiB, "4kib", "p2_absent", P2_ABSENT, IDX_UP);
        kani::cover!(true, "c01_unmap_4kib_p2_absent_up: reachable");
    }

    //@ obligation C02 C02.unmap_4kib.shape_p2_huge.error_leaves_every_mapping tier=thorough bounded="pool of 7 tables (4 path + 3 allocatable); tree-shaped sparse pre-state (target path, one neighbour word per path table, garbage in allocatable frames); page-table indices (0,1,511,2)"
    //@ obligation C02 C02.unmap_4kib.shape_p2_huge.documented_outcome tier=thorough bounded="pool of 7 tables (4 path + 3 allocatable); tree-shaped sparse pre-state (target path, one neighbour word per path table, garbage in allocatable frames); page-table indices (0,1,511,2)"
    //@ obligation C01 C01.unmap_4kib.shape_p2_huge.translate_agrees_after tier=thorough bounded="pool of 7 tables (4 path + 3 allocatable); tree-shaped sparse pre-state (target path, one neighbour word per path table, garbage in allocatable frames); page-table indices (0,1,511,2)"
    //@ obligation C09 C09.unmap_4kib.shape_p2_huge.only_dictated_slots_change tier=thorough bounded="pool of 7 tables (4 path + 3 allocatable); tree-shaped sparse pre-state (target path, one neighbour word per path table, garbage in allocatable frames); page-table indices (0,1,511,2)"
    //@ obligation C09 C09.unmap_4kib.shape_p2_huge.no_frames_requested_or_zeroed tier=thorough bounded="pool of 7 tables (4 path + 3 allocatable); tree-shaped sparse pre-state (target path, one neighbour word per path table, garbage in allocatable frames); page-table indices (0,1,511,2)"
    //@ obligation C09 C09.unmap_4kib.shape_p2_huge.no_dangling_table_pointer tier=thorough bounded="pool of 7 tables (4 path + 3 allocatable); tree-shaped sparse pre-state (target path, one neighbour word per path table, garbage in allocatable frames); page-table indices (0,1,511,2)"
    //@ obligation C09 C09.unmap_4kib.shape_p2_huge.no_access_outside_page_tables tier=thorough bounded="pool of 7 tables (4 path + 3 allocatable); tree-shaped sparse pre-state (target path, one neighbour word per path table, garbage in allocatable frames); page-table indices (0,1,511,2)"
    #[kani::proof]
    #[kani::stub(PageTable::zero, zero_stub)]
    fn c01_unmap_4kib_p2_huge_lo() {
        unmap_step!(Size4KiB, "4kib", "p2_huge", P2_HUGE, IDX_LO);
        kani::cover!(true, "c01_unmap_4kib_p2_huge_lo: reachable");
    }

    //@ obligation C02 C02.unmap_4kib.shape_p2_huge.error_leaves_every_mapping tier=thorough bounded="pool of 7 tables (4 path + 3 allocatable); tree-shaped sparse pre-state (target path, one neighbour word per path table, garbage in allocatable frames); page-table indices (511,510,1,0)"
    //@ obligation C02 C02.unmap_4kib.shape_p2_huge.documented_outcome tier=thorough bounded="pool of 7 tables (4 path + 3 allocatable); tree-shaped sparse pre-state (target path, one neighbour word per path table, garbage in allocatable frames); page-table indices (511,510,1,0)"
    //@ obligation C01 C01.unmap_4kib.shape_p2_huge.translate_agrees_after tier=thorough bounded="pool of 7 tables (4 path + 3 allocatable); tree-shaped sparse pre-state (target path, one neighbour word per path table, garbage in allocatable frames); page-table indices (511,510,1,0)"
    //@ obligation C09 C09.unmap_4kib.shape_p2_huge.only_dictated_slots_change tier=thorough bounded="pool of 7 tables (4 path + 3 allocatable); tree-shaped sparse pre-state (target path, one neighbour word per path table, garbage in allocatable frames); page-table indices (511,510,1,0)"
    //@ obligation C09 C09.unmap_4kib.shape_p2_huge.no_frames_requested_or_zeroed tier=thorough bounded="pool of 7 tables (4 path + 3 allocatable); tree-shaped sparse pre-state (target path, one neighbour word per path table, garbage in allocatable frames); page-table indices (511,510,1,0)"
    //@ obligation C09 C09.unmap_4kib.shape_p2_huge.no_dangling_table_pointer tier=thorough bounded="pool of 7 tables (4 path + 3 allocatable); tree-shaped sparse pre-state (target path, one neighbour word per path table, garbage in allocatable frames); page-table indices (511,510,1,0)"
    //@ obligation C09 C09.unmap_4kib.shape_p2_huge.no_access_outside_page_tables tier=thorough bounded="pool of 7 tables (4 path + 3 allocatable); tree-shaped sparse pre-state (target path, one neighbour word per path table, garbage in allocatable frames); page-table indices (511,510,1,0)"
    #[kani::proof]
    #[kani::stub(PageTable::zero, zero_stub)]
    fn c01_unmap_4kib_p2_huge_hi() {
        unmap_step!(Size4KiB, "4kib", "p2_huge", P2_HUGE, IDX_HI);
        kani::cover!(true, "c01_unmap_4kib_p2_huge_hi: reachable");
    }

    //@ obligation C02 C02.unmap_4kib.shape_p2_huge.error_leaves_every_mapping bounded="pool of 7 tables (4 path + 3 allocatable); tree-shaped sparse pre-state (target path, one neighbour word per path table, garbage in allocatable frames); page-table indices (255,511,0,256)"
    //@ obligation C02 C02.unmap_4kib.shape_p2_huge.documented_outcome bounded="pool of 7 tables (4 path + 3 allocatable); tree-shaped sparse pre-state (target path, one neighbour word per path table, garbage in allocatable frames); page-table indices (255,511,0,256)"
    //@ obligation C01 C01.unmap_4kib.shape_p2_huge.translate_agrees_after bounded="pool of 7 tables (4 path + 3 allocatable); tree-shaped sparse pre-state (target path, one neighbour word per path table, garbage in allocatable frames); page-table indices (255,511,0,256)"
    //@ obligation C09 C09.unmap_4kib.shape_p2_huge.only_dictated_slots_change bounded="pool of 7 tables (4 path + 3 allocatable); tree-shaped sparse pre-state (target path, one neighbour word per path table, garbage in allocatable frames); page-table indices (255,511,0,256)"
    //@ obligation C09 C09.unmap_4kib.shape_p2_huge.no_frames_requested_or_zeroed bounded="pool of 7 tables (4 path + 3 allocatable); tree-shaped sparse pre-state (target path, one neighbour word per path table, garbage in allocatable frames); page-table indices (255,511,0,256)"
    //@ obligation C09 C09.unmap_4kib.shape_p2_huge.no_dangling_table_pointer bounded="pool of 7 tables (4 path + 3 allocatable); tree-shaped sparse pre-state (target path, one neighbour word per path table, garbage in allocatable frames); page-table indices (255,511,0,256)"
    //@ obligation C09 C09.unmap_4kib.shape_p2_huge.no_access_outside_page_tables bounded="pool of 7 tables (4 path + 3 allocatable); tree-shaped sparse pre-state (target path, one neighbour word per path table, garbage in allocatable frames); page-table indices (255,511,0,256)"
    #[kani::proof]
    #[kani::stub(PageTable::zero, zero_stub)]
    fn c01_unmap_4kib_p2_huge_mid() {
        unmap_step!(Size4KiB, "4kib", "p2_huge", P2_HUGE, IDX_MID);
        kani::cover!(true, "c01_unmap_4kib_p2_huge_mid: reachable");
    }

    //@ obligation C02 C02.unmap_4kib.shape_p2_huge.error_leaves_every_mapping tier=thorough bounded="pool of 7 tables (4 path + 3 allocatable); tree-shaped sparse pre-state (target path, one neighbour word per path table, garbage in allocatable frames); page-table indices (256,0,510,511)"
    //@ obligation C02 C02.unmap_4kib.shape_p2_huge.documented_outcome tier=thorough bounded="pool of 7 tables (4 path + 3 allocatable); tree-shaped sparse pre-state (target path, one neighbour word per path table, garbage in allocatable frames); page-table indices (256,0,510,511)"
    //@ obligation C01 C01.unmap_4kib.shape_p2_huge.translate_agrees_after tier=thorough bounded="pool of 7 tables (4 path + 3 allocatable); tree-shaped sparse pre-state (target path, one neighbour word per path table, garbage in allocatable frames); page-table indices (256,0,510,511)"
    //@ obligation C09 C09.unmap_4kib.shape_p2_huge.only_dictated_slots_change tier=thorough bounded="pool of 7 tables (4 path + 3 allocatable); tree-shaped sparse pre-state (target path, one neighbour word per path table, garbage in allocatable frames); page-table indices (256,0,510,511)"
    //@ obligation C09 C09.unmap_4kib.shape_p2_huge.no_frames_requested_or_zeroed tier=thorough bounded="pool of 7 tables (4 path + 3 allocatable); tree-shaped sparse pre-state (target path, one neighbour word per path table, garbage in allocatable frames); page-table indices (256,0,510,511)"
    //@ obligation C09 C09.unmap_4kib.shape_p2_huge.no_dangling_table_pointer tier=thorough bounded="pool of 7 tables (4 path + 3 allocatable); tree-shaped sparse pre-state (target path, one neighbour word per path table, garbage in allocatable frames); page-table indices (256,0,510,511)"
    //@ obligation C09 C09.unmap_4kib.shape_p2_huge.no_access_outside_page_tables tier=thorough bounded="pool of 7 tables (4 path + 3 allocatable); tree-shaped sparse pre-state (target path, one neighbour word per path table, garbage in allocatable frames); page-table indices (256,0,510,511)"
    #[kani::proof]
    #[kani::stub(PageTable::zero, zero_stub)]
    fn c01_unmap_4kib_p2_huge_up() {
        unmap_step!(Size4KiB, "4kib", "p2_huge", P2_HUGE, IDX_UP);
        kani::cover!(true, "c01_unmap_4kib_p2_huge_up: reachable");
    }

    //@ obligation C02 C02.unmap_4kib.shape_p1_absent.error_leaves_every_mapping tier=thorough bounded="pool of 7 tables (4 path + 3 allocatable); tree-shaped sparse pre-state (target path, one neighbour word per path table, garbage in allocatable frames); page-table indices (0,1,511,2)"
    //@ obligation C02 C02.unmap_4kib.shape_p1_absent.documented_outcome tier=thorough bounded="pool of 7 tables (4 path + 3 allocatable); tree-shaped sparse pre-state (target path, one neighbour word per path table, garbage in allocatable frames); page-table indices (0,1,511,2)"
    //@ obligation C01 C01.unmap_4kib.shape_p1_absent.translate_agrees_after tier=thorough bounded="pool of 7 tables (4 path + 3 allocatable); tree-shaped sparse pre-state (target path, one neighbour word per path table, garbage in allocatable frames); page-table indices (0,1,511,2)"
    //@ obligation C09 C09.unmap_4kib.shape_p1_absent.only_dictated_slots_change tier=thorough bounded="pool of 7 tables (4 path + 3 allocatable); tree-shaped sparse pre-state (target path, one neighbour word per path table, garbage in allocatable frames); page-table indices (0,1,511,2)"
    //@ obligation C09 C09.unmap_4kib.shape_p1_absent.no_frames_requested_or_zeroed tier=thorough bounded="pool of 7 tables (4 path + 3 allocatable); tree-shaped sparse pre-state (target path, one neighbour word per path table, garbage in allocatable frames); page-table indices (0,1,511,2)"
    //@ obligation C09 C09.unmap_4kib.shape_p1_absent.no_dangling_table_pointer tier=thorough bounded="pool of 7 tables (4 path + 3 allocatable); tree-shaped sparse pre-state (target path, one neighbour word per path table, garbage in allocatable frames); page-table indices (0,1,511,2)"
    //@ obligation C09 C09.unmap_4kib.shape_p1_absent.no_access_outside_page_tables tier=thorough bounded="pool of 7 tables (4 path + 3 allocatable); tree-shaped sparse pre-state (target path, one neighbour word per path table, garbage in allocatable frames); page-table indices (0,1,511,2)"
    #[kani::proof]
    #[kani::stub(PageTable::zero, zero_stub)]
    fn c01_unmap_4kib_p1_absent_lo() {
        unmap_step!(Size4KiB, "4kib", "p1_absent", P1_ABSENT, IDX_LO);
        kani::cover!(true, "c01_unmap_4kib_p1_absent_lo: reachable");
    }

    //@ obligation C02 C02.unmap_4kib.shape_p1_absent.error_leaves_every_mapping tier=thorough bounded="pool of 7 tables (4 path + 3 allocatable); tree-shaped sparse pre-state (target path, one neighbour word per path table, garbage in allocatable frames); page-table indices (511,510,1,0)"
    //@ obligation C02 C02.unmap_4kib.shape_p1_absent.documented_outcome tier=thorough bounded="pool of 7 tables (4 path + 3 allocatable); tree-shaped sparse pre-state (target path, one neighbour word per path table, garbage in allocatable frames); page-table indices (511,510,1,0)"
    //@ obligation C01 C01.unmap_4kib.shape_p1_absent.translate_agrees_after tier=thorough bounded="pool of 7 tables (4 path + 3 allocatable); tree-shaped sparse pre-state (target path, one neighbour word per path table, garbage in allocatable frames); page-table indices (511,510,1,0)"
    //@ obligation C09 C09.unmap_4kib.shape_p1_absent.only_dictated_slots_change tier=thorough bounded="pool of 7 tables (4 path + 3 allocatable); tree-shaped sparse pre-state (target path, one neighbour word per path table, garbage in allocatable frames); page-table indices (511,510,1,0)"
    //@ obligation C09 C09.unmap_4kib.shape_p1_absent.no_frames_requested_or_zeroed tier=thorough bounded="pool of 7 tables (4 path + 3 allocatable); tree-shaped sparse pre-state (target path, one neighbour word per path table, garbage in allocatable frames); page-table indices (511,510,1,0)"
    //@ obligation C09 C09.unmap_4kib.shape_p1_absent.no_dangling_table_pointer tier=thorough bounded="pool of 7 tables (4 path + 3 allocatable); tree-shaped sparse pre-state (target path, one neighbour word per path table, garbage in allocatable frames); page-table indices (511,510,1,0)"
    //@ obligation C09 C09.unmap_4kib.shape_p1_absent.no_access_outside_page_tables tier=thorough bounded="pool of 7 tables (4 path + 3 allocatable); tree-shaped sparse pre-state (target path, one neighbour word per path table, garbage in allocatable frames); page-table indices (511,510,1,0)"
    #[kani::proof]
    #[kani::stub(PageTable::zero, zero_stub)]
    fn c01_unmap_4kib_p1_absent_hi() {
        unmap_step!(Size4KiB, "4kib", "p1_absent", P1_ABSENT, IDX_HI);
        kani::cover!(true, "c01_unmap_4kib_p1_absent_hi: reachable");
    }

    //@ obligation C02 C02.unmap_4kib.shape_p1_absent.error_leaves_every_mapping bounded="pool of 7 tables (4 path + 3 allocatable); tree-shaped sparse pre-state (target path, one neighbour word per path table, garbage in allocatable frames); page-table indices (255,511,0,256)"
    //@ obligation C02 C02.unmap_4kib.shape_p1_absent.documented_outcome bounded="pool of 7 tables (4 path + 3 allocatable); tree-shaped sparse pre-state (target path, one neighbour word per path table, garbage in allocatable frames); page-table indices (255,511,0,256)"
    //@ obligation C01 C01.unmap_4kib.shape_p1_absent.translate_agrees_after bounded="pool of 7 tables (4 path + 3 allocatable); tree-shaped sparse pre-state (target path, one neighbour word per path table, garbage in allocatable frames); page-table indices (255,511,0,256)"
    //@ obligation C09 C09.unmap_4kib.shape_p1_absent.only_dictated_slots_change bounded="pool of 7 tables (4 path + 3 allocatable); tree-shaped sparse pre-state (target path, one neighbour word per path table, garbage in allocatable frames); page-table indices (255,511,0,256)"
    //@ obligation C09 C09.unmap_4kib.shape_p1_absent.no_frames_requested_or_zeroed bounded="pool of 7 tables (4 path + 3 allocatable); tree-shaped sparse pre-state (target path, one neighbour word per path table, garbage in allocatable frames); page-table indices (255,511,0,256)"
    //@ obligation C09 C09.unmap_4kib.shape_p1_absent.no_dangling_table_pointer bounded="pool of 7 tables (4 path + 3 allocatable); tree-shaped sparse pre-state (target path, one neighbour word per path table, garbage in allocatable frames); page-table indices (255,511,0,256)"
    //@ obligation C09 C09.unmap_4kib.shape_p1_absent.no_access_outside_page_tables bounded="pool of 7 tables (4 path + 3 allocatable); tree-shaped sparse pre-state (target path, one neighbour word per path table, garbage in allocatable frames); page-table indices (255,511,0,256)"
    #[kani::proof]
    #[kani::stub(PageTable::zero, zero_stub)]
    fn c01_unmap_4kib_p1_absent_mid() {
        unmap_step!(Size4KiB, "4kib", "p1_absent", P1_ABSENT, IDX_MID);
        kani::cover!(true, "c01_unmap_4kib_p1_absent_mid: reachable");
    }

    //@ obligation C02 C02.unmap_4kib.shape_p1_absent.error_leaves_every_mapping tier=thorough bounded="pool of 7 tables (4 path + 3 allocatable); tree-shaped sparse pre-state (target path, one neighbour word per path table, garbage in allocatable frames); page-table indices (256,0,510,511)"
    //@ obligation C02 C02.unmap_4kib.shape_p1_absent.documented_outcome tier=thorough bounded="pool of 7 tables (4 path + 3 allocatable); tree-shaped sparse pre-state (target path, one neighbour word per path table, garbage in allocatable frames); page-table indices (256,0,510,511)"
    //@ obligation C01 C01.unmap_4kib.shape_p1_absent.translate_agrees_after tier=thorough bounded="pool of 7 tables (4 path + 3 allocatable); tree-shaped sparse pre-state (target path, one neighbour word per path table, garbage in allocatable frames); page-table indices (256,0,510,511)"
    //@ obligation C09 C09.unmap_4kib.shape_p1_absent.only_dictated_slots_change tier=thorough bounded="pool of 7 tables (4 path + 3 allocatable); tree-shaped sparse pre-state (target path, one neighbour word per path table, garbage in allocatable frames); page-table indices (256,0,510,511)"
    //@ obligation C09 C09.unmap_4kib.shape_p1_absent.no_frames_requested_or_zeroed tier=thorough bounded="pool of 7 tables (4 path + 3 allocatable); tree-shaped sparse pre-state (target path, one neighbour word per path table, garbage in allocatable frames); page-table indices (256,0,510,511)"
    //@ obligation C09 C09.unmap_4kib.shape_p1_absent.no_dangling_table_pointer tier=thorough bounded="pool of 7 tables (4 path + 3 allocatable); tree-shaped sparse pre-state (target path, one neighbour word per path table, garbage in allocatable frames); page-table indices (256,0,510,511)"
    //@ obligation C09 C09.unmap_4kib.shape_p1_absent.no_access_outside_page_tables tier=thorough bounded="pool of 7 tables (4 path + 3 allocatable); tree-shaped sparse pre-state (target path, one neighbour word per path table, garbage in allocatable frames); page-table indices (256,0,510,511)"
    #[kani::proof]
    #[kani::stub(PageTable::zero, zero_stub)]
    fn c01_unmap_4kib_p1_absent_up() {
        unmap_step!(Size4KiB, "4kib", "p1_absent", P1_ABSENT, IDX_UP);
        kani::cover!(true, "c01_unmap_4kib_p1_absent_up: reachable");
    }

    //@ obligation C01 C01.unmap_4kib.shape_p1_leaf.returns_mapped_frame tier=thorough bounded="pool of 7 tables (4 path + 3 allocatable); tree-shaped sparse pre-state (target path, one neighbour word per path table, garbage in allocatable frames); page-table indices (0,1,511,2)"
    //@ obligation C01 C01.unmap_4kib.shape_p1_leaf.target_not_mapped_after tier=thorough bounded="pool of 7 tables (4 path + 3 allocatable); tree-shaped sparse pre-state (target path, one neighbour word per path table, garbage in allocatable frames); page-table indices (0,1,511,2)"
    //@ obligation C11 C11.unmap_4kib.shape_p1_leaf.target_not_mapped_after tier=thorough bounded="pool of 7 tables (4 path + 3 allocatable); tree-shaped sparse pre-state (target path, one neighbour word per path table, garbage in allocatable frames); page-table indices (0,1,511,2)"
    //@ obligation C01 C01.unmap_4kib.shape_p1_leaf.other_addresses_unchanged tier=thorough bounded="pool of 7 tables (4 path + 3 allocatable); tree-shaped sparse pre-state (target path, one neighbour word per path table, garbage in allocatable frames); page-table indices (0,1,511,2)"
    //@ obligation C11 C11.unmap_4kib.shape_p1_leaf.other_addresses_unchanged tier=thorough bounded="pool of 7 tables (4 path + 3 allocatable); tree-shaped sparse pre-state (target path, one neighbour word per path table, garbage in allocatable frames); page-table indices (0,1,511,2)"
    //@ obligation C01 C01.unmap_4kib.shape_p1_leaf.result_reports_page tier=thorough bounded="pool of 7 tables (4 path + 3 allocatable); tree-shaped sparse pre-state (target path, one neighbour word per path table, garbage in allocatable frames); page-table indices (0,1,511,2)"
    //@ obligation C11 C11.unmap_4kib.shape_p1_leaf.token_names_page tier=thorough bounded="pool of 7 tables (4 path + 3 allocatable); tree-shaped sparse pre-state (target path, one neighbour word per path table, garbage in allocatable frames); page-table indices (0,1,511,2)"
    //@ obligation C02 C02.unmap_4kib.shape_p1_leaf.documented_outcome tier=thorough bounded="pool of 7 tables (4 path + 3 allocatable); tree-shaped sparse pre-state (target path, one neighbour word per path table, garbage in allocatable frames); page-table indices (0,1,511,2)"
    //@ obligation C01 C01.unmap_4kib.shape_p1_leaf.translate_agrees_after tier=thorough bounded="pool of 7 tables (4 path + 3 allocatable); tree-shaped sparse pre-state (target path, one neighbour word per path table, garbage in allocatable frames); page-table indices (0,1,511,2)"
    //@ obligation C09 C09.unmap_4kib.shape_p1_leaf.only_dictated_slots_change tier=thorough bounded="pool of 7 tables (4 path + 3 allocatable); tree-shaped sparse pre-state (target path, one neighbour word per path table, garbage in allocatable frames); page-table indices (0,1,511,2)"
    //@ obligation C09 C09.unmap_4kib.shape_p1_leaf.no_frames_requested_or_zeroed tier=thorough bounded="pool of 7 tables (4 path + 3 allocatable); tree-shaped sparse pre-state (target path, one neighbour word per path table, garbage in allocatable frames); page-table indices (0,1,511,2)"
    //@ obligation C09 C09.unmap_4kib.shape_p1_leaf.no_dangling_table_pointer tier=thorough bounded="pool of 7 tables (4 path + 3 allocatable); tree-shaped sparse pre-state (target path, one neighbour word per path table, garbage in allocatable frames); page-table indices (0,1,511,2)"
    //@ obligation C09 C09.unmap_4kib.shape_p1_leaf.no_access_outside_page_tables tier=thorough bounded="pool of 7 tables (4 path + 3 allocatable); tree-shaped sparse pre-state (target path, one neighbour word per path table, garbage in allocatable frames); page-table indices (0,1,511,2)"
    #[kani::proof]
    #[kani::stub(PageTable::zero, zero_stub)]
    fn c01_unmap_4kib_p1_leaf_lo() {
        unmap_step!(Size4KiB, "4kib", "p1_leaf", P1_LEAF, IDX_LO);
        kani::cover!(true, "c01_unmap_4kib_p1_leaf_lo: reachable");
    }

    //@ obligation C01 C01.unmap_4kib.shape_p1_leaf.returns_mapped_frame tier=thorough bounded="pool of 7 tables (4 path + 3 allocatable); tree-shaped sparse pre-state (target path, one neighbour word per path table, garbage in allocatable frames); page-table indices (511,510,1,0)"
    //@ obligation C01 C01.unmap_4kib.shape_p1_leaf.target_not_mapped_after tier=thorough bounded="pool of 7 tables (4 path + 3 allocatable); tree-shaped sparse pre-state (target path, one neighbour word per path table, garbage in allocatable frames); page-table indices (511,510,1,0)"
    //@ obligation C11 C11.unmap_4kib.shape_p1_leaf.target_not_mapped_after tier=thorough bounded="pool of 7 tables (4 path + 3 allocatable); tree-shaped sparse pre-state (target path, one neighbour word per path table, garbage in allocatable frames); page-table indices (511,510,1,0)"
    //@ obligation C01 C01.unmap_4kib.shape_p1_leaf.other_addresses_unchanged tier=thorough bounded="pool of 7 tables (4 path + 3 allocatable); tree-shaped sparse pre-state (target path, one neighbour word per path table, garbage in allocatable frames); page-table indices (511,510,1,0)"
    //@ obligation C11 C11.unmap_4kib.shape_p1_leaf.other_addresses_unchanged tier=thorough bounded="pool of 7 tables (4 path + 3 allocatable); tree-shaped sparse pre-state (target path, one neighbour word per path table, garbage in allocatable frames); page-table indices (511,510,1,0)"
    //@ obligation C01 C01.unmap_4kib.shape_p1_leaf.result_reports_page tier=thorough bounded="pool of 7 tables (4 path + 3 allocatable); tree-shaped sparse pre-state (target path, one neighbour word per path table, garbage in allocatable frames); page-table indices (511,510,1,0)"
    //@ obligation C11 C11.unmap_4kib.shape_p1_leaf.token_names_page tier=thorough bounded="pool of 7 tables (4 path + 3 allocatable); tree-shaped sparse pre-state (target path, one neighbour word per path table, garbage in allocatable frames); page-table indices (511,510,1,0)"
    //@ obligation C02 C02.unmap_4kib.shape_p1_leaf.documented_outcome tier=thorough bounded="pool of 7 tables (4 path + 3 allocatable); tree-shaped sparse pre-state (target path, one neighbour word per path table, garbage in allocatable frames); page-table indices (511,510,1,0)"
    //@ obligation C01 C01.unmap_4kib.shape_p1_leaf.translate_agrees_after tier=thorough bounded="pool of 7 tables (4 path + 3 allocatable); tree-shaped sparse pre-state (target path, one neighbour word per path table, garbage in allocatable frames); page-table indices (511,510,1,0)"
    //@ obligation C09 C09.unmap_4kib.shape_p1_leaf.only_dictated_slots_change tier=thorough bounded="pool of 7 tables (4 path + 3 allocatable); tree-shaped sparse pre-state (target path, one neighbour word per path table, garbage in allocatable frames); page-table indices (511,510,1,0)"
    //@ obligation C09 C09.unmap_4kib.shape_p1_leaf.no_frames_requested_or_zeroed tier=thorough bounded="pool of 7 tables (4 path + 3 allocatable); tree-shaped sparse pre-state (target path, one neighbour word per path table, garbage in allocatable frames); page-table indices (511,510,1,0)"
    //@ obligation C09 C09.unmap_4kib.shape_p1_leaf.no_dangling_table_pointer tier=thorough bounded="pool of 7 tables (4 path + 3 allocatable); tree-shaped sparse pre-state (target path, one neighbour word per path table, garbage in allocatable frames); page-table indices (511,510,1,0)"
    //@ obligation C09 C09.unmap_4kib.shape_p1_leaf.no_access_outside_page_tables tier=thorough bounded="pool of 7 tables (4 path + 3 allocatable); tree-shaped sparse pre-state (target path, one neighbour word per path table, garbage in allocatable frames); page-table indices (511,510,1,0)"
    #[kani::proof]
    #[kani::stub(PageTable::zero, zero_stub)]
    fn c01_unmap_4kib_p1_leaf_hi() {
        unmap_step!(Size4KiB, "4kib", "p1_leaf", P1_LEAF, IDX_HI);
        kani::cover!(true, "c01_unmap_4kib_p1_leaf_hi: reachable");
    }

    //@ obligation C01 C01.unmap_4kib.shape_p1_leaf.returns_mapped_frame bounded="pool of 7 tables (4 path + 3 allocatable); tree-shaped sparse pre-state (target path, one neighbour word per path table, garbage in allocatable frames); page-table indices (255,511,0,256)"
    //@ obligation C01 C01.unmap_4kib.shape_p1_leaf.target_not_mapped_after bounded="pool of 7 tables (4 path + 3 allocatable); tree-shaped sparse pre-state (target path, one neighbour word per path table, garbage in allocatable frames); page-table indices (255,511,0,256)"
    //@ obligation C11 C11.unmap_4kib.shape_p1_leaf.target_not_mapped_after bounded="pool of 7 tables (4 path + 3 allocatable); tree-shaped sparse pre-state (target path, one neighbour word per path table, garbage in allocatable frames); page-table indices (255,511,0,256)"
    //@ obligation C01 C01.unmap_4kib.shape_p1_leaf.other_addresses_unchanged bounded="pool of 7 tables (4 path + 3 allocatable); tree-shaped sparse pre-state (target path, one neighbour word per path table, garbage in allocatable frames); page-table indices (255,511,0,256)"
    //@ obligation C11 C11.unmap_4kib.shape_p1_leaf.other_addresses_unchanged bounded="pool of 7 tables (4 path + 3 allocatable); tree-shaped sparse pre-state (target path, one neighbour word per path table, garbage in allocatable frames); page-table indices (255,511,0,256)"
    //@ obligation C01 C01.unmap_4kib.shape_p1_leaf.result_reports_page bounded="pool of 7 tables (4 path + 3 allocatable); tree-shaped sparse pre-state (target path, one neighbour word per path table, garbage in allocatable frames); page-table indices (255,511,0,256)"
    //@ obligation C11 C11.unmap_4kib.shape_p1_leaf.token_names_page bounded="pool of 7 tables (4 path + 3 allocatable); tree-shaped sparse pre-state (target path, one neighbour word per path table, garbage in allocatable frames); page-table indices (255,511,0,256)"
    //@ obligation C02 C02.unmap_4kib.shape_p1_leaf.documented_outcome bounded="pool of 7 tables (4 path + 3 allocatable); tree-shaped sparse pre-state (target path, one neighbour word per path table, garbage in allocatable frames); page-table indices (255,511,0,256)"
    //@ obligation C01 C01.unmap_4kib.shape_p1_leaf.translate_agrees_after bounded="pool of 7 tables (4 path + 3 allocatable); tree-shaped sparse pre-state (target path, one neighbour word per path table, garbage in allocatable frames); page-table indices (255,511,0,256)"
    //@ obligation C09 C09.unmap_4kib.shape_p1_leaf.only_dictated_slots_change bounded="pool of 7 tables (4 path + 3 allocatable); tree-shaped sparse pre-state (target path, one neighbour word per path table, garbage in allocatable frames); page-table indices (255,511,0,256)"
    //@ obligation C09 C09.unmap_4kib.shape_p1_leaf.no_frames_requested_or_zeroed bounded="pool of 7 tables (4 path + 3 allocatable); tree-shaped sparse pre-state (target path, one neighbour word per path table, garbage in allocatable frames); page-table indices (255,511,0,256)"
    //@ obligation C09 C09.unmap_4kib.shape_p1_leaf.no_dangling_table_pointer bounded="pool of 7 tables (4 path + 3 allocatable); tree-shaped sparse pre-state (target path, one neighbour word per path table, garbage in allocatable frames); page-table indices (255,511,0,256)"
    //@ obligation C09 C09.unmap_4kib.shape_p1_leaf.no_access_outside_page_tables bounded="pool of 7 tables (4 path + 3 allocatable); tree-shaped sparse pre-state (target path, one neighbour word per path table, garbage in allocatable frames); page-table indices (255,511,0,256)"
    #[kani::proof]
    #[kani::stub(PageTable::zero, zero_stub)]
    fn c01_unmap_4kib_p1_leaf_mid() {
        unmap_step!(Size4KiB, "4kib", "p1_leaf", P1_LEAF, IDX_MID);
        kani::cover!(true, "c01_unmap_4kib_p1_leaf_mid: reachable");
    }

    //@ obligation C01 C01.unmap_4kib.shape_p1_leaf.returns_mapped_frame tier=thorough bounded="pool of 7 tables (4 path + 3 allocatable); tree-shaped sparse pre-state (target path, one neighbour word per path table, garbage in allocatable frames); page-table indices (256,0,510,511)"
    //@ obligation C01 C01.unmap_4kib.shape_p1_leaf.target_not_mapped_after tier=thorough bounded="pool of 7 tables (4 path + 3 allocatable); tree-shaped sparse pre-state (target path, one neighbour word per path table, garbage in allocatable frames); page-table indices (256,0,510,511)"
    //@ obligation C11 C11.unmap_4kib.shape_p1_leaf.target_not_mapped_after tier=thorough bounded="pool of 7 tables (4 path + 3 allocatable); tree-shaped sparse pre-state (target path, one neighbour word per path table, garbage in allocatable frames); page-table indices (256,0,510,511)"
    //@ obligation C01 C01.unmap_4kib.shape_p1_leaf.other_addresses_unchanged tier=thorough bounded="pool of 7 tables (4 path + 3 allocatable); tree-shaped sparse pre-state (target path, one neighbour word per path table, garbage in allocatable frames); page-table indices (256,0,510,511)"
    //@ obligation C11 C11.unmap_4kib.shape_p1_leaf.other_addresses_unchanged tier=thorough bounded="pool of 7 tables (4 path + 3 allocatable); tree-shaped sparse pre-state (target path, one neighbour word per path table, garbage in allocatable frames); page-table indices (256,0,510,511)"
    //@ obligation C01 C01.unmap_4kib.shape_p1_leaf.result_reports_page tier=thorough bounded="pool of 7 tables (4 path + 3 allocatable); tree-shaped sparse pre-state (target path, one neighbour word per path table, garbage in allocatable frames); page-table indices (256,0,510,511)"
    //@ obligation C11 C11.unmap_4kib.shape_p1_leaf.token_names_page tier=thorough bounded="pool of 7 tables (4 path + 3 allocatable); tree-shaped sparse pre-state (target path, one neighbour word per path table, garbage in allocatable frames); page-table indices (256,0,510,511)"
    //@ obligation C02 C02.unmap_4kib.shape_p1_leaf.documented_outcome tier=thorough bounded="pool of 7 tables (4 path + 3 allocatable); tree-shaped sparse pre-state (target path, one neighbour word per path table, garbage in allocatable frames); page-table indices (256,0,510,511)"
    //@ obligation C01 C01.unmap_4kib.shape_p1_leaf.translate_agrees_after tier=thorough bounded="pool of 7 tables (4 path + 3 allocatable); tree-shaped sparse pre-state (target path, one neighbour word per path table, garbage in allocatable frames); page-table indices (256,0,510,511)"
    //@ obligation C09 C09.unmap_4kib.shape_p1_leaf.only_dictated_slots_change tier=thorough bounded="pool of 7 tables (4 path + 3 allocatable); tree-shaped sparse pre-state (target path, one neighbour word per path table, garbage in allocatable frames); page-table indices (256,0,510,511)"
    //@ obligation C09 C09.unmap_4kib.shape_p1_leaf.no_frames_requested_or_zeroed tier=thorough bounded="pool of 7 tables (4 path + 3 allocatable); tree-shaped sparse pre-state (target path, one neighbour word per path table, garbage in allocatable frames); page-table indices (256,0,510,511)"
    //@ obligation C09 C09.unmap_4kib.shape_p1_leaf.no_dangling_table_pointer tier=thorough bounded="pool of 7 tables (4 path + 3 allocatable); tree-shaped sparse pre-state (target path, one neighbour word per path table, garbage in allocatable frames); page-table indices (256,0,510,511)"
    //@ obligation C09 C09.unmap_4kib.shape_p1_leaf.no_access_outside_page_tables tier=thorough bounded="pool of 7 tables (4 path + 3 allocatable); tree-shaped sparse pre-state (target path, one neighbour word per path table, garbage in allocatable frames); page-table indices (256,0,510,511)"
    #[kani::proof]
    #[kani::stub(PageTable::zero, zero_stub)]
    fn c01_unmap_4kib_p1_leaf_up() {
        unmap_step!(Size4KiB, "4kib", "p1_leaf", P1_LEAF, IDX_UP);
        kani::cover!(true, "c01_unmap_4kib_p1_leaf_up: reachable");
    }

    //@ obligation C01 C01.unmap_4kib.shape_sym.returns_mapped_frame tier=thorough bounded="pool of 7 tables (4 path + 3 allocatable); tree-shaped sparse pre-state (target path, one neighbour word per path table, garbage in allocatable frames); page-table indices (0,1,511,2)"
    //@ obligation C01 C01.unmap_4kib.shape_sym.target_not_mapped_after tier=thorough bounded="pool of 7 tables (4 path + 3 allocatable); tree-shaped sparse pre-state (target path, one neighbour word per path table, garbage in allocatable frames); page-table indices (0,1,511,2)"
    //@ obligation C11 C11.unmap_4kib.shape_sym.target_not_mapped_after tier=thorough bounded="pool of 7 tables (4 path + 3 allocatable); tree-shaped sparse pre-state (target path, one neighbour word per path table, garbage in allocatable frames); page-table indices (0,1,511,2)"
    //@ obligation C01 C01.unmap_4kib.shape_sym.other_addresses_unchanged tier=thorough bounded="pool of 7 tables (4 path + 3 allocatable); tree-shaped sparse pre-state (target path, one neighbour word per path table, garbage in allocatable frames); page-table indices (0,1,511,2)"
    //@ obligation C11 C11.unmap_4kib.shape_sym.other_addresses_unchanged tier=thorough bounded="pool of 7 tables (4 path + 3 allocatable); tree-shaped sparse pre-state (target path, one neighbour word per path table, garbage in allocatable frames); page-table indices (0,1,511,2)"
    //@ obligation C01 C01.unmap_4kib.shape_sym.result_reports_page tier=thorough bounded="pool of 7 tables (4 path + 3 allocatable); tree-shaped sparse pre-state (target path, one neighbour word per path table, garbage in allocatable frames); page-table indices (0,1,511,2)"
    //@ obligation C11 C11.unmap_4kib.shape_sym.token_names_page tier=thorough bounded="pool of 7 tables (4 path + 3 allocatable); tree-shaped sparse pre-state (target path, one neighbour word per path table, garbage in allocatable frames); page-table indices (0,1,511,2)"
    //@ obligation C02 C02.unmap_4kib.shape_sym.documented_outcome tier=thorough bounded="pool of 7 tables (4 path + 3 allocatable); tree-shaped sparse pre-state (target path, one neighbour word per path table, garbage in allocatable frames); page-table indices (0,1,511,2)"
    //@ obligation C01 C01.unmap_4kib.shape_sym.translate_agrees_after tier=thorough bounded="pool of 7 tables (4 path + 3 allocatable); tree-shaped sparse pre-state (target path, one neighbour word per path table, garbage in allocatable frames); page-table indices (0,1,511,2)"
    //@ obligation C09 C09.unmap_4kib.shape_sym.only_dictated_slots_change tier=thorough bounded="pool of 7 tables (4 path + 3 allocatable); tree-shaped sparse pre-state (target path, one neighbour word per path table, garbage in allocatable frames); page-table indices (0,1,511,2)"
    //@ obligation C09 C09.unmap_4kib.shape_sym.no_frames_requested_or_zeroed tier=thorough bounded="pool of 7 tables (4 path + 3 allocatable); tree-shaped sparse pre-state (target path, one neighbour word per path table, garbage in allocatable frames); page-table indices (0,1,511,2)"
    //@ obligation C09 C09.unmap_4kib.shape_sym.no_dangling_table_pointer tier=thorough bounded="pool of 7 tables (4 path + 3 allocatable); tree-shaped sparse pre-state (target path, one neighbour word per path table, garbage in allocatable frames); page-table indices (0,1,511,2)"
    //@ obligation C09 C09.unmap_4kib.shape_sym.no_access_outside_page_tables tier=thorough bounded="pool of 7 tables (4 path + 3 allocatable); tree-shaped sparse pre-state (target path, one neighbour word per path table, garbage in allocatable frames); page-table indices (0,1,511,2)"
    //@ obligation C02 C02.unmap_4kib.shape_sym.error_leaves_every_mapping tier=thorough bounded="pool of 7 tables (4 path + 3 allocatable); tree-shaped sparse pre-state (target path, one neighbour word per path table, garbage in allocatable frames); page-table indices (0,1,511,2)"
    #[kani::proof]
    #[kani::stub(PageTable::zero, zero_stub)]
    fn c01_unmap_4kib_sym_lo() {
        unmap_step!(Size4KiB, "4kib", "sym", P1_SYM, IDX_LO);
        kani::cover!(true, "c01_unmap_4kib_sym_lo: reachable");
    }

    //@ obligation C01 C01.unmap_4kib.shape_sym.returns_mapped_frame tier=thorough bounded="pool of 7 tables (4 path + 3 allocatable); tree-shaped sparse pre-state (target path, one neighbour word per path table, garbage in allocatable frames); page-table indices (511,510,1,0)"
    //@ obligation C01 C01.unmap_4kib.shape_sym.target_not_mapped_after tier=thorough bounded="pool of 7 tables (4 path + 3 allocatable); tree-shaped sparse pre-state (target path, one neighbour word per path table, garbage in allocatable frames); page-table indices (511,510,1,0)"
    //@ obligation C11 C11.unmap_4kib.shape_sym.target_not_mapped_after tier=thorough bounded="pool of 7 tables (4 path + 3 allocatable); tree-shaped sparse pre-state (target path, one neighbour word per path table, garbage in allocatable frames); page-table indices (511,510,1,0)"
    //@ obligation C01 C01.unmap_4kib.shape_sym.other_addresses_unchanged tier=thorough bounded="pool of 7 tables (4 path + 3 allocatable); tree-shaped sparse pre-state (target path, one neighbour word per path table, garbage in allocatable frames); page-table indices (511,510,1,0)"
    //@ obligation C11 C11.unmap_4kib.shape_sym.other_addresses_unchanged tier=thorough bounded="pool of 7 tables (4 path + 3 allocatable); tree-shaped sparse pre-state (target path, one neighbour word per path table, garbage in allocatable frames); page-table indices (511,510,1,0)"
    //@ obligation C01 C01.unmap_4kib.shape_sym.result_reports_page tier=thorough bounded="pool of 7 tables (4 path + 3 allocatable); tree-shaped sparse pre-state (target path, one neighbour word per path table, garbage in allocatable frames); page-table indices (511,510,1,0)"
    //@ obligation C11 C11.unmap_4kib.shape_sym.token_names_page tier=thorough bounded="pool of 7 tables (4 path + 3 allocatable); tree-shaped sparse pre-state (target path, one neighbour word per path table, garbage in allocatable frames); page-table indices (511,510,1,0)"
    //@ obligation C02 C02.unmap_4kib.shape_sym.documented_outcome tier=thorough bounded="pool of 7 tables (4 path + 3 allocatable); tree-shaped sparse pre-state (target path, one neighbour word per path table, garbage in allocatable frames); page-table indices (511,510,1,0)"
    //@ obligation C01 C01.unmap_4kib.shape_sym.translate_agrees_after tier=thorough bounded="pool of 7 tables (4 path + 3 allocatable); tree-shaped sparse pre-state (target path, one neighbour word per path table, garbage in allocatable frames); page-table indices (511,510,1,0)"
    //@ obligation C09 C09.unmap_4kib.shape_sym.only_dictated_slots_change tier=thorough bounded="pool of 7 tables (4 path + 3 allocatable); tree-shaped sparse pre-state (target path, one neighbour word per path table, garbage in allocatable frames); page-table indices (511,510,1,0)"
    //@ obligation C09 C09.unmap_4kib.shape_sym.no_frames_requested_or_zeroed tier=thorough bounded="pool of 7 tables (4 path + 3 allocatable); tree-shaped sparse pre-state (target path, one neighbour word per path table, garbage in allocatable frames); page-table indices (511,510,1,0)"
    //@ obligation C09 C09.unmap_4kib.shape_sym.no_dangling_table_pointer tier=thorough bounded="pool of 7 tables (4 path + 3 allocatable); tree-shaped sparse pre-state (target path, one neighbour word per path table, garbage in allocatable frames); page-table indices (511,510,1,0)"
    //@ obligation C09 C09.unmap_4kib.shape_sym.no_access_outside_page_tables tier=thorough bounded="pool of 7 tables (4 path + 3 allocatable); tree-shaped sparse pre-state (target path, one neighbour word per path table, garbage in allocatable frames); page-table indices (511,510,1,0)"
    //@ obligation C02 C02.unmap_4kib.shape_sym.error_leaves_every_mapping tier=thorough bounded="pool of 7 tables (4 path + 3 allocatable); tree-shaped sparse pre-state (target path, one neighbour word per path table, garbage in allocatable frames); page-table indices (511,510,1,0)"
    #[kani::proof]
    #[kani::stub(PageTable::zero, zero_stub)]
    fn c01_unmap_4kib_sym_hi() {
        unmap_step!(Size4KiB, "4kib", "sym", P1_SYM, IDX_HI);
        kani::cover!(true, "c01_unmap_4kib_sym_hi: reachable");
    }

    //@ obligation C01 C01.unmap_4kib.shape_sym.returns_mapped_frame tier=thorough bounded="pool of 7 tables (4 path + 3 allocatable); tree-shaped sparse pre-state (target path, one neighbour word per path table, garbage in allocatable frames); page-table indices (255,511,0,256)"
    //@ obligation C01 C01.unmap_4kib.shape_sym.target_not_mapped_after tier=thorough bounded="pool of 7 tables (4 path + 3 allocatable); tree-shaped sparse pre-state (target path, one neighbour word per path table, garbage in allocatable frames); page-table indices (255,511,0,256)"
    //@ obligation C11 C11.unmap_4kib.shape_sym.target_not_mapped_after tier=thorough bounded="pool of 7 tables (4 path + 3 allocatable); tree-shaped sparse pre-state (target path, one neighbour word per path table, garbage in allocatable frames); page-table indices (255,511,0,256)"
    //@ obligation C01 C01.unmap_4kib.shape_sym.other_addresses_unchanged tier=thorough bounded="pool of 7 tables (4 path + 3 allocatable); tree-shaped sparse pre-state (target path, one neighbour word per path table, garbage in allocatable frames); page-table indices (255,511,0,256)"
    //@ obligation C11 C11.unmap_4kib.shape_sym.other_addresses_unchanged tier=thorough bounded="pool of 7 tables (4 path + 3 allocatable); tree-shaped sparse pre-state (target path, one neighbour word per path table, garbage in allocatable frames); page-table indices (255,511,0,256)"
    //@ obligation C01 C01.unmap_4kib.shape_sym.result_reports_page tier=thorough bounded="pool of 7 tables (4 path + 3 allocatable); tree-shaped sparse pre-state (target path, one neighbour word per path table, garbage in allocatable frames); page-table indices (255,511,0,256)"
    //@ obligation C11 C11.unmap_4kib.shape_sym.token_names_page tier=thorough bounded="pool of 7 tables (4 path + 3 allocatable); tree-shaped sparse pre-state (target path, one neighbour word per path table, garbage in allocatable frames); page-table indices (255,511,0,256)"
    //@ obligation C02 C02.unmap_4kib.shape_sym.documented_outcome tier=thorough bounded="pool of 7 tables (4 path + 3 allocatable); tree-shaped sparse pre-state (target path, one neighbour word per path table, garbage in allocatable frames); page-table indices (255,511,0,256)"
    //@ obligation C01 C01.unmap_4kib.shape_sym.translate_agrees_after tier=thorough bounded="pool of 7 tables (4 path + 3 allocatable); tree-shaped sparse pre-state (target path, one neighbour word per path table, garbage in allocatable frames); page-table indices (255,511,0,256)"
    //@ obligation C09 C09.unmap_4kib.shape_sym.only_dictated_slots_change tier=thorough bounded="pool of 7 tables (4 path + 3 allocatable); tree-shaped sparse pre-state (target path, one neighbour word per path table, garbage in allocatable frames); page-table indices (255,511,0,256)"
    //@ obligation C09 C09.unmap_4kib.shape_sym.no_frames_requested_or_zeroed tier=thorough bounded="pool of 7 tables (4 path + 3 allocatable); tree-shaped sparse pre-state (target path, one neighbour word per path table, garbage in allocatable frames); page-table indices (255,511,0,256)"
    //@ obligation C09 C09.unmap_4kib.shape_sym.no_dangling_table_pointer tier=thorough bounded="pool of 7 tables (4 path + 3 allocatable); tree-shaped sparse pre-state (target path, one neighbour word per path table, garbage in allocatable frames); page-table indices (255,511,0,256)"
    //@ obligation C09 C09.unmap_4kib.shape_sym.no_access_outside_page_tables tier=thorough bounded="pool of 7 tables (4 path + 3 allocatable); tree-shaped sparse pre-state (target path, one neighbour word per path table, garbage in allocatable frames); page-table indices (255,511,0,256)"
    //@ obligation C02 C02.unmap_4kib.shape_sym.error_leaves_every_mapping tier=thorough bounded="pool of 7 tables (4 path + 3 allocatable); tree-shaped sparse pre-state (target path, one neighbour word per path table, garbage in allocatable frames); page-table indices (255,511,0,256)"
    #[kani::proof]
    #[kani::stub(PageTable::zero, zero_stub)]
    fn c01_unmap_4kib_sym_mid() {
        unmap_step!(Size4KiB, "4kib", "sym", P1_SYM, IDX_MID);
        kani::cover!(true, "c01_unmap_4kib_sym_mid: reachable");
    }

    //@ obligation C01 C01.unmap_4kib.shape_sym.returns_mapped_frame bounded="pool of 7 tables (4 path + 3 allocatable); tree-shaped sparse pre-state (target path, one neighbour word per path table, garbage in allocatable frames); page-table indices (256,0,510,511)"
    //@ obligation C01 C01.unmap_4kib.shape_sym.target_not_mapped_after bounded="pool of 7 tables (4 path + 3 allocatable); tree-shaped sparse pre-state (target path, one neighbour word per path table, garbage in allocatable frames); page-table indices (256,0,510,511)"
    //@ obligation C11 C11.unmap_4kib.shape_sym.target_not_mapped_after bounded="pool of 7 tables (4 path + 3 allocatable); tree-shaped sparse pre-state (target path, one neighbour word per path table, garbage in allocatable frames); page-table indices (256,0,510,511)"
    //@ obligation C01 C01.unmap_4kib.shape_sym.other_addresses_unchanged bounded="pool of 7 tables (4 path + 3 allocatable); tree-shaped sparse pre-state (target path, one neighbour word per path table, garbage in allocatable frames); page-table indices (256,0,510,511)"
    //@ obligation C11 C11.unmap_4kib.shape_sym.other_addresses_unchanged bounded="pool of 7 tables (4 path + 3 allocatable); tree-shaped sparse pre-state (target path, one neighbour word per path table, garbage in allocatable frames); page-table indices (256,0,510,511)"
    //@ obligation C01 C01.unmap_4kib.shape_sym.result_reports_page bounded="pool of 7 tables (4 path + 3 allocatable); tree-shaped sparse pre-state (target path, one neighbour word per path table, garbage in allocatable frames); page-table indices (256,0,510,511)"
    //@ obligation C11 C11.unmap_4kib.shape_sym.token_names_page bounded="pool of 7 tables (4 path + 3 allocatable); tree-shaped sparse pre-state (target path, one neighbour word per path table, garbage in allocatable frames); page-table indices (256,0,510,511)"
    //@ obligation C02 C02.unmap_4kib.shape_sym.documented_outcome bounded="pool of 7 tables (4 path + 3 allocatable); tree-shaped sparse pre-state (target path, one neighbour word per path table, garbage in allocatable frames); page-table indices (256,0,510,511)"
    //@ obligation C01 C01.unmap_4kib.shape_sym.translate_agrees_after bounded="pool of 7 tables (4 path + 3 allocatable); tree-shaped sparse pre-state (target path, one neighbour word per path table, garbage in allocatable frames); page-table indices (256,0,510,511)"
    //@ obligation C09 C09.unmap_4kib.shape_sym.only_dictated_slots_change bounded="pool of 7 tables (4 path + 3 allocatable); tree-shaped sparse pre-state (target path, one neighbour word per path table, garbage in allocatable frames); page-table indices (256,0,510,511)"
    //@ obligation C09 C09.unmap_4kib.shape_sym.no_frames_requested_or_zeroed bounded="pool of 7 tables (4 path + 3 allocatable); tree-shaped sparse pre-state (target path, one neighbour word per path table, garbage in allocatable frames); page-table indices (256,0,510,511)"
    //@ obligation C09 C09.unmap_4kib.shape_sym.no_dangling_table_pointer bounded="pool of 7 tables (4 path + 3 allocatable); tree-shaped sparse pre-state (target path, one neighbour word per path table, garbage in allocatable frames); page-table indices (256,0,510,511)"
    //@ obligation C09 C09.unmap_4kib.shape_sym.no_access_outside_page_tables bounded="pool of 7 tables (4 path + 3 allocatable); tree-shaped sparse pre-state (target path, one neighbour word per path table, garbage in allocatable frames); page-table indices (256,0,510,511)"
    //@ obligation C02 C02.unmap_4kib.shape_sym.error_leaves_every_mapping bounded="pool of 7 tables (4 path + 3 allocatable); tree-shaped sparse pre-state (target path, one neighbour word per path table, garbage in allocatable frames); page-table indices (256,0,510,511)"
    #[kani::proof]
    #[kani::stub(PageTable::zero, zero_stub)]
    fn c01_unmap_4kib_sym_up() {
        unmap_step!(Size4KiB, "4kib", "sym", P1_SYM, IDX_UP);
        kani::cover!(true, "c01_unmap_4kib_sym_up: reachable");
    }

    //@ obligation C02 C02.unmap_2mib.shape_p4_absent.error_leaves_every_mapping tier=thorough bounded="pool of 7 tables (4 path + 3 allocatable); tree-shaped sparse pre-state (target path, one neighbour word per path table, garbage in allocatable frames); page-table indices (0,1,511,2)"
    //@ obligation C02 C02.unmap_2mib.shape_p4_absent.documented_outcome tier=thorough bounded="pool of 7 tables (4 path + 3 allocatable); tree-shaped sparse pre-state (target path, one neighbour word per path table, garbage in allocatable frames); page-table indices (0,1,511,2)"
    //@ obligation C01 C01.unmap_2mib.shape_p4_absent.translate_agrees_after tier=thorough bounded="pool of 7 tables (4 path + 3 allocatable); tree-shaped sparse pre-state (target path, one neighbour word per path table, garbage in allocatable frames); page-table indices (0,1,511,2)"
    //@ obligation C09 C09.unmap_2mib.shape_p4_absent.only_dictated_slots_change tier=thorough bounded="pool of 7 tables (4 path + 3 allocatable); tree-shaped sparse pre-state (target path, one neighbour word per path table, garbage in allocatable frames); page-table indices (0,1,511,2)"
    //@ obligation C09 C09.unmap_2mib.shape_p4_absent.no_frames_requested_or_zeroed tier=thorough bounded="pool of 7 tables (4 path + 3 allocatable); tree-shaped sparse pre-state (target path, one neighbour word per path table, garbage in allocatable frames); page-table indices (0,1,511,2)"
    //@ obligation C09 C09.unmap_2mib.shape_p4_absent.no_dangling_table_pointer tier=thorough bounded="pool of 7 tables (4 path + 3 allocatable); tree-shaped sparse pre-state (target path, one neighbour word per path table, garbage in allocatable frames); page-table indices (0,1,511,2)"
    //@ obligation C09 C09.unmap_2mib.shape_p4_absent.no_access_outside_page_tables tier=thorough bounded="pool of 7 tables (4 path + 3 allocatable); tree-shaped sparse pre-state (target path, one neighbour word per path table, garbage in allocatable frames); page-table indices (0,1,511,2)"
    #[kani::proof]
    #[kani::stub(PageTable::zero, zero_stub)]
    fn c01_unmap_2mib_p4_absent_lo() {
        unmap_step!(Size2MiB, "2mib", "p4_absent", P4_ABSENT, IDX_LO);
        kani::cover!(true, "c01_unmap_2mib_p4_absent_lo: reachable");
    }

    //@ obligation C02 C02.unmap_2mib.shape_p4_absent.error_leaves_every_mapping tier=thorough bounded="pool of 7 tables (4 path + 3 allocatable); tree-shaped sparse pre-state (target path, one neighbour word per path table, garbage in allocatable frames); page-table indices (511,510,1,0)"
    //@ obligation C02 C02.unmap_2mib.shape_p4_absent.documented_outcome tier=thorough bounded="pool of 7 tables (4 path + 3 allocatable); tree-shaped sparse pre-state (target path, one neighbour word per path table, garbage in allocatable frames); page-table indices (511,510,1,0)"
    //@ obligation C01 C01.unmap_2mib.shape_p4_absent.translate_agrees_after tier=thorough bounded="pool of 7 tables (4 path + 3 allocatable); tree-shaped sparse pre-state (target path, one neighbour word per path table, garbage in allocatable frames); page-table indices (511,510,1,0)"
    //@ obligation C09 C09.unmap_2mib.shape_p4_absent.only_dictated_slots_change tier=thorough bounded="pool of 7 tables (4 path + 3 allocatable); tree-shaped sparse pre-state (target path, one neighbour word per path table, garbage in allocatable frames); page-table indices (511,510,1,0)"
    //@ obligation C09 C09.unmap_2mib.shape_p4_absent.no_frames_requested_or_zeroed tier=thorough bounded="pool of 7 tables (4 path + 3 allocatable); tree-shaped sparse pre-state (target path, one neighbour word per path table, garbage in allocatable frames); page-table indices (511,510,1,0)"
    //@ obligation C09 C09.unmap_2mib.shape_p4_absent.no_dangling_table_pointer tier=thorough bounded="pool of 7 tables (4 path + 3 allocatable); tree-shaped sparse pre-state (target path, one neighbour word per path table, garbage in allocatable frames); page-table indices (511,510,1,0)"
    //@ obligation C09 C09.unmap_2mib.shape_p4_absent.no_access_outside_page_tables tier=thorough bounded="pool of 7 tables (4 path + 3 allocatable); tree-shaped sparse pre-state (target path, one neighbour word per path table, garbage in allocatable frames); page-table indices (511,510,1,0)"
    #[kani::proof]
    #[kani::stub(PageTable::zero, zero_stub)]
    fn c01_unmap_2mib_p4_absent_hi() {
        unmap_step!(Size2MiB, "2mib", "p4_absent", P4_ABSENT, IDX_HI);
        kani::cover!(true, "c01_unmap_2mib_p4_absent_hi: reachable");
    }

    //@ obligation C02 C02.unmap_2mib.shape_p4_absent.error_leaves_every_mapping tier=thorough bounded="pool of 7 tables (4 path + 3 allocatable); tree-shaped sparse pre-state (target path, one neighbour word per path table, garbage in allocatable frames); page-table indices (255,511,0,256)"
    //@ obligation C02 C02.unmap_2mib.shape_p4_absent.documented_outcome tier=thorough bounded="pool of 7 tables (4 path + 3 allocatable); tree-shaped sparse pre-state (target path, one neighbour word per path table, garbage in allocatable frames); page-table indices (255,511,0,256)"
    //@ obligation C01 C01.unmap_2mib.shape_p4_absent.translate_agrees_after tier=thorough bounded="pool of 7 tables (4 path + 3 allocatable); tree-shaped sparse pre-state (target path, one neighbour word per path table, garbage in allocatable frames); page-table indices (255,511,0,256)"
    //@ obligation C09 C09.unmap_2mib.shape_p4_absent.only_dictated_slots_change tier=thorough bounded="pool of 7 tables (4 path + 3 allocatable); tree-shaped sparse pre-state (target path, one neighbour word per path table, garbage in allocatable frames); page-table indices (255,511,0,256)"
    //@ obligation C09 C09.unmap_2mib.shape_p4_absent.no_frames_requested_or_zeroed tier=thorough bounded="pool of 7 tables (4 path + 3 allocatable); tree-shaped sparse pre-state (target path, one neighbour word per path table, garbage in allocatable frames); page-table indices (255,511,0,256)"
    //@ obligation C09 C09.unmap_2mib.shape_p4_absent.no_dangling_table_pointer tier=thorough bounded="pool of 7 tables (4 path + 3 allocatable); tree-shaped sparse pre-state (target path, one neighbour word per path table, garbage in allocatable frames); page-table indices (255,511,0,256)"
    //@ obligation C09 C09.unmap_2mib.shape_p4_absent.no_access_outside_page_tables tier=thorough bounded="pool of 7 tables (4 path + 3 allocatable); tree-shaped sparse pre-state (target path, one neighbour word per path table, garbage in allocatable frames); page-table indices (255,511,0,256)"
    #[kani::proof]
    #[kani::stub(PageTable::zero, zero_stub)]
    fn c01_unmap_2mib_p4_absent_mid() {
        unmap_step!(Size2MiB, "2mib", "p4_absent", P4_ABSENT, IDX_MID);
        kani::cover!(true, "c01_unmap_2mib_p4_absent_mid: reachable");
    }

    //@ obligation C02 C02.unmap_2mib.shape_p4_absent.error_leaves_every_mapping bounded="pool of 7 tables (4 path + 3 allocatable); tree-shaped sparse pre-state (target path, one neighbour word per path table, garbage in allocatable frames); page-table indices (256,0,510,511)"
    //@ obligation C02 C02.unmap_2mib.shape_p4_absent.documented_outcome bounded="pool of 7 tables (4 path + 3 allocatable); tree-shaped sparse pre-state (target path, one neighbour word per path table, garbage in allocatable frames); page-table indices (256,0,510,511)"
    //@ obligation C01 C01.unmap_2mib.shape_p4_absent.translate_agrees_after bounded="pool of 7 tables (4 path + 3 allocatable); tree-shaped sparse pre-state (target path, one neighbour word per path table, garbage in allocatable frames); page-table indices (256,0,510,511)"
    //@ obligation C09 C09.unmap_2mib.shape_p4_absent.only_dictated_slots_change bounded="pool of 7 tables (4 path + 3 allocatable); tree-shaped sparse pre-state (target path, one neighbour word per path table, garbage in allocatable frames); page-table indices (256,0,510,511)"
    //@ obligation C09 C09.unmap_2mib.shape_p4_absent.no_frames_requested_or_zeroed bounded="pool of 7 tables (4 path + 3 allocatable); tree-shaped sparse pre-state (target path, one neighbour word per path table, garbage in allocatable frames); page-table indices (256,0,510,511)"
    //@ obligation C09 C09.unmap_2mib.shape_p4_absent.no_dangling_table_pointer bounded="pool of 7 tables (4 path + 3 allocatable); tree-shaped sparse pre-state (target path, one neighbour word per path table, garbage in allocatable frames); page-table indices (256,0,510,511)"
    //@ obligation C09 C09.unmap_2mib.shape_p4_absent.no_access_outside_page_tables bounded="pool of 7 tables (4 path + 3 allocatable); tree-shaped sparse pre-state (target path, one neighbour word per path table, garbage in allocatable frames); page-table indices (256,0,510,511)"
    #[kani::proof]
    #[kani::stub(PageTable::zero, zero_stub)]
    fn c01_unmap_2mib_p4_absent_up() {
        unmap_step!(Size2MiB, "2mib", "p4_absent", P4_ABSENT, IDX_UP);
        kani::cover!(true, "c01_unmap_2mib_p4_absent_up: reachable");
    }

    //@ obligation C02 C02.unmap_2mib.shape_p3_absent.error_leaves_every_mapping tier=thorough bounded="pool of 7 tables (4 path + 3 allocatable); tree-shaped sparse pre-state (target path, one neighbour word per path table, garbage in allocatable frames); page-table indices (0,1,511,2)"
    //@ obligation C02 C02.unmap_2mib.shape_p3_absent.documented_outcome tier=thorough bounded="pool of 7 tables (4 path + 3 allocatable); tree-shaped sparse pre-state (target path, one neighbour word per path table, garbage in allocatable frames); page-table indices (0,1,511,2)"
    //@ obligation C01 C01.unmap_2mib.shape_p3_absent.translate_agrees_after tier=thorough bounded="pool of 7 tables (4 path + 3 allocatable); tree-shaped sparse pre-state (target path, one neighbour word per path table, garbage in allocatable frames); page-table indices (0,1,511,2)"
    //@ obligation C09 C09.unmap_2mib.shape_p3_absent.only_dictated_slots_change tier=thorough bounded="pool of 7 tables (4 path + 3 allocatable); tree-shaped sparse pre-state (target path, one neighbour word per path table, garbage in allocatable frames); page-table indices (0,1,511,2)"
    //@ obligation C09 C09.unmap_2mib.shape_p3_absent.no_frames_requested_or_zeroed tier=thorough bounded="pool of 7 tables (4 path + 3 allocatable); tree-shaped sparse pre-state (target path, one neighbour word per path table, garbage in allocatable frames); page-table indices (0,1,511,2)"
    //@ obligation C09 C09.unmap_2mib.shape_p3_absent.no_dangling_table_pointer tier=thorough bounded="pool of 7 tables (4 path + 3 allocatable); tree-shaped sparse pre-state (target path, one neighbour word per path table, garbage in allocatable frames); page-table indices (0,1,511,2)"
    //@ obligation C09 C09.unmap_2mib.shape_p3_absent.no_access_outside_page_tables tier=thorough bounded="pool of 7 tables (4 path + 3 allocatable); tree-shaped sparse pre-state (target path, one neighbour word per path table, garbage in allocatable frames); page-table indices (0,1,511,2)"
    #[kani::proof]
    #[kani::stub(PageTable::zero, zero_stub)]
    fn c01_unmap_2mib_p3_absent_lo() {
        unmap_step!(Size2MiB, "2mib", "p3_absent", P3_ABSENT, IDX_LO);
        kani::cover!(true, "c01_unmap_2mib_p3_absent_lo: reachable");
    }

    //@ obligation C02 C02.unmap_2mib.shape_p3_absent.error_leaves_every_mapping bounded="pool of 7 tables (4 path + 3 allocatable); tree-shaped sparse pre-state (target path, one neighbour word per path table, garbage in allocatable frames); page-table indices (511,510,1,0)"
    //@ obligation C02 C02.unmap_2mib.shape_p3_absent.documented_outcome bounded="pool of 7 tables (4 path + 3 allocatable); tree-shaped sparse pre-state (target path, one neighbour word per path table, garbage in allocatable frames); page-table indices (511,510,1,0)"
    //@ obligation C01 C01.unmap_2mib.shape_p3_absent.translate_agrees_after bounded="pool of 7 tables (4 path + 3 allocatable); tree-shaped sparse pre-state (target path, one neighbour word per path table, garbage in allocatable frames); page-table indices (511,510,1,0)"
    //@ obligation C09 C09.unmap_2mib.shape_p3_absent.only_dictated_slots_change bounded="pool of 7 tables (4 path + 3 allocatable); tree-shaped sparse pre-state (target path, one neighbour word per path table, garbage in allocatable frames); page-table indices (511,510,1,0)"
    //@ obligation C09 C09.unmap_2mib.shape_p3_absent.no_frames_requested_or_zeroed bounded="pool of 7 tables (4 path + 3 allocatable); tree-shaped sparse pre-state (target path, one neighbour word per path table, garbage in allocatable frames); page-table indices (511,510,1,0)"
    //@ obligation C09 C09.unmap_2mib.shape_p3_absent.no_dangling_table_pointer bounded="pool of 7 tables (4 path + 3 allocatable); tree-shaped sparse pre-state (target path, one neighbour word per path table, garbage in allocatable frames); page-table indices (511,510,1,0)"
    //@ obligation C09 C09.unmap_2mib.shape_p3_absent.no_access_outside_page_tables bounded="pool of 7 tables (4 path + 3 allocatable); tree-shaped sparse pre-state (target path, one neighbour word per path table, garbage in allocatable frames); page-table indices (511,510,1,0)"
    #[kani::proof]
    #[kani::stub(PageTable::zero, zero_stub)]
    fn c01_unmap_2mib_p3_absent_hi() {
        unmap_step!(Size2MiB, "2mib", "p3_absent", P3_ABSENT, IDX_HI);
        kani::cover!(true, "c01_unmap_2mib_p3_absent_hi: reachable");
    }

    //@ obligation C02 C02.unmap_2mib.shape_p3_absent.error_leaves_every_mapping tier=thorough bounded="pool of 7 tables (4 path + 3 allocatable); tree-shaped sparse pre-state (target path, one neighbour word per path table, garbage in allocatable frames); page-table indices (255,511,0,256)"
    //@ obligation C02 C02.unmap_2mib.shape_p3_absent.documented_outcome tier=thorough bounded="pool of 7 tables (4 path + 3 allocatable); tree-shaped sparse pre-state (target path, one neighbour word per path table, garbage in allocatable frames); page-table indices (255,511,0,256)"
    //@ obligation C01 C01.unmap_2mib.shape_p3_absent.translate_agrees_after tier=thorough bounded="pool of 7 tables (4 path + 3 allocatable); tree-shaped sparse pre-state (target path, one neighbour word per path table, garbage in allocatable frames); page-table indices (255,511,0,256)"
    //@ obligation C09 C09.unmap_2mib.shape_p3_absent.only_dictated_slots_change tier=thorough bounded="pool of 7 tables (4 path + 3 allocatable); tree-shaped sparse pre-state (target path, one neighbour word per path table, garbage in allocatable frames); page-table indices (255,511,0,256)"
    //@ obligation C09 C09.unmap_2mib.shape_p3_absent.no_frames_requested_or_zeroed tier=thorough bounded="pool of 7 tables (4 path + 3 allocatable); tree-shaped sparse pre-state (target path, one neighbour word per path table, garbage in allocatable frames); page-table indices (255,511,0,256)"
    //@ obligation C09 C09.unmap_2mib.shape_p3_absent.no_dangling_table_pointer tier=thorough bounded="pool of 7 tables (4 path + 3 allocatable); tree-shaped sparse pre-state (target path, one neighbour word per path table, garbage in allocatable frames); page-table indices (255,511,0,256)"
    //@ obligation C09 C09.unmap_2mib.shape_p3_absent.no_access_outside_page_tables tier=thorough bounded="pool of 7 tables (4 path + 3 allocatable); tree-shaped sparse pre-state (target path, one neighbour word per path table, garbage in allocatable frames); page-table indices (255,511,0,256)"
    #[kani::proof]
    #[kani::stub(PageTable::zero, zero_stub)]
    fn c01_unmap_2mib_p3_absent_mid() {
        unmap_step!(Size2MiB, "2mib", "p3_absent", P3_ABSENT, IDX_MID);
        kani::cover!(true, "c01_unmap_2mib_p3_absent_mid: reachable");
    }

    //@ obligation C02 C02.unmap_2mib.shape_p3_absent.error_leaves_every_mapping tier=thorough bounded="pool of 7 tables (4 path + 3 allocatable); tree-shaped sparse pre-state (target path, one neighbour word per path table, garbage in allocatable frames); page-table indices (256,0,510,511)"
    //@ obligation C02 C02.unmap_2mib.shape_p3_absent.documented_outcome tier=thorough bounded="pool of 7 tables (4 path + 3 allocatable); tree-shaped sparse pre-state (target path, one neighbour word per path table, garbage in allocatable frames); page-table indices (256,0,510,511)"
    //@ obligation C01 C01.unmap_2mib.shape_p3_absent.translate_agrees_after tier=thorough bounded="pool of 7 tables (4 path + 3 allocatable); tree-shaped sparse pre-state (target path, one neighbour word per path table, garbage in allocatable frames); page-table indices (256,0,510,511)"
    //@ obligation C09 C09.unmap_2mib.shape_p3_absent.only_dictated_slots_change tier=thorough bounded="pool of 7 tables (4 path + 3 allocatable); tree-shaped sparse pre-state (target path, one neighbour word per path table, garbage in allocatable frames); page-table indices (256,0,510,511)"
    //@ obligation C09 C09.unmap_2mib.shape_p3_absent.no_frames_requested_or_zeroed tier=thorough bounded="pool of 7 tables (4 path + 3 allocatable); tree-shaped sparse pre-state (target path, one neighbour word per path table, garbage in allocatable frames); page-table indices (256,0,510,511)"
    //@ obligation C09 C09.unmap_2mib.shape_p3_absent.no_dangling_table_pointer tier=thorough bounded="pool of 7 tables (4 path + 3 allocatable); tree-shaped sparse pre-state (target path, one neighbour word per path table, garbage in allocatable frames); page-table indices (256,0,510,511)"
    //@ obligation C09 C09.unmap_2mib.shape_p3_absent.no_access_outside_page_tables tier=thorough bounded="pool of 7 tables (4 path + 3 allocatable); tree-shaped sparse pre-state (target path, one neighbour word per path table, garbage in allocatable frames); page-table indices (256,0,510,511)"
    #[kani::proof]
    #[kani::stub(PageTable::zero, zero_stub)]
    fn c01_unmap_2mib_p3_absent_up() {
        unmap_step!(Size2MiB, "2mib", "p3_absent", P3_ABSENT, IDX_UP);
        kani::cover!(true, "c01_unmap_2mib_p3_absent_up: reachable");
    }

    //@ obligation C02 C02.unmap_2mib.shape_p3_huge.error_leaves_every_mapping tier=thorough bounded="pool of 7 tables (4 path + 3 allocatable); tree-shaped sparse pre-state (target path, one neighbour word per path table, garbage in allocatable frames); page-table indices (0,1,511,2)"
    //@ obligation C02 C02.unmap_2mib.shape_p3_huge.documented_outcome tier=thorough bounded="pool of 7 tables (4 path + 3 allocatable); tree-shaped sparse pre-state (target path, one neighbour word per path table, garbage in allocatable frames); page-table indices (0,1,511,2)"
    //@ obligation C01 C01.unmap_2mib.shape_p3_huge.translate_agrees_after tier=thorough bounded="pool of 7 tables (4 path + 3 allocatable); tree-shaped sparse pre-state (target path, one neighbour word per path table, garbage in allocatable frames); page-table indices (0,1,511,2)"
    //@ obligation C09 C09.unmap_2mib.shape_p3_huge.only_dictated_slots_change tier=thorough bounded="pool of 7 tables (4 path + 3 allocatable); tree-shaped sparse pre-state (target path, one neighbour word per path table, garbage in allocatable frames); page-table indices (0,1,511,2)"
    //@ obligation C09 C09.unmap_2mib.shape_p3_huge.no_frames_requested_or_zeroed tier=thorough bounded="pool of 7 tables (4 path + 3 allocatable); tree-shaped sparse pre-state (target path, one neighbour word per path table, garbage in allocatable frames); page-table indices (0,1,511,2)"
    //@ obligation C09 C09.unmap_2mib.shape_p3_huge.no_dangling_table_pointer tier=thorough bounded="pool of 7 tables (4 path + 3 allocatable); tree-shaped sparse pre-state (target path, one neighbour word per path table, garbage in allocatable frames); page-table indices (0,1,511,2)"
    //@ obligation C09 C09.unmap_2mib.shape_p3_huge.no_access_outside_page_tables tier=thorough bounded="pool of 7 tables (4 path + 3 allocatable); tree-shaped sparse pre-state (target path, one neighbour word per path table, garbage in allocatable frames); page-table indices (0,1,511,2)"
    #[kani::proof]
    #[kani::stub(PageTable::zero, zero_stub)]
    fn c01_unmap_2mib_p3_huge_lo() {
        unmap_step!(Size2MiB, "2mib", "p3_huge", P3_HUGE, IDX_LO);
        kani::cover!(true, "c01_unmap_2mib_p3_huge_lo: reachable");
    }

    //@ obligation C02 C02.unmap_2mib.shape_p3_huge.error_leaves_every_mapping tier=thorough bounded="pool of 7 tables (4 path + 3 allocatable); tree-shaped sparse pre-state (target path, one neighbour word per path table, garbage in allocatable frames); page-table indices (511,510,1,0)"
    //@ obligation C02 C02.unmap_2mib.shape_p3_huge.documented_outcome tier=thorough bounded="pool of 7 tables (4 path + 3 allocatable); tree-shaped sparse pre-state (target path, one neighbour word per path table, garbage in allocatable frames); page-table indices (511,510,1,0)"
    //@ obligation C01 C01.unmap_2mib.shape_p3_huge.translate_agrees_after tier=thorough bounded="pool of 7 tables (4 path + 3 allocatable); tree-shaped sparse pre-state (target path, one neighbour word per path table, garbage in allocatable frames); page-table indices (511,510,1,0)"
    //@ obligation C09 C09.unmap_2mib.shape_p3_huge.only_dictated_slots_change tier=thorough bounded="pool of 7 tables (4 path + 3 allocatable); tree-shaped sparse pre-state (target path, one neighbour word per path table, garbage in allocatable frames); page-table indices (511,510,1,0)"
    //@ obligation C09 C09.unmap_2mib.shape_p3_huge.no_frames_requested_or_zeroed tier=thorough bounded="pool of 7 tables (4 path + 3 allocatable); tree-shaped sparse pre-state (target path, one neighbour word per path table, garbage in allocatable frames); page-table indices (511,510,1,0)"
    //@ obligation C09 C09.unmap_2mib.shape_p3_huge.no_dangling_table_pointer tier=thorough bounded="pool of 7 tables (4 path + 3 allocatable); tree-shaped sparse pre-state (target path, one neighbour word per path table, garbage in allocatable frames); page-table indices (511,510,1,0)"
    //@ obligation C09 C09.unmap_2mib.shape_p3_huge.no_access_outside_page_tables tier=thorough bounded="pool of 7 tables (4 path + 3 allocatable); tree-shaped sparse pre-state (target path, one neighbour word per path table, garbage in allocatable frames); page-table indices (511,510,1,0)"
    #[kani::proof]
    #[kani::stub(PageTable::zero, zero_stub)]
    fn c01_unmap_2mib_p3_huge_hi() {
        unmap_step!(Size2MiB, "2mib", "p3_huge", P3_HUGE, IDX_HI);
        kani::cover!(true, "c01_unmap_2mib_p3_huge_hi: reachable");
    }

    //@ obligation C02 C02.unmap_2mib.shape_p3_huge.error_leaves_every_mapping bounded="pool of 7 tables (4 path + 3 allocatable); tree-shaped sparse pre-state (target path, one neighbour word per path table, garbage in allocatable frames); page-table indices (255,511,0,256)"
    //@ obligation C02 C02.unmap_2mib.shape_p3_huge.documented_outcome bounded="pool of 7 tables (4 path + 3 allocatable); tree-shaped sparse pre-state (target path, one neighbour word per path table, garbage in allocatable frames); page-table indices (255,511,0,256)"
    //@ obligation C01 C01.unmap_2mib.shape_p3_huge.translate_agrees_after bounded="pool of 7 tables (4 path + 3 allocatable); tree-shaped sparse pre-state (target path, one neighbour word per path table, garbage in allocatable frames); page-table indices (255,511,0,256)"
    //@ obligation C09 C09.unmap_2mib.shape_p3_huge.only_dictated_slots_change bounded="pool of 7 tables (4 path + 3 allocatable); tree-shaped sparse pre-state (target path, one neighbour word per path table, garbage in allocatable frames); page-table indices (255,511,0,256)"
    //@ obligation C09 C09.unmap_2mib.shape_p3_huge.no_frames_requested_or_zeroed bounded="pool of 7 tables (4 path + 3 allocatable); tree-shaped sparse pre-state (target path, one neighbour word per path table, garbage in allocatable frames); page-table indices (255,511,0,256)"
    //@ obligation C09 C09.unmap_2mib.shape_p3_huge.no_dangling_table_pointer bounded="pool of 7 tables (4 path + 3 allocatable); tree-shaped sparse pre-state (target path, one neighbour word per path table, garbage in allocatable frames); page-table indices (255,511,0,256)"
    //@ obligation C09 C09.unmap_2mib.shape_p3_huge.no_access_outside_page_tables bounded="pool of 7 tables (4 path + 3 allocatable); tree-shaped sparse pre-state (target path, one neighbour word per path table, garbage in allocatable frames); page-table indices (255,511,0,256)"
    #[kani::proof]
    #[kani::stub(PageTable::zero, zero_stub)]
    fn c01_unmap_2mib_p3_huge_mid() {
        unmap_step!(Size2MiB, "2mib", "p3_huge", P3_HUGE, IDX_MID);
        kani::cover!(true, "c01_unmap_2mib_p3_huge_mid: reachable");
    }

    //@ obligation C02 C02.unmap_2mib.shape_p3_huge.error_leaves_every_mapping tier=thorough bounded="pool of 7 tables (4 path + 3 allocatable); tree-shaped sparse pre-state (target path, one neighbour word per path table, garbage in allocatable frames); page-table indices (256,0,510,511)"
    //@ obligation C02 C02.unmap_2mib.shape_p3_huge.documented_outcome tier=thorough bounded="pool of 7 tables (4 path + 3 allocatable); tree-shaped sparse pre-state (target path, one neighbour word per path table, garbage in allocatable frames); page-table indices (256,0,510,511)"
    //@ obligation C01 C01.unmap_2mib.shape_p3_huge.translate_agrees_after tier=thorough bounded="pool of 7 tables (4 path + 3 allocatable); tree-shaped sparse pre-state (target path, one neighbour word per path table, garbage in allocatable frames); page-table indices (256,0,510,511)"
    //@ obligation C09 C09.unmap_2mib.shape_p3_huge.only_dictated_slots_change tier=thorough bounded="pool of 7 tables (4 path + 3 allocatable); tree-shaped sparse pre-state (target path, one neighbour word per path table, garbage in allocatable frames); page-table indices (256,0,510,511)"
    //@ obligation C09 C09.unmap_2mib.shape_p3_huge.no_frames_requested_or_zeroed tier=thorough bounded="pool of 7 tables (4 path + 3 allocatable); tree-shaped sparse pre-state (target path, one neighbour word per path table, garbage in allocatable frames); page-table indices (256,0,510,511)"
    //@ obligation C09 C09.unmap_2mib.shape_p3_huge.no_dangling_table_pointer tier=thorough bounded="pool of 7 tables (4 path + 3 allocatable); tree-shaped sparse pre-state (target path, one neighbour word per path table, garbage in allocatable frames); page-table indices (256,0,510,511)"
    //@ obligation C09 C09.unmap_2mib.shape_p3_huge.no_access_outside_page_tables tier=thorough bounded="pool of 7 tables (4 path + 3 allocatable); tree-shaped sparse pre-state (target path, one neighbour word per path table, garbage in allocatable frames); page-table indices (256,0,510,511)"
    #[kani::proof]
    #[kani::stub(PageTable::zero, zero_stub)]
    fn c01_unmap_2mib_p3_huge_up() {
        unmap_step!(Size2MiB, "2mib", "p3_huge", P3_HUGE, IDX_UP);
        kani::cover!(true, "c01_unmap_2mib_p3_huge_up: reachable");
    }

    //@ obligation C02 C02.unmap_2mib.shape_p2_absent.error_leaves_every_mapping tier=thorough bounded="pool of 7 tables (4 path + 3 allocatable); tree-shaped sparse pre-state (target path, one neighbour word per path table, garbage in allocatable frames); page-table indices (0,1,511,2)"
    //@ obligation C02 C02.unmap_2mib.shape_p2_absent.documented_outcome tier=thorough bounded="pool of 7 tables (4 path + 3 allocatable); tree-shaped sparse pre-state (target path, one neighbour word per path table, garbage in allocatable frames); page-table indices (0,1,511,2)"
    //@ obligation C01 C01.unmap_2mib.shape_p2_absent.translate_agrees_after tier=thorough bounded="pool of 7 tables (4 path + 3 allocatable); tree-shaped sparse pre-state (target path, one neighbour word per path table, garbage in allocatable frames); page-table indices (0,1,511,2)"
    //@ obligation C09 C09.unmap_2mib.shape_p2_absent.only_dictated_slots_change tier=thorough bounded="pool of 7 tables (4 path + 3 allocatable); tree-shaped sparse pre-state (target path, one neighbour word per path table, garbage in allocatable frames); page-table indices (0,1,511,2)"
    //@ obligation C09 C09.unmap_2mib.shape_p2_absent.no_frames_requested_or_zeroed tier=thorough bounded="pool of 7 tables (4 path + 3 allocatable); tree-shaped sparse pre-state (target path, one neighbour word per path table, garbage in allocatable frames); page-table indices (0,1,511,2)"
    //@ obligation C09 C09.unmap_2mib.shape_p2_absent.no_dangling_table_pointer tier=thorough bounded="pool of 7 tables (4 path + 3 allocatable); tree-shaped sparse pre-state (target path, one neighbour word per path table, garbage in allocatable frames); page-table indices (0,1,511,2)"
    //@ obligation C09 C09.unmap_2mib.shape_p2_absent.no_access_outside_page_tables tier=thorough bounded="pool of 7 tables (4 path + 3 allocatable); tree-shaped sparse pre-state (target path, one neighbour word per path table, garbage in allocatable frames); page-table indices (0,1,511,2)"
    #[kani::proof]
    #[kani::stub(PageTable::zero, zero_stub)]
    fn c01_unmap_2mib_p2_absent_lo() {
        unmap_step!(Size2MiB, "2mib", "p2_absent", P2_ABSENT, IDX_LO);
        kani::cover!(true, "c01_unmap_2mib_p2_absent_lo: reachable");
    }

    //@ obligation C02 C02.unmap_2mib.shape_p2_absent.error_leaves_every_mapping bounded="pool of 7 tables (4 path + 3 allocatable); tree-shaped sparse pre-state (target path, one neighbour word per path table, garbage in allocatable frames); page-table indices (511,510,1,0)"
    //@ obligation C02 C02.unmap_2mib.shape_p2_absent.documented_outcome bounded="pool of 7 tables (4 path + 3 allocatable); tree-shaped sparse pre-state (target path, one neighbour word per path table, garbage in allocatable frames); page-table indices (511,510,1,0)"
    //@ obligation C01 C01.unmap_2mib.shape_p2_absent.translate_agrees_after bounded="pool of 7 tables (4 path + 3 allocatable); tree-shaped sparse pre-state (target path, one neighbour word per path table, garbage in allocatable frames); page-table indices (511,510,1,0)"
    //@ obligation C09 C09.unmap_2mib.shape_p2_absent.only_dictated_slots_change bounded="pool of 7 tables (4 path + 3 allocatable); tree-shaped sparse pre-state (target path, one neighbour word per path table, garbage in allocatable frames); page-table indices (511,510,1,0)"
    //@ obligation C09 C09.unmap_2mib.shape_p2_absent.no_frames_requested_or_zeroed bounded="pool of 7 tables (4 path + 3 allocatable); tree-shaped sparse pre-state (target path, one neighbour word per path table, garbage in allocatable frames); page-table indices (511,510,1,0)"
    //@ obligation C09 C09.unmap_2mib.shape_p2_absent.no_dangling_table_pointer bounded="pool of 7 tables (4 path + 3 allocatable); tree-shaped sparse pre-state (target path, one neighbour word per path table, garbage in allocatable frames); page-table indices (511,510,1,0)"
    //@ obligation C09 C09.unmap_2mib.shape_p2_absent.no_access_outside_page_tables bounded="pool of 7 tables (4 path + 3 allocatable); tree-shaped sparse pre-state (target path, one neighbour word per path table, garbage in allocatable frames); page-table indices (511,510,1,0)"
    #[kani::proof]
    #[kani::stub(PageTable::zero, zero_stub)]
    fn c01_unmap_2mib_p2_absent_hi() {
        unmap_step!(Size2MiB, "2mib", "p2_absent", P2_ABSENT, IDX_HI);
        kani::cover!(true, "c01_unmap_2mib_p2_absent_hi: reachable");
    }

    //@ obligation C02 C02.unmap_2mib.shape_p2_absent.error_leaves_every_mapping tier=thorough bounded="pool of 7 tables (4 path + 3 allocatable); tree-shaped sparse pre-state (target path, one neighbour word per path table, garbage in allocatable frames); page-table indices (255,511,0,256)"
    //@ obligation C02 C02.unmap_2mib.shape_p2_absent.documented_outcome tier=thorough bounded="pool of 7 tables (4 path + 3 allocatable); tree-shaped sparse pre-state (target path, one neighbour word per path table, garbage in allocatable frames); page-table indices (255,511,0,256)"
    //@ obligation C01 C01.unmap_2mib.shape_p2_absent.translate_agrees_after tier=thorough bounded="pool of 7 tables (4 path + 3 allocatable); tree-shaped sparse pre-state (target path, one neighbour word per path table, garbage in allocatable frames); page-table indices (255,511,0,256)"
    //@ obligation C09 C09.unmap_2mib.shape_p2_absent.only_dictated_slots_change tier=thorough bounded="pool of 7 tables (4 path + 3 allocatable); tree-shaped sparse pre-state (target path, one neighbour word per path table, garbage in allocatable frames); page-table indices (255,511,0,256)"
    //@ obligation C09 C09.unmap_2mib.shape_p2_absent.no_frames_requested_or_zeroed tier=thorough bounded="pool of 7 tables (4 path + 3 allocatable); tree-shaped sparse pre-state (target path, one neighbour word per path table, garbage in allocatable frames); page-table indices (255,511,0,256)"
    //@ obligation C09 C09.unmap_2mib.shape_p2_absent.no_dangling_table_pointer tier=thorough bounded="pool of 7 tables (4 path + 3 allocatable); tree-shaped sparse pre-state (target path, one neighbour word per path table, garbage in allocatable frames); page-table indices (255,511,0,256)"
    //@ obligation C09 C09.unmap_2mib.shape_p2_absent.no_access_outside_page_tables tier=thorough bounded="pool of 7 tables (4 path + 3 allocatable); tree-shaped sparse pre-state (target path, one neighbour word per path table, garbage in allocatable frames); page-table indices (255,511,0,256)"
    #[kani::proof]
    #[kani::stub(PageTable::zero, zero_stub)]
    fn c01_unmap_2mib_p2_absent_mid() {
        unmap_step!(Size2MiB, "2mib", "p2_absent", P2_ABSENT, IDX_MID);
        kani::cover!(true, "c01_unmap_2mib_p2_absent_mid: reachable");
    }

    //@ obligation C02 C02.unmap_2mib.shape_p2_absent.error_leaves_every_mapping tier=thorough bounded="pool of 7 tables (4 path + 3 allocatable); tree-shaped sparse pre-state (target path, one neighbour word per path table, garbage in allocatable frames); page-table indices (256,0,510,511)"
    //@ obligation C02 C02.unmap_2mib.shape_p2_absent.documented_outcome tier=thorough bounded="pool of 7 tables (4 path + 3 allocatable); tree-shaped sparse pre-state (target path, one neighbour word per path table, garbage in allocatable frames); page-table indices (256,0,510,511)"
    //@ obligation C01 C01.unmap_2mib.shape_p2_absent.translate_agrees_after tier=thorough bounded="pool of 7 tables (4 path + 3 allocatable); tree-shaped sparse pre-state (target path, one neighbour word per path table, garbage in allocatable frames); page-table indices (256,0,510,511)"
    //@ obligation C09 C09.unmap_2mib.shape_p2_absent.only_dictated_slots_change tier=thorough bounded="pool of 7 tables (4 path + 3 allocatable); tree-shaped sparse pre-state (target path, one neighbour word per path table, garbage in allocatable frames); page-table indices (256,0,510,511)"
    //@ obligation C09 C09.unmap_2mib.shape_p2_absent.no_frames_requested_or_zeroed tier=thorough bounded="pool of 7 tables (4 path + 3 allocatable); tree-shaped sparse pre-state (target path, one neighbour word per path table, garbage in allocatable frames); page-table indices (256,0,510,511)"
    //@ obligation C09 C09.unmap_2mib.shape_p2_absent.no_dangling_table_pointer tier=thorough bounded="pool of 7 tables (4 path + 3 allocatable); tree-shaped sparse pre-state (target path, one neighbour word per path table, garbage in allocatable frames); page-table indices (256,0,510,511)"
    //@ obligation C09 C09.unmap_2mib.shape_p2_absent.no_access_outside_page_tables tier=thorough bounded="pool of 7 tables (4 path + 3 allocatable); tree-shaped sparse pre-state (target path, one neighbour word per path table, garbage in allocatable frames); page-table indices (256,0,510,511)"
    #[kani::proof]
    #[kani::stub(PageTable::zero, zero_stub)]
    fn c01_unmap_2mib_p2_absent_up() {
        unmap_step!(Size2MiB, "2mib", "p2_absent", P2_ABSENT, IDX_UP);
        kani::cover!(true, "c01_unmap_2mib_p2_absent_up: reachable");
    }

    //@ obligation C01 C01.unmap_2mib.shape_p2_huge.returns_mapped_frame tier=thorough bounded="pool of 7 tables (4 path + 3 allocatable); tree-shaped sparse pre-state (target path, one neighbour word per path table, garbage in allocatable frames); page-table indices (0,1,511,2)"
    //@ obligation C01 C01.unmap_2mib.shape_p2_huge.target_not_mapped_after tier=thorough bounded="pool of 7 tables (4 path + 3 allocatable); tree-shaped sparse pre-state (target path, one neighbour word per path table, garbage in allocatable frames); page-table indices (0,1,511,2)"
    //@ obligation C11 C11.unmap_2mib.shape_p2_huge.target_not_mapped_after tier=thorough bounded="pool of 7 tables (4 path + 3 allocatable); tree-shaped sparse pre-state (target path, one neighbour word per path table, garbage in allocatable frames); page-table indices (0,1,511,2)"
    //@ obligation C01 C01.unmap_2mib.shape_p2_huge.other_addresses_unchanged tier=thorough bounded="pool of 7 tables (4 path + 3 allocatable); tree-shaped sparse pre-state (target path, one neighbour word per path table, garbage in allocatable frames); page-table indices (0,1,511,2)"
    //@ obligation C11 C11.unmap_2mib.shape_p2_huge.other_addresses_unchanged tier=thorough bounded="pool of 7 tables (4 path + 3 allocatable); tree-shaped sparse pre-state (target path, one neighbour word per path table, garbage in allocatable frames); page-table indices (0,1,511,2)"
    //@ obligation C01 C01.unmap_2mib.shape_p2_huge.result_reports_page tier=thorough bounded="pool of 7 tables (4 path + 3 allocatable); tree-shaped sparse pre-state (target path, one neighbour word per path table, garbage in allocatable frames); page-table indices (0,1,511,2)"
    //@ obligation C11 C11.unmap_2mib.shape_p2_huge.token_names_page tier=thorough bounded="pool of 7 tables (4 path + 3 allocatable); tree-shaped sparse pre-state (target path, one neighbour word per path table, garbage in allocatable frames); page-table indices (0,1,511,2)"
    //@ obligation C02 C02.unmap_2mib.shape_p2_huge.documented_outcome tier=thorough bounded="pool of 7 tables (4 path + 3 allocatable); tree-shaped sparse pre-state (target path, one neighbour word per path table, garbage in allocatable frames); page-table indices (0,1,511,2)"
    //@ obligation C01 C01.unmap_2mib.shape_p2_huge.translate_agrees_after tier=thorough bounded="pool of 7 tables (4 path + 3 allocatable); tree-shaped sparse pre-state (target path, one neighbour word per path table, garbage in allocatable frames); page-table indices (0,1,511,2)"
    //@ obligation C09 C09.unmap_2mib.shape_p2_huge.only_dictated_slots_change tier=thorough bounded="pool of 7 tables (4 path + 3 allocatable); tree-shaped sparse pre-state (target path, one neighbour word per path table, garbage in allocatable frames); page-table indices (0,1,511,2)"
    //@ obligation C09 C09.unmap_2mib.shape_p2_huge.no_frames_requested_or_zeroed tier=thorough bounded="pool of 7 tables (4 path + 3 allocatable); tree-shaped sparse pre-state (target path, one neighbour word per path table, garbage in allocatable frames); page-table indices (0,1,511,2)"
    //@ obligation C09 C09.unmap_2mib.shape_p2_huge.no_dangling_table_pointer tier=thorough bounded="pool of 7 tables (4 path + 3 allocatable); tree-shaped sparse pre-state (target path, one neighbour word per path table, garbage in allocatable frames); page-table indices (0,1,511,2)"
    //@ obligation C09 C09.unmap_2mib.shape_p2_huge.no_access_outside_page_tables tier=thorough bounded="pool of 7 tables (4 path + 3 allocatable); tree-shaped sparse pre-state (target path, one neighbour word per path table, garbage in allocatable frames); page-table indices (0,1,511,2)"
    #[kani::proof]
    #[kani::stub(PageTable::zero, zero_stub)]
    fn c01_unmap_2mib_p2_huge_lo() {
        unmap_step!(Size2MiB, "2mib", "p2_huge", P2_HUGE, IDX_LO);
        kani::cover!(true, "c01_unmap_2mib_p2_huge_lo: reachable");
    }

    //@ obligation C01 C01.unmap_2mib.shape_p2_huge.returns_mapped_frame tier=thorough bounded="pool of 7 tables (4 path + 3 allocatable); tree-shaped sparse pre-state (target path, one neighbour word per path table, garbage in allocatable frames); page-table indices (511,510,1,0)"
    //@ obligation C01 C01.unmap_2mib.shape_p2_huge.target_not_mapped_after tier=thorough bounded="pool of 7 tables (4 path + 3 allocatable); tree-shaped sparse pre-state (target path, one neighbour word per path table, garbage in allocatable frames); page-table indices (511,510,1,0)"
    //@ obligation C11 C11.unmap_2mib.shape_p2_huge.target_not_mapped_after tier=thorough bounded="pool of 7 tables (4 path + 3 allocatable); tree-shaped sparse pre-state (target path, one neighbour word per path table, garbage in allocatable frames); page-table indices (511,510,1,0)"
    //@ obligation C01 C01.unmap_2mib.shape_p2_huge.other_addresses_unchanged tier=thorough bounded="pool of 7 tables (4 path + 3 allocatable); tree-shaped sparse pre-state (target path, one neighbour word per path table, garbage in allocatable frames); page-table indices (511,510,1,0)"
    //@ obligation C11 C11.unmap_2mib.shape_p2_huge.other_addresses_unchanged tier=thorough bounded="pool of 7 tables (4 path + 3 allocatable); tree-shaped sparse pre-state (target path, one neighbour word per path table, garbage in allocatable frames); page-table indices (511,510,1,0)"
    //@ obligation C01 C01.unmap_2mib.shape_p2_huge.result_reports_page tier=thorough bounded="pool of 7 tables (4 path + 3 allocatable); tree-shaped sparse pre-state (target path, one neighbour word per path table, garbage in allocatable frames); page-table indices (511,510,1,0)"
    //@ obligation C11 C11.unmap_2mib.shape_p2_huge.token_names_page tier=thorough bounded="pool of 7 tables (4 path + 3 allocatable); tree-shaped sparse pre-state (target path, one neighbour word per path table, garbage in allocatable frames); page-table indices (511,510,1,0)"
    //@ obligation C02 C02.unmap_2mib.shape_p2_huge.documented_outcome tier=thorough bounded="pool of 7 tables (4 path + 3 allocatable); tree-shaped sparse pre-state (target path, one neighbour word per path table, garbage in allocatable frames); page-table indices (511,510,1,0)"
    //@ obligation C01 C01.unmap_2mib.shape_p2_huge.translate_agrees_after tier=thorough bounded="pool of 7 tables (4 path + 3 allocatable); tree-shaped sparse pre-state (target path, one neighbour word per path table, garbage in allocatable frames); page-table indices (511,510,1,0)"
    //@ obligation C09 C09.unmap_2mib.shape_p2_huge.only_dictated_slots_change tier=thorough bounded="pool of 7 tables (4 path + 3 allocatable); tree-shaped sparse pre-state (target path, one neighbour word per path table, garbage in allocatable frames); page-table indices (511,510,1,0)"
    //@ obligation C09 C09.unmap_2mib.shape_p2_huge.no_frames_requested_or_zeroed tier=thorough bounded="pool of 7 tables (4 path + 3 allocatable); tree-shaped sparse pre-state (target path, one neighbour word per path table, garbage in allocatable frames); page-table indices (511,510,1,0)"
    //@ obligation C09 C09.unmap_2mib.shape_p2_huge.no_dangling_table_pointer tier=thorough bounded="pool of 7 tables (4 path + 3 allocatable); tree-shaped sparse pre-state (target path, one neighbour word per path table, garbage in allocatable frames); page-table indices (511,510,1,0)"
    //@ obligation C09 C09.unmap_2mib.shape_p2_huge.no_access_outside_page_tables tier=thorough bounded="pool of 7 tables (4 path + 3 allocatable); tree-shaped sparse pre-state (target path, one neighbour word per path table, garbage in allocatable frames); page-table indices (511,510,1,0)"
    #[kani::proof]
    #[kani::stub(PageTable::zero, zero_stub)]
    fn c01_unmap_2mib_p2_huge_hi() {
        unmap_step!(Size2MiB, "2mib", "p2_huge", P2_HUGE, IDX_HI);
        kani::cover!(true, "c01_unmap_2mib_p2_huge_hi: reachable");
    }

    //@ obligation C01 C01.unmap_2mib.shape_p2_huge.returns_mapped_frame bounded="pool of 7 tables (4 path + 3 allocatable); tree-shaped sparse pre-state (target path, one neighbour word per path table, garbage in allocatable frames); page-table indices (255,511,0,256)"
    //@ obligation C01 C01.unmap_2mib.shape_p2_huge.target_not_mapped_after bounded="pool of 7 tables (4 path + 3 allocatable); tree-shaped sparse pre-state (target path, one neighbour word per path table, garbage in allocatable frames); page-table indices (255,511,0,256)"
    //@ obligation C11 C11.unmap_2mib.shape_p2_huge.target_not_mapped_after bounded="pool of 7 tables (4 path + 3 allocatable); tree-shaped sparse pre-state (target path, one neighbour word per path table, garbage in allocatable frames); page-table indices (255,511,0,256)"
    //@ obligation C01 C01.unmap_2mib.shape_p2_huge.other_addresses_unchanged bounded="pool of 7 tables (4 path + 3 allocatable); tree-shaped sparse pre-state (target path, one neighbour word per path table, garbage in allocatable frames); page-table indices (255,511,0,256)"
    //@ obligation C11 C11.unmap_2mib.shape_p2_huge.other_addresses_unchanged bounded="pool of 7 tables (4 path + 3 allocatable); tree-shaped sparse pre-state (target path, one neighbour word per path table, garbage in allocatable frames); page-table indices (255,511,0,256)"
    //@ obligation C01 C01.unmap_2mib.shape_p2_huge.result_reports_page bounded="pool of 7 tables (4 path + 3 allocatable); tree-shaped sparse pre-state (target path, one neighbour word per path table, garbage in allocatable frames); page-table indices (255,511,0,256)"
    //@ obligation C11 C11.unmap_2mib.shape_p2_huge.token_names_page bounded="pool of 7 tables (4 path + 3 allocatable); tree-shaped sparse pre-state (target path, one neighbour word per path table, garbage in allocatable frames); page-table indices (255,511,0,256)"
    //@ obligation C02 C02.unmap_2mib.shape_p2_huge.documented_outcome bounded="pool of 7 tables (4 path + 3 allocatable); tree-shaped sparse pre-state (target path, one neighbour word per path table, garbage in allocatable frames); page-table indices (255,511,0,256)"
    //@ obligation C01 C01.unmap_2mib.shape_p2_huge.translate_agrees_after bounded="pool of 7 tables (4 path + 3 allocatable); tree-shaped sparse pre-state (target path, one neighbour word per path table, garbage in allocatable frames); page-table indices (255,511,0,256)"
    //@ obligation C09 C09.unmap_2mib.shape_p2_huge.only_dictated_slots_change bounded="pool of 7 tables (4 path + 3 allocatable); tree-shaped sparse pre-state (target path, one neighbour word per path table, garbage in allocatable frames); page-table indices (255,511,0,256)"
    //@ obligation C09 C09.unmap_2mib.shape_p2_huge.no_frames_requested_or_zeroed bounded="pool of 7 tables (4 path + 3 allocatable); tree-shaped sparse pre-state (target path, one neighbour word per path table, garbage in allocatable frames); page-table indices (255,511,0,256)"
    //@ obligation C09 C09.unmap_2mib.shape_p2_huge.no_dangling_table_pointer bounded="pool of 7 tables (4 path + 3 allocatable); tree-shaped sparse pre-state (target path, one neighbour word per path table, garbage in allocatable frames); page-table indices (255,511,0,256)"
    //@ obligation C09 C09.unmap_2mib.shape_p2_huge.no_access_outside_page_tables bounded="pool of 7 tables (4 path + 3 allocatable); tree-shaped sparse pre-state (target path, one neighbour word per path table, garbage in allocatable frames); page-table indices (255,511,0,256)"
    #[kani::proof]
    #[kani::stub(PageTable::zero, zero_stub)]
    fn c01_unmap_2mib_p2_huge_mid() {
        unmap_step!(Size2MiB, "2mib", "p2_huge", P2_HUGE, IDX_MID);
        kani::cover!(true, "c01_unmap_2mib_p2_huge_mid: reachable");
    }

    //@ obligation C01 C01.unmap_2mib.shape_p2_huge.returns_mapped_frame tier=thorough bounded="pool of 7 tables (4 path + 3 allocatable); tree-shaped sparse pre-state (target path, one neighbour word per path table, garbage in allocatable frames); page-table indices (256,0,510,511)"
    //@ obligation C01 C01.unmap_2mib.shape_p2_huge.target_not_mapped_after tier=thorough bounded="pool of 7 tables (4 path + 3 allocatable); tree-shaped sparse pre-state (target path, one neighbour word per path table, garbage in allocatable frames); page-table indices (256,0,510,511)"
    //@ obligation C11 C11.unmap_2mib.shape_p2_huge.target_not_mapped_after tier=thorough bounded="pool of 7 tables (4 path + 3 allocatable); tree-shaped sparse pre-state (target path, one neighbour word per path table, garbage in allocatable frames); page-table indices (256,0,510,511)"
    //@ obligation C01 C01.unmap_2mib.shape_p2_huge.other_addresses_unchanged tier=thorough bounded="pool of 7 tables (4 path + 3 allocatable); tree-shaped sparse pre-state (target path, one neighbour word per path table, garbage in allocatable frames); page-table indices (256,0,510,511)"
    //@ obligation C11 C11.unmap_2mib.shape_p2_huge.other_addresses_unchanged tier=thorough bounded="pool of 7 tables (4 path + 3 allocatable); tree-shaped sparse pre-state (target path, one neighbour word per path table, garbage in allocatable frames); page-table indices (256,0,510,511)"
    //@ obligation C01 C01.unmap_2mib.shape_p2_huge.result_reports_page tier=thorough bounded="pool of 7 tables (4 path + 3 allocatable); tree-shaped sparse pre-state (target path, one neighbour word per path table, garbage in allocatable frames); page-table indices (256,0,510,511)"
    //@ obligation C11 C11.unmap_2mib.shape_p2_huge.token_names_page tier=thorough bounded="pool of 7 tables (4 path + 3 allocatable); tree-shaped sparse pre-state (target path, one neighbour word per path table, garbage in allocatable frames); page-table indices (256,0,510,511)"
    //@ obligation C02 C02.unmap_2mib.shape_p2_huge.documented_outcome tier=thorough bounded="pool of 7 tables (4 path + 3 allocatable); tree-shaped sparse pre-state (target path, one neighbour word per path table, garbage in allocatable frames); page-table indices (256,0,510,511)"
    //@ obligation C01 C01.unmap_2mib.shape_p2_huge.translate_agrees_after tier=thorough bounded="pool of 7 tables (4 path + 3 allocatable); tree-shaped sparse pre-state (target path, one neighbour word per path table, garbage in allocatable frames); page-table indices (256,0,510,511)"
    //@ obligation C09 C09.unmap_2mib.shape_p2_huge.only_dictated_slots_change tier=thorough bounded="pool of 7 tables (4 path + 3 allocatable); tree-shaped sparse pre-state (target path, one neighbour word per path table, garbage in allocatable frames); page-table indices (256,0,510,511)"
    //@ obligation C09 C09.unmap_2mib.shape_p2_huge.no_frames_requested_or_zeroed tier=thorough bounded="pool of 7 tables (4 path + 3 allocatable); tree-shaped sparse pre-state (target path, one neighbour word per path table, garbage in allocatable frames); page-table indices (256,0,510,511)"
    //@ obligation C09 C09.unmap_2mib.shape_p2_huge.no_dangling_table_pointer tier=thorough bounded="pool of 7 tables (4 path + 3 allocatable); tree-shaped sparse pre-state (target path, one neighbour word per path table, garbage in allocatable frames); page-table indices (256,0,510,511)"
    //@ obligation C09 C09.unmap_2mib.shape_p2_huge.no_access_outside_page_tables tier=thorough bounded="pool of 7 tables (4 path + 3 allocatable); tree-shaped sparse pre-state (target path, one neighbour word per path table, garbage in allocatable frames); page-table indices (256,0,510,511)"
    #[kani::proof]
    #[kani::stub(PageTable::zero, zero_stub)]
    fn c01_unmap_2mib_p2_huge_up() {
        unmap_step!(Size2MiB, "2mib", "p2_huge", P2_HUGE, IDX_UP);
        kani::cover!(true, "c01_unmap_2mib_p2_huge_up: reachable");
    }

    //@ obligation C02 C02.unmap_2mib.shape_table_entry.no_success_for_nonexistent_size tier=thorough bounded="pool of 7 tables (4 path + 3 allocatable); tree-shaped sparse pre-state (target path, one neighbour word per path table, garbage in allocatable frames); page-table indices (0,1,511,2)"
    //@ obligation C02 C02.unmap_2mib.shape_table_entry.error_leaves_every_mapping tier=thorough bounded="pool of 7 tables (4 path + 3 allocatable); tree-shaped sparse pre-state (target path, one neighbour word per path table, garbage in allocatable frames); page-table indices (0,1,511,2)"
    //@ obligation C02 C02.unmap_2mib.shape_table_entry.documented_outcome tier=thorough bounded="pool of 7 tables (4 path + 3 allocatable); tree-shaped sparse pre-state (target path, one neighbour word per path table, garbage in allocatable frames); page-table indices (0,1,511,2)"
    //@ obligation C01 C01.unmap_2mib.shape_table_entry.translate_agrees_after tier=thorough bounded="pool of 7 tables (4 path + 3 allocatable); tree-shaped sparse pre-state (target path, one neighbour word per path table, garbage in allocatable frames); page-table indices (0,1,511,2)"
    //@ obligation C09 C09.unmap_2mib.shape_table_entry.only_dictated_slots_change tier=thorough bounded="pool of 7 tables (4 path + 3 allocatable); tree-shaped sparse pre-state (target path, one neighbour word per path table, garbage in allocatable frames); page-table indices (0,1,511,2)"
    //@ obligation C09 C09.unmap_2mib.shape_table_entry.no_frames_requested_or_zeroed tier=thorough bounded="pool of 7 tables (4 path + 3 allocatable); tree-shaped sparse pre-state (target path, one neighbour word per path table, garbage in allocatable frames); page-table indices (0,1,511,2)"
    //@ obligation C09 C09.unmap_2mib.shape_table_entry.no_dangling_table_pointer tier=thorough bounded="pool of 7 tables (4 path + 3 allocatable); tree-shaped sparse pre-state (target path, one neighbour word per path table, garbage in allocatable frames); page-table indices (0,1,511,2)"
    //@ obligation C09 C09.unmap_2mib.shape_table_entry.no_access_outside_page_tables tier=thorough bounded="pool of 7 tables (4 path + 3 allocatable); tree-shaped sparse pre-state (target path, one neighbour word per path table, garbage in allocatable frames); page-table indices (0,1,511,2)"
    #[kani::proof]
    #[kani::stub(PageTable::zero, zero_stub)]
    fn c01_unmap_2mib_table_entry_lo() {
        unmap_step!(Size2MiB, "2mib", "table_entry", P2_TABLE, IDX_LO);
        kani::cover!(true, "c01_unmap_2mib_table_entry_lo: reachable");
    }

    //@ obligation C02 C02.unmap_2mib.shape_table_entry.no_success_for_nonexistent_size tier=thorough bounded="pool of 7 tables (4 path + 3 allocatable); tree-shaped sparse pre-state (target path, one neighbour word per path table, garbage in allocatable frames); page-table indices (511,510,1,0)"
    //@ obligation C02 C02.unmap_2mib.shape_table_entry.error_leaves_every_mapping tier=thorough bounded="pool of 7 tables (4 path + 3 allocatable); tree-shaped sparse pre-state (target path, one neighbour word per path table, garbage in allocatable frames); page-table indices (511,510,1,0)"
    //@ obligation C02 C02.unmap_2mib.shape_table_entry.documented_outcome tier=thorough bounded="pool of 7 tables (4 path + 3 allocatable); tree-shaped sparse pre-state (target path, one neighbour word per path table, garbage in allocatable frames); page-table indices (511,510,1,0)"
    //@ obligation C01 C01.unmap_2mib.shape_table_entry.translate_agrees_after tier=thorough bounded="pool of 7 tables (4 path + 3 allocatable); tree-shaped sparse pre-state (target path, one neighbour word per path table, garbage in allocatable frames); page-table indices (511,510,1,0)"
    //@ obligation C09 C09.unmap_2mib.shape_table_entry.only_dictated_slots_change tier=thorough bounded="pool of 7 tables (4 path + 3 allocatable); tree-shaped sparse pre-state (target path, one neighbour word per path table, garbage in allocatable frames); page-table indices (511,510,1,0)"
    //@ obligation C09 C09.unmap_2mib.shape_table_entry.no_frames_requested_or_zeroed tier=thorough bounded="pool of 7 tables (4 path + 3 allocatable); tree-shaped sparse pre-state (target path, one neighbour word per path table, garbage in allocatable frames); page-table indices (511,510,1,0)"
    //@ obligation C09 C09.unmap_2mib.shape_table_entry.no_dangling_table_pointer tier=thorough bounded="pool of 7 tables (4 path + 3 allocatable); tree-shaped sparse pre-state (target path, one neighbour word per path table, garbage in allocatable frames); page-table indices (511,510,1,0)"
    //@ obligation C09 C09.unmap_2mib.shape_table_entry.no_access_outside_page_tables tier=thorough bounded="pool of 7 tables (4 path + 3 allocatable); tree-shaped sparse pre-state (target path, one neighbour word per path table, garbage in allocatable frames); page-table indices (511,510,1,0)"
    #[kani::proof]
    #[kani::stub(PageTable::zero, zero_stub)]
    fn c01_unmap_2mib_table_entry_hi() {
        unmap_step!(Size2MiB, "2mib", "table_entry", P2_TABLE, IDX_HI);
        kani::cover!(true, "c01_unmap_2mib_table_entry_hi: reachable");
    }

    //@ obligation C02 C02.unmap_2mib.shape_table_entry.no_success_for_nonexistent_size bounded="pool of 7 tables (4 path + 3 allocatable); tree-shaped sparse pre-state (target path, one neighbour word per path table, garbage in allocatable frames); page-table indices (255,511,0,256)"
    //@ obligation C02 C02.unmap_2mib.shape_table_entry.error_leaves_every_mapping bounded="pool of 7 tables (4 path + 3 allocatable); tree-shaped sparse pre-state (target path, one neighbour word per path table, garbage in allocatable frames); page-table indices (255,511,0,256)"
    //@ obligation C02 C02.unmap_2mib.shape_table_entry.documented_outcome bounded="pool of 7 tables (4 path + 3 allocatable); tree-shaped sparse pre-state (target path, one neighbour word per path table, garbage in allocatable frames); page-table indices (255,511,0,256)"
    //@ obligation C01 C01.unmap_2mib.shape_table_entry.translate_agrees_after bounded="pool of 7 tables (4 path + 3 allocatable); tree-shaped sparse pre-state (target path, one neighbour word per path table, garbage in allocatable frames); page-table indices (255,511,0,256)"
    //@ obligation C09 C09.unmap_2mib.shape_table_entry.only_dictated_slots_change bounded="pool of 7 tables (4 path + 3 allocatable); tree-shaped sparse pre-state (target path, one neighbour word per path table, garbage in allocatable frames); page-table indices (255,511,0,256)"
    //@ obligation C09 C09.unmap_2mib.shape_table_entry.no_frames_requested_or_zeroed bounded="pool of 7 tables (4 path + 3 allocatable); tree-shaped sparse pre-state (target path, one neighbour word per path table, garbage in allocatable frames); page-table indices (255,511,0,256)"
    //@ obligation C09 C09.unmap_2mib.shape_table_entry.no_dangling_table_pointer bounded="pool of 7 tables (4 path + 3 allocatable); tree-shaped sparse pre-state (target path, one neighbour word per path table, garbage in allocatable frames); page-table indices (255,511,0,256)"
    //@ obligation C09 C09.unmap_2mib.shape_table_entry.no_access_outside_page_tables bounded="pool of 7 tables (4 path + 3 allocatable); tree-shaped sparse pre-state (target path, one neighbour word per path table, garbage in allocatable frames); page-table indices (255,511,0,256)"
    #[kani::proof]
    #[kani::stub(PageTable::zero, zero_stub)]
    fn c01_unmap_2mib_table_entry_mid() {
        unmap_step!(Size2MiB, "2mib", "table_entry", P2_TABLE, IDX_MID);
        kani::cover!(true, "c01_unmap_2mib_table_entry_mid: reachable");
    }

    //@ obligation C02 C02.unmap_2mib.shape_table_entry.no_success_for_nonexistent_size tier=thorough bounded="pool of 7 tables (4 path + 3 allocatable); tree-shaped sparse pre-state (target path, one neighbour word per path table, garbage in allocatable frames); page-table indices (256,0,510,511)"
    //@ obligation C02 C02.unmap_2mib.shape_table_entry.error_leaves_every_mapping tier=thorough bounded="pool of 7 tables (4 path + 3 allocatable); tree-shaped sparse pre-state (target path, one neighbour word per path table, garbage in allocatable frames); page-table indices (256,0,510,511)"
    //@ obligation C02 C02.unmap_2mib.shape_table_entry.documented_outcome tier=thorough bounded="pool of 7 tables (4 path + 3 allocatable); tree-shaped sparse pre-state (target path, one neighbour word per path table, garbage in allocatable frames); page-table indices (256,0,510,511)"
    //@ obligation C01 C01.unmap_2mib.shape_table_entry.translate_agrees_after tier=thorough bounded="pool of 7 tables (4 path + 3 allocatable); tree-shaped sparse pre-state (target path, one neighbour word per path table, garbage in allocatable frames); page-table indices (256,0,510,511)"
    //@ obligation C09 C09.unmap_2mib.shape_table_entry.only_dictated_slots_change tier=thorough bounded="pool of 7 tables (4 path + 3 allocatable); tree-shaped sparse pre-state (target path, one neighbour word per path table, garbage in allocatable frames); page-table indices (256,0,510,511)"
    //@ obligation C09 C09.unmap_2mib.shape_table_entry.no_frames_requested_or_zeroed tier=thorough bounded="pool of 7 tables (4 path + 3 allocatable); tree-shaped sparse pre-state (target path, one neighbour word per path table, garbage in allocatable frames); page-table indices (256,0,510,511)"
    //@ obligation C09 C09.unmap_2mib.shape_table_entry.no_dangling_table_pointer tier=thorough bounded="pool of 7 tables (4 path + 3 allocatable); tree-shaped sparse pre-state (target path, one neighbour word per path table, garbage in allocatable frames); page-table indices (256,0,510,511)"
    //@ obligation C09 C09.unmap_2mib.shape_table_entry.no_access_outside_page_tables tier=thorough bounded="pool of 7 tables (4 path + 3 allocatable); tree-shaped sparse pre-state (target path, one neighbour word per path table, garbage in allocatable frames); page-table indices (256,0,510,511)"
    #[kani::proof]
    #[kani::stub(PageTable::zero, zero_stub)]
    fn c01_unmap_2mib_table_entry_up() {
        unmap_step!(Size2MiB, "2mib", "table_entry", P2_TABLE, IDX_UP);
        kani::cover!(true, "c01_unmap_2mib_table_entry_up: reachable");
    }

    //@ obligation C01 C01.unmap_2mib.shape_sym.returns_mapped_frame bounded="pool of 7 tables (4 path + 3 allocatable); tree-shaped sparse pre-state (target path, one neighbour word per path table, garbage in allocatable frames); page-table indices (0,1,511,2)"
    //@ obligation C01 C01.unmap_2mib.shape_sym.target_not_mapped_after bounded="pool of 7 tables (4 path + 3 allocatable); tree-shaped sparse pre-state (target path, one neighbour word per path table, garbage in allocatable frames); page-table indices (0,1,511,2)"
    //@ obligation C11 C11.unmap_2mib.shape_sym.target_not_mapped_after bounded="pool of 7 tables (4 path + 3 allocatable); tree-shaped sparse pre-state (target path, one neighbour word per path table, garbage in allocatable frames); page-table indices (0,1,511,2)"
    //@ obligation C01 C01.unmap_2mib.shape_sym.other_addresses_unchanged bounded="pool of 7 tables (4 path + 3 allocatable); tree-shaped sparse pre-state (target path, one neighbour word per path table, garbage in allocatable frames); page-table indices (0,1,511,2)"
    //@ obligation C11 C11.unmap_2mib.shape_sym.other_addresses_unchanged bounded="pool of 7 tables (4 path + 3 allocatable); tree-shaped sparse pre-state (target path, one neighbour word per path table, garbage in allocatable frames); page-table indices (0,1,511,2)"
    //@ obligation C01 C01.unmap_2mib.shape_sym.result_reports_page bounded="pool of 7 tables (4 path + 3 allocatable); tree-shaped sparse pre-state (target path, one neighbour word per path table, garbage in allocatable frames); page-table indices (0,1,511,2)"
    //@ obligation C11 C11.unmap_2mib.shape_sym.token_names_page bounded="pool of 7 tables (4 path + 3 allocatable); tree-shaped sparse pre-state (target path, one neighbour word per path table, garbage in allocatable frames); page-table indices (0,1,511,2)"
    //@ obligation C02 C02.unmap_2mib.shape_sym.documented_outcome bounded="pool of 7 tables (4 path + 3 allocatable); tree-shaped sparse pre-state (target path, one neighbour word per path table, garbage in allocatable frames); page-table indices (0,1,511,2)"
    //@ obligation C01 C01.unmap_2mib.shape_sym.translate_agrees_after bounded="pool of 7 tables (4 path + 3 allocatable); tree-shaped sparse pre-state (target path, one neighbour word per path table, garbage in allocatable frames); page-table indices (0,1,511,2)"
    //@ obligation C09 C09.unmap_2mib.shape_sym.only_dictated_slots_change bounded="pool of 7 tables (4 path + 3 allocatable); tree-shaped sparse pre-state (target path, one neighbour word per path table, garbage in allocatable frames); page-table indices (0,1,511,2)"
    //@ obligation C09 C09.unmap_2mib.shape_sym.no_frames_requested_or_zeroed bounded="pool of 7 tables (4 path + 3 allocatable); tree-shaped sparse pre-state (target path, one neighbour word per path table, garbage in allocatable frames); page-table indices (0,1,511,2)"
    //@ obligation C09 C09.unmap_2mib.shape_sym.no_dangling_table_pointer bounded="pool of 7 tables (4 path + 3 allocatable); tree-shaped sparse pre-state (target path, one neighbour word per path table, garbage in allocatable frames); page-table indices (0,1,511,2)"
    //@ obligation C09 C09.unmap_2mib.shape_sym.no_access_outside_page_tables bounded="pool of 7 tables (4 path + 3 allocatable); tree-shaped sparse pre-state (target path, one neighbour word per path table, garbage in allocatable frames); page-table indices (0,1,511,2)"
    //@ obligation C02 C02.unmap_2mib.shape_sym.error_leaves_every_mapping bounded="pool of 7 tables (4 path + 3 allocatable); tree-shaped sparse pre-state (target path, one neighbour word per path table, garbage in allocatable frames); page-table indices (0,1,511,2)"
    #[kani::proof]
    #[kani::stub(PageTable::zero, zero_stub)]
    fn c01_unmap_2mib_sym_lo() {
        unmap_step!(Size2MiB, "2mib", "sym", P2_SYM, IDX_LO);
        kani::cover!(true, "c01_unmap_2mib_sym_lo: reachable");
    }

    //@ obligation C01 C01.unmap_2mib.shape_sym.returns_mapped_frame tier=thorough bounded="pool of 7 tables (4 path + 3 allocatable); tree-shaped sparse pre-state (target path, one neighbour word per path table, garbage in allocatable frames); page-table indices (511,510,1,0)"
    //@ obligation C01 C01.unmap_2mib.shape_sym.target_not_mapped_after tier=thorough bounded="pool of 7 tables (4 path + 3 allocatable); tree-shaped sparse pre-state (target path, one neighbour word per path table, garbage in allocatable frames); page-table indices (511,510,1,0)"
    //@ obligation C11 C11.unmap_2mib.shape_sym.target_not_mapped_after tier=thorough bounded="pool of 7 tables (4 path + 3 allocatable); tree-shaped sparse pre-state (target path, one neighbour word per path table, garbage in allocatable frames); page-table indices (511,510,1,0)"
    //@ obligation C01 C01.unmap_2mib.shape_sym.other_addresses_unchanged tier=thorough bounded="pool of 7 tables (4 path + 3 allocatable); tree-shaped sparse pre-state (target path, one neighbour word per path table, garbage in allocatable frames); page-table indices (511,510,1,0)"
    //@ obligation C11 C11.unmap_2mib.shape_sym.other_addresses_unchanged tier=thorough bounded="pool of 7 tables (4 path + 3 allocatable); tree-shaped sparse pre-state (target path, one neighbour word per path table, garbage in allocatable frames); page-table indices (511,510,1,0)"
    //@ obligation C01 C01.unmap_2mib.shape_sym.result_reports_page tier=thorough bounded="pool of 7 tables (4 path + 3 allocatable); tree-shaped sparse pre-state (target path, one neighbour word per path table, garbage in allocatable frames); page-table indices (511,510,1,0)"
    //@ obligation C11 C11.unmap_2mib.shape_sym.token_names_page tier=thorough bounded="pool of 7 tables (4 path + 3 allocatable); tree-shaped sparse pre-state (target path, one neighbour word per path table, garbage in allocatable frames); page-table indices (511,510,1,0)"
    //@ obligation C02 C02.unmap_2mib.shape_sym.documented_outcome tier=thorough bounded="pool of 7 tables (4 path + 3 allocatable); tree-shaped sparse pre-state (target path, one neighbour word per path table, garbage in allocatable frames); page-table indices (511,510,1,0)"
    //@ obligation C01 C01.unmap_2mib.shape_sym.translate_agrees_after tier=thorough bounded="pool of 7 tables (4 path + 3 allocatable); tree-shaped sparse pre-state (target path, one neighbour word per path table, garbage in allocatable frames); page-table indices (511,510,1,0)"
    //@ obligation C09 C09.unmap_2mib.shape_sym.only_dictated_slots_change tier=thorough bounded="pool of 7 tables (4 path + 3 allocatable); tree-shaped sparse pre-state (target path, one neighbour word per path table, garbage in allocatable frames); page-table indices (511,510,1,0)"
    //@ obligation C09 C09.unmap_2mib.shape_sym.no_frames_requested_or_zeroed tier=thorough bounded="pool of 7 tables (4 path + 3 allocatable); tree-shaped sparse pre-state (target path, one neighbour word per path table, garbage in allocatable frames); page-table indices (511,510,1,0)"
    //@ obligation C09 C09.unmap_2mib.shape_sym.no_dangling_table_pointer tier=thorough bounded="pool of 7 tables (4 path + 3 allocatable); tree-shaped sparse pre-state (target path, one neighbour word per path table, garbage in allocatable frames); page-table indices (511,510,1,0)"
    //@ obligation C09 C09.unmap_2mib.shape_sym.no_access_outside_page_tables tier=thorough bounded="pool of 7 tables (4 path + 3 allocatable); tree-shaped sparse pre-state (target path, one neighbour word per path table, garbage in allocatable frames); page-table indices (511,510,1,0)"
    //@ obligation C02 C02.unmap_2mib.shape_sym.error_leaves_every_mapping tier=thorough bounded="pool of 7 tables (4 path + 3 allocatable); tree-shaped sparse pre-state (target path, one neighbour word per path table, garbage in allocatable frames); page-table indices (511,510,1,0)"
    #[kani::proof]
    #[kani::stub(PageTable::zero, zero_stub)]
    fn c01_unmap_2mib_sym_hi() {
        unmap_step!(Size2MiB, "2mib", "sym", P2_SYM, IDX_HI);
        kani::cover!(true, "c01_unmap_2mib_sym_hi: reachable");
    }

    //@ obligation C01 C01.unmap_2mib.shape_sym.returns_mapped_frame tier=thorough bounded="pool of 7 tables (4 path + 3 allocatable); tree-shaped sparse pre-state (target path, one neighbour word per path table, garbage in allocatable frames); page-table indices (255,511,0,256)"
    //@ obligation C01 C01.unmap_2mib.shape_sym.target_not_mapped_after tier=thorough bounded="pool of 7 tables (4 path + 3 allocatable); tree-shaped sparse pre-state (target path, one neighbour word per path table, garbage in allocatable frames); page-table indices (255,511,0,256)"
    //@ obligation C11 C11.unmap_2mib.shape_sym.target_not_mapped_after tier=thorough bounded="pool of 7 tables (4 path + 3 allocatable); tree-shaped sparse pre-state (target path, one neighbour word per path table, garbage in allocatable frames); page-table indices (255,511,0,256)"
    //@ obligation C01 C01.unmap_2mib.shape_sym.other_addresses_unchanged tier=thorough bounded="pool of 7 tables (4 path + 3 allocatable); tree-shaped sparse pre-state (target path, one neighbour word per path table, garbage in allocatable frames); page-table indices (255,511,0,256)"
    //@ obligation C11 C11.unmap_2mib.shape_sym.other_addresses_unchanged tier=thorough bounded="pool of 7 tables (4 path + 3 allocatable); tree-shaped sparse pre-state (target path, one neighbour word per path table, garbage in allocatable frames); page-table indices (255,511,0,256)"
    //@ obligation C01 C01.unmap_2mib.shape_sym.result_reports_page tier=thorough bounded="pool of 7 tables (4 path + 3 allocatable); tree-shaped sparse pre-state (target path, one neighbour word per path table, garbage in allocatable frames); page-table indices (255,511,0,256)"
    //@ obligation C11 C11.unmap_2mib.shape_sym.token_names_page tier=thorough bounded="pool of 7 tables (4 path + 3 allocatable); tree-shaped sparse pre-state (target path, one neighbour word per path table, garbage in allocatable frames); page-table indices (255,511,0,256)"
    //@ obligation C02 C02.unmap_2mib.shape_sym.documented_outcome tier=thorough bounded="pool of 7 tables (4 path + 3 allocatable); tree-shaped sparse pre-state (target path, one neighbour word per path table, garbage in allocatable frames); page-table indices (255,511,0,256)"
    //@ obligation C01 C01.unmap_2mib.shape_sym.translate_agrees_after tier=thorough bounded="pool of 7 tables (4 path + 3 allocatable); tree-shaped sparse pre-state (target path, one neighbour word per path table, garbage in allocatable frames); page-table indices (255,511,0,256)"
    //@ obligation C09 C09.unmap_2mib.shape_sym.only_dictated_slots_change tier=thorough bounded="pool of 7 tables (4 path + 3 allocatable); tree-shaped sparse pre-state (target path, one neighbour word per path table, garbage in allocatable frames); page-table indices (255,511,0,256)"
    //@ obligation C09 C09.unmap_2mib.shape_sym.no_frames_requested_or_zeroed tier=thorough bounded="pool of 7 tables (4 path + 3 allocatable); tree-shaped sparse pre-state (target path, one neighbour word per path table, garbage in allocatable frames); page-table indices (255,511,0,256)"
    //@ obligation C09 C09.unmap_2mib.shape_sym.no_dangling_table_pointer tier=thorough bounded="pool of 7 tables (4 path + 3 allocatable); tree-shaped sparse pre-state (target path, one neighbour word per path table, garbage in allocatable frames); page-table indices (255,511,0,256)"
    //@ obligation C09 C09.unmap_2mib.shape_sym.no_access_outside_page_tables tier=thorough bounded="pool of 7 tables (4 path + 3 allocatable); tree-shaped sparse pre-state (target path, one neighbour word per path table, garbage in allocatable frames); page-table indices (255,511,0,256)"
    //@ obligation C02 C02.unmap_2mib.shape_sym.error_leaves_every_mapping tier=thorough bounded="pool of 7 tables (4 path + 3 allocatable); tree-shaped sparse pre-state (target path, one neighbour word per path table, garbage in allocatable frames); page-table indices (255,511,0,256)"
    #[kani::proof]
    #[kani::stub(PageTable::zero, zero_stub)]
    fn c01_unmap_2mib_sym_mid() {
        unmap_step!(Size2MiB, "2mib", "sym", P2_SYM, IDX_MID);
        kani::cover!(true, "c01_unmap_2mib_sym_mid: reachable");
    }

    //@ obligation C01 C01.unmap_2mib.shape_sym.returns_mapped_frame tier=thorough bounded="pool of 7 tables (4 path + 3 allocatable); tree-shaped sparse pre-state (target path, one neighbour word per path table, garbage in allocatable frames); page-table indices (256,0,510,511)"
    //@ obligation C01 C01.unmap_2mib.shape_sym.target_not_mapped_after tier=thorough bounded="pool of 7 tables (4 path + 3 allocatable); tree-shaped sparse pre-state (target path, one neighbour word per path table, garbage in allocatable frames); page-table indices (256,0,510,511)"
    //@ obligation C11 C11.unmap_2mib.shape_sym.target_not_mapped_after tier=thorough bounded="pool of 7 tables (4 path + 3 allocatable); tree-shaped sparse pre-state (target path, one neighbour word per path table, garbage in allocatable frames); page-table indices (256,0,510,511)"
    //@ obligation C01 C01.unmap_2mib.shape_sym.other_addresses_unchanged tier=thorough bounded="pool of 7 tables (4 path + 3 allocatable); tree-shaped sparse pre-state (target path, one neighbour word per path table, garbage in allocatable frames); page-table indices (256,0,510,511)"
    //@ obligation C11 C11.unmap_2mib.shape_sym.other_addresses_unchanged tier=thorough bounded="pool of 7 tables (4 path + 3 allocatable); tree-shaped sparse pre-state (target path, one neighbour word per path table, garbage in allocatable frames); page-table indices (256,0,510,511)"
    //@ obligation C01 C01.unmap_2mib.shape_sym.result_reports_page tier=thorough bounded="pool of 7 tables (4 path + 3 allocatable); tree-shaped sparse pre-state (target path, one neighbour word per path table, garbage in allocatable frames); page-table indices (256,0,510,511)"
    //@ obligation C11 C11.unmap_2mib.shape_sym.token_names_page tier=thorough bounded="pool of 7 tables (4 path + 3 allocatable); tree-shaped sparse pre-state (target path, one neighbour word per path table, garbage in allocatable frames); page-table indices (256,0,510,511)"
    //@ obligation C02 C02.unmap_2mib.shape_sym.documented_outcome tier=thorough bounded="pool of 7 tables (4 path + 3 allocatable); tree-shaped sparse pre-state (target path, one neighbour word per path table, garbage in allocatable frames); page-table indices (256,0,510,511)"
    //@ obligation C01 C01.unmap_2mib.shape_sym.translate_agrees_after tier=thorough bounded="pool of 7 tables (4 path + 3 allocatable); tree-shaped sparse pre-state (target path, one neighbour word per path table, garbage in allocatable frames); page-table indices (256,0,510,511)"
    //@ obligation C09 C09.unmap_2mib.shape_sym.only_dictated_slots_change tier=thorough bounded="pool of 7 tables (4 path + 3 allocatable); tree-shaped sparse pre-state (target path, one neighbour word per path table, garbage in allocatable frames); page-table indices (256,0,510,511)"
    //@ obligation C09 C09.unmap_2mib.shape_sym.no_frames_requested_or_zeroed tier=thorough bounded="pool of 7 tables (4 path + 3 allocatable); tree-shaped sparse pre-state (target path, one neighbour word per path table, garbage in allocatable frames); page-table indices (256,0,510,511)"
    //@ obligation C09 C09.unmap_2mib.shape_sym.no_dangling_table_pointer tier=thorough bounded="pool of 7 tables (4 path + 3 allocatable); tree-shaped sparse pre-state (target path, one neighbour word per path table, garbage in allocatable frames); page-table indices (256,0,510,511)"
    //@ obligation C09 C09.unmap_2mib.shape_sym.no_access_outside_page_tables tier=thorough bounded="pool of 7 tables (4 path + 3 allocatable); tree-shaped sparse pre-state (target path, one neighbour word per path table, garbage in allocatable frames); page-table indices (256,0,510,511)"
    //@ obligation C02 C02.unmap_2mib.shape_sym.error_leaves_every_mapping tier=thorough bounded="pool of 7 tables (4 path + 3 allocatable); tree-shaped sparse pre-state (target path, one neighbour word per path table, garbage in allocatable frames); page-table indices (256,0,510,511)"
    #[kani::proof]
    #[kani::stub(PageTable::zero, zero_stub)]
    fn c01_unmap_2mib_sym_up() {
        unmap_step!(Size2MiB, "2mib", "sym", P2_SYM, IDX_UP);
        kani::cover!(true, "c01_unmap_2mib_sym_up: reachable");
    }

    //@ obligation C02 C02.unmap_1gib.shape_p4_absent.error_leaves_every_mapping tier=thorough bounded="pool of 7 tables (4 path + 3 allocatable); tree-shaped sparse pre-state (target path, one neighbour word per path table, garbage in allocatable frames); page-table indices (0,1,511,2)"
    //@ obligation C02 C02.unmap_1gib.shape_p4_absent.documented_outcome tier=thorough bounded="pool of 7 tables (4 path + 3 allocatable); tree-shaped sparse pre-state (target path, one neighbour word per path table, garbage in allocatable frames); page-table indices (0,1,511,2)"
    //@ obligation C01 C01.unmap_1gib.shape_p4_absent.translate_agrees_after tier=thorough bounded="pool of 7 tables (4 path + 3 allocatable); tree-shaped sparse pre-state (target path, one neighbour word per path table, garbage in allocatable frames); page-table indices (0,1,511,2)"
    //@ obligation C09 C09.unmap_1gib.shape_p4_absent.only_dictated_slots_change tier=thorough bounded="pool of 7 tables (4 path + 3 allocatable); tree-shaped sparse pre-state (target path, one neighbour word per path table, garbage in allocatable frames); page-table indices (0,1,511,2)"
    //@ obligation C09 C09.unmap_1gib.shape_p4_absent.no_frames_requested_or_zeroed tier=thorough bounded="pool of 7 tables (4 path + 3 allocatable); tree-shaped sparse pre-state (target path, one neighbour word per path table, garbage in allocatable frames); page-table indices (0,1,511,2)"
    //@ obligation C09 C09.unmap_1gib.shape_p4_absent.no_dangling_table_pointer tier=thorough bounded="pool of 7 tables (4 path + 3 allocatable); tree-shaped sparse pre-state (target path, one neighbour word per path table, garbage in allocatable frames); page-table indices (0,1,511,2)"
    //@ obligation C09 C09.unmap_1gib.shape_p4_absent.no_access_outside_page_tables tier=thorough bounded="pool of 7 tables (4 path + 3 allocatable); tree-shaped sparse pre-state (target path, one neighbour word per path table, garbage in allocatable frames); page-table indices (0,1,511,2)"
    #[kani::proof]
    #[kani::stub(PageTable::zero, zero_stub)]
    fn c01_unmap_1gib_p4_absent_lo() {
        unmap_step!(Size1GiB, "1gib", "p4_absent", P4_ABSENT, IDX_LO);
        kani::cover!(true, "c01_unmap_1gib_p4_absent_lo: reachable");
    }

    //@ obligation C02 C02.unmap_1gib.shape_p4_absent.error_leaves_every_mapping tier=thorough bounded="pool of 7 tables (4 path + 3 allocatable); tree-shaped sparse pre-state (target path, one neighbour word per path table, garbage in allocatable frames); page-table indices (511,510,1,0)"
    //@ obligation C02 C02.unmap_1gib.shape_p4_absent.documented_outcome tier=thorough bounded="pool of 7 tables (4 path + 3 allocatable); tree-shaped sparse pre-state (target path, one neighbour word per path table, garbage in allocatable frames); page-table indices (511,510,1,0)"
    //@ obligation C01 C01.unmap_1gib.shape_p4_absent.translate_agrees_after tier=thorough bounded="pool of 7 tables (4 path + 3 allocatable); tree-shaped sparse pre-state (target path, one neighbour word per path table, garbage in allocatable frames); page-table indices (511,510,1,0)"
    //@ obligation C09 C09.unmap_1gib.shape_p4_absent.only_dictated_slots_change tier=thorough bounded="pool of 7 tables (4 path + 3 allocatable); tree-shaped sparse pre-state (target path, one neighbour word per path table, garbage in allocatable frames); page-table indices (511,510,1,0)"
    //@ obligation C09 C09.unmap_1gib.shape_p4_absent.no_frames_requested_or_zeroed tier=thorough bounded="pool of 7 tables (4 path + 3 allocatable); tree-shaped sparse pre-state (target path, one neighbour word per path table, garbage in allocatable frames); page-table indices (511,510,1,0)"
    //@ obligation C09 C09.unmap_1gib.shape_p4_absent.no_dangling_table_pointer tier=thorough bounded="pool of 7 tables (4 path + 3 allocatable); tree-shaped sparse pre-state (target path, one neighbour word per path table, garbage in allocatable frames); page-table indices (511,510,1,0)"
    //@ obligation C09 C09.unmap_1gib.shape_p4_absent.no_access_outside_page_tables tier=thorough bounded="pool of 7 tables (4 path + 3 allocatable); tree-shaped sparse pre-state (target path, one neighbour word per path table, garbage in allocatable frames); page-table indices (511,510,1,0)"
    #[kani::proof]
    #[kani::stub(PageTable::zero, zero_stub)]
    fn c01_unmap_1gib_p4_absent_hi() {
        unmap_step!(Size1GiB, "1gib", "p4_absent", P4_ABSENT, IDX_HI);
        kani::cover!(true, "c01_unmap_1gib_p4_absent_hi: reachable");
    }

    //@ obligation C02 C02.unmap_1gib.shape_p4_absent.error_leaves_every_mapping bounded="pool of 7 tables (4 path + 3 allocatable); tree-shaped sparse pre-state (target path, one neighbour word per path table, garbage in allocatable frames); page-table indices (255,511,0,256)"
    //@ obligation C02 C02.unmap_1gib.shape_p4_absent.documented_outcome bounded="pool of 7 tables (4 path + 3 allocatable); tree-shaped sparse pre-state (target path, one neighbour word per path table, garbage in allocatable frames); page-table indices (255,511,0,256)"
    //@ obligation C01 C01.unmap_1gib.shape_p4_absent.translate_agrees_after bounded="pool of 7 tables (4 path + 3 allocatable); tree-shaped sparse pre-state (target path, one neighbour word per path table, garbage in allocatable frames); page-table indices (255,511,0,256)"
    //@ obligation C09 C09.unmap_1gib.shape_p4_absent.only_dictated_slots_change bounded="pool of 7 tables (4 path + 3 allocatable); tree-shaped sparse pre-state (target path, one neighbour word per path table, garbage in allocatable frames); page-table indices (255,511,0,256)"
    //@ obligation C09 C09.unmap_1gib.shape_p4_absent.no_frames_requested_or_zeroed bounded="pool of 7 tables (4 path + 3 allocatable); tree-shaped sparse pre-state (target path, one neighbour word per path table, garbage in allocatable frames); page-table indices (255,511,0,256)"
    //@ obligation C09 C09.unmap_1gib.shape_p4_absent.no_dangling_table_pointer bounded="pool of 7 tables (4 path + 3 allocatable); tree-shaped sparse pre-state (target path, one neighbour word per path table, garbage in allocatable frames); page-table indices (255,511,0,256)"
    //@ obligation C09 C09.unmap_1gib.shape_p4_absent.no_access_outside_page_tables bounded="pool of 7 tables (4 path + 3 allocatable); tree-shaped sparse pre-state (target path, one neighbour word per path table, garbage in allocatable frames); page-table indices (255,511,0,256)"
    #[kani::proof]
    #[kani::stub(PageTable::zero, zero_stub)]
    fn c01_unmap_1gib_p4_absent_mid() {
        unmap_step!(Size1GiB, "1gib", "p4_absent", P4_ABSENT, IDX_MID);
        kani::cover!(true, "c01_unmap_1gib_p4_absent_mid: reachable");
    }

    //@ obligation C02 C02.unmap_1gib.shape_p4_absent.error_leaves_every_mapping tier=thorough bounded="pool of 7 tables (4 path + 3 allocatable); tree-shaped sparse pre-state (target path, one neighbour word per path table, garbage in allocatable frames); page-table indices (256,0,510,511)"
    //@ obligation C02 C02.unmap_1gib.shape_p4_absent.documented_outcome tier=thorough bounded="pool of 7 tables (4 path + 3 allocatable); tree-shaped sparse pre-state (target path, one neighbour word per path table, garbage in allocatable frames); page-table indices (256,0,510,511)"
    //@ obligation C01 C01.unmap_1gib.shape_p4_absent.translate_agrees_after tier=thorough bounded="pool of 7 tables (4 path + 3 allocatable); tree-shaped sparse pre-state (target path, one neighbour word per path table, garbage in allocatable frames); page-table indices (256,0,510,511)"
    //@ obligation C09 C09.unmap_1gib.shape_p4_absent.only_dictated_slots_change tier=thorough bounded="pool of 7 tables (4 path + 3 allocatable); tree-shaped sparse pre-state (target path, one neighbour word per path table, garbage in allocatable frames); page-table indices (256,0,510,511)"
    //@ obligation C09 C09.unmap_1gib.shape_p4_absent.no_frames_requested_or_zeroed tier=thorough bounded="pool of 7 tables (4 path + 3 allocatable); tree-shaped sparse pre-state (target path, one neighbour word per path table, garbage in allocatable frames); page-table indices (256,0,510,511)"
    //@ obligation C09 C09.unmap_1gib.shape_p4_absent.no_dangling_table_pointer tier=thorough bounded="pool of 7 tables (4 path + 3 allocatable); tree-shaped sparse pre-state (target path, one neighbour word per path table, garbage in allocatable frames); page-table indices (256,0,510,511)"
    //@ obligation C09 C09.unmap_1gib.shape_p4_absent.no_access_outside_page_tables tier=thorough bounded="pool of 7 tables (4 path + 3 allocatable); tree-shaped sparse pre-state (target path, one neighbour word per path table, garbage in allocatable frames); page-table indices (256,0,510,511)"
    #[kani::proof]
    #[kani::stub(PageTable::zero, zero_stub)]
    fn c01_unmap_1gib_p4_absent_up() {
        unmap_step!(Size1GiB, "1gib", "p4_absent", P4_ABSENT, IDX_UP);
        kani::cover!(true, "c01_unmap_1gib_p4_absent_up: reachable");
    }

    //@ obligation C02 C02.unmap_1gib.shape_p3_absent.error_leaves_every_mapping bounded="pool of 7 tables (4 path + 3 allocatable); tree-shaped sparse pre-state (target path, one neighbour word per path table, garbage in allocatable frames); page-table indices (0,1,511,2)"
    //@ obligation C02 C02.unmap_1gib.shape_p3_absent.documented_outcome bounded="pool of 7 tables (4 path + 3 allocatable); tree-shaped sparse pre-state (target path, one neighbour word per path table, garbage in allocatable frames); page-table indices (0,1,511,2)"
    //@ obligation C01 C01.unmap_1gib.shape_p3_absent.translate_agrees_after bounded="pool of 7 tables (4 path + 3 allocatable); tree-shaped sparse pre-state (target path, one neighbour word per path table, garbage in allocatable frames); page-table indices (0,1,511,2)"
    //@ obligation C09 C09.unmap_1gib.shape_p3_absent.only_dictated_slots_change bounded="pool of 7 tables (4 path + 3 allocatable); tree-shaped sparse pre-state (target path, one neighbour word per path table, garbage in allocatable frames); page-table indices (0,1,511,2)"
    //@ obligation C09 C09.unmap_1gib.shape_p3_absent.no_frames_requested_or_zeroed bounded="pool of 7 tables (4 path + 3 allocatable); tree-shaped sparse pre-state (target path, one neighbour word per path table, garbage in allocatable frames); page-table indices (0,1,511,2)"
    //@ obligation C09 C09.unmap_1gib.shape_p3_absent.no_dangling_table_pointer bounded="pool of 7 tables (4 path + 3 allocatable); tree-shaped sparse pre-state (target path, one neighbour word per path table, garbage in allocatable frames); page-table indices (0,1,511,2)"
    //@ obligation C09 C09.unmap_1gib.shape_p3_absent.no_access_outside_page_tables bounded="pool of 7 tables (4 path + 3 allocatable); tree-shaped sparse pre-state (target path, one neighbour word per path table, garbage in allocatable frames); page-table indices (0,1,511,2)"
    #[kani::proof]
    #[kani::stub(PageTable::zero, zero_stub)]
    fn c01_unmap_1gib_p3_absent_lo() {
        unmap_step!(Size1GiB, "1gib", "p3_absent", P3_ABSENT, IDX_LO);
        kani::cover!(true, "c01_unmap_1gib_p3_absent_lo: reachable");
    }

    //@ obligation C02 C02.unmap_1gib.shape_p3_absent.error_leaves_every_mapping tier=thorough bounded="pool of 7 tables (4 path + 3 allocatable); tree-shaped sparse pre-state (target path, one neighbour word per path table, garbage in allocatable frames); page-table indices (511,510,1,0)"
    //@ obligation C02 C02.unmap_1gib.shape_p3_absent.documented_outcome tier=thorough bounded="pool of 7 tables (4 path + 3 allocatable); tree-shaped sparse pre-state (target path, one neighbour word per path table, garbage in allocatable frames); page-table indices (511,510,1,0)"
    //@ obligation C01 C01.unmap_1gib.shape_p3_absent.translate_agrees_after tier=thorough bounded="pool of 7 tables (4 path + 3 allocatable); tree-shaped sparse pre-state (target path, one neighbour word per path table, garbage in allocatable frames); page-table indices (511,510,1,0)"
    //@ obligation C09 C09.unmap_1gib.shape_p3_absent.only_dictated_slots_change tier=thorough bounded="pool of 7 tables (4 path + 3 allocatable); tree-shaped sparse pre-state (target path, one neighbour word per path table, garbage in allocatable frames); page-table indices (511,510,1,0)"
    //@ obligation C09 C09.unmap_1gib.shape_p3_absent.no_frames_requested_or_zeroed tier=thorough bounded="pool of 7 tables (4 path + 3 allocatable); tree-shaped sparse pre-state (target path, one neighbour word per path table, garbage in allocatable frames); page-table indices (511,510,1,0)"
    //@ obligation C09 C09.unmap_1gib.shape_p3_absent.no_dangling_table_pointer tier=thorough bounded="pool of 7 tables (4 path + 3 allocatable); tree-shaped sparse pre-state (target path, one neighbour word per path table, garbage in allocatable frames); page-table indices (511,510,1,0)"
    //@ obligation C09 C09.unmap_1gib.shape_p3_absent.no_access_outside_page_tables tier=thorough bounded="pool of 7 tables (4 path + 3 allocatable); tree-shaped sparse pre-state (target path, one neighbour word per path table, garbage in allocatable frames); page-table indices (511,510,1,0)"
    #[kani::proof]
    #[kani::stub(PageTable::zero, zero_stub)]
    fn c01_unmap_1gib_p3_absent_hi() {
        unmap_step!(Size1GiB, "1gib", "p3_absent", P3_ABSENT, IDX_HI);
        kani::cover!(true, "c01_unmap_1gib_p3_absent_hi: reachable");
    }

    //@ obligation C02 C02.unmap_1gib.shape_p3_absent.error_leaves_every_mapping tier=thorough bounded="pool of 7 tables (4 path + 3 allocatable); tree-shaped sparse pre-state (target path, one neighbour word per path table, garbage in allocatable frames); page-table indices (255,511,0,256)"
    //@ obligation C02 C02.unmap_1gib.shape_p3_absent.documented_outcome tier=thorough bounded="pool of 7 tables (4 path + 3 allocatable); tree-shaped sparse pre-state (target path, one neighbour word per path table, garbage in allocatable frames); page-table indices (255,511,0,256)"
    //@ obligation C01 C01.unmap_1gib.shape_p3_absent.translate_agrees_after tier=thorough bounded="pool of 7 tables (4 path + 3 allocatable); tree-shaped sparse pre-state (target path, one neighbour word per path table, garbage in allocatable frames); page-table indices (255,511,0,256)"
    //@ obligation C09 C09.unmap_1gib.shape_p3_absent.only_dictated_slots_change tier=thorough bounded="pool of 7 tables (4 path + 3 allocatable); tree-shaped sparse pre-state (target path, one neighbour word per path table, garbage in allocatable frames); page-table indices (255,511,0,256)"
    //@ obligation C09 C09.unmap_1gib.shape_p3_absent.no_frames_requested_or_zeroed tier=thorough bounded="pool of 7 tables (4 path + 3 allocatable); tree-shaped sparse pre-state (target path, one neighbour word per path table, garbage in allocatable frames); page-table indices (255,511,0,256)"
    //@ obligation C09 C09.unmap_1gib.shape_p3_absent.no_dangling_table_pointer tier=thorough bounded="pool of 7 tables (4 path + 3 allocatable); tree-shaped sparse pre-state (target path, one neighbour word per path table, garbage in allocatable frames); page-table indices (255,511,0,256)"
    //@ obligation C09 C09.unmap_1gib.shape_p3_absent.no_access_outside_page_tables tier=thorough bounded="pool of 7 tables (4 path + 3 allocatable); tree-shaped sparse pre-state (target path, one neighbour word per path table, garbage in allocatable frames); page-table indices (255,511,0,256)"
    #[kani::proof]
    #[kani::stub(PageTable::zero, zero_stub)]
    fn c01_unmap_1gib_p3_absent_mid() {
        unmap_step!(Size1GiB, "1gib", "p3_absent", P3_ABSENT, IDX_MID);
        kani::cover!(true, "c01_unmap_1gib_p3_absent_mid: reachable");
    }

    //@ obligation C02 C02.unmap_1gib.shape_p3_absent.error_leaves_every_mapping tier=thorough bounded="pool of 7 tables (4 path + 3 allocatable); tree-shaped sparse pre-state (target path, one neighbour word per path table, garbage in allocatable frames); page-table indices (256,0,510,511)"
    //@ obligation C02 C02.unmap_1gib.shape_p3_absent.documented_outcome tier=thorough bounded="pool of 7 tables (4 path + 3 allocatable); tree-shaped sparse pre-state (target path, one neighbour word per path table, garbage in allocatable frames); page-table indices (256,0,510,511)"
    //@ obligation C01 C01.unmap_1gib.shape_p3_absent.translate_agrees_after tier=thorough bounded="pool of 7 tables (4 path + 3 allocatable); tree-shaped sparse pre-state (target path, one neighbour word per path table, garbage in allocatable frames); page-table indices (256,0,510,511)"
    //@ obligation C09 C09.unmap_1gib.shape_p3_absent.only_dictated_slots_change tier=thorough bounded="pool of 7 tables (4 path + 3 allocatable); tree-shaped sparse pre-state (target path, one neighbour word per path table, garbage in allocatable frames); page-table indices (256,0,510,511)"
    //@ obligation C09 C09.unmap_1gib.shape_p3_absent.no_frames_requested_or_zeroed tier=thorough bounded="pool of 7 tables (4 path + 3 allocatable); tree-shaped sparse pre-state (target path, one neighbour word per path table, garbage in allocatable frames); page-table indices (256,0,510,511)"
    //@ obligation C09 C09.unmap_1gib.shape_p3_absent.no_dangling_table_pointer tier=thorough bounded="pool of 7 tables (4 path + 3 allocatable); tree-shaped sparse pre-state (target path, one neighbour word per path table, garbage in allocatable frames); page-table indices (256,0,510,511)"
    //@ obligation C09 C09.unmap_1gib.shape_p3_absent.no_access_outside_page_tables tier=thorough bounded="pool of 7 tables (4 path + 3 allocatable); tree-shaped sparse pre-state (target path, one neighbour word per path table, garbage in allocatable frames); page-table indices (256,0,510,511)"
    #[kani::proof]
    #[kani::stub(PageTable::zero, zero_stub)]
    fn c01_unmap_1gib_p3_absent_up() {
        unmap_step!(Size1GiB, "1gib", "p3_absent", P3_ABSENT, IDX_UP);
        kani::cover!(true, "c01_unmap_1gib_p3_absent_up: reachable");
    }

    //@ obligation C01 C01.unmap_1gib.shape_p3_huge.returns_mapped_frame tier=thorough bounded="pool of 7 tables (4 path + 3 allocatable); tree-shaped sparse pre-state (target path, one neighbour word per path table, garbage in allocatable frames); page-table indices (0,1,511,2)"
    //@ obligation C01 C01.unmap_1gib.shape_p3_huge.target_not_mapped_after tier=thorough bounded="pool of 7 tables (4 path + 3 allocatable); tree-shaped sparse pre-state (target path, one neighbour word per path table, garbage in allocatable frames); page-table indices (0,1,511,2)"
    //@ obligation C11 C11.unmap_1gib.shape_p3_huge.target_not_mapped_after tier=thorough bounded="pool of 7 tables (4 path + 3 allocatable); tree-shaped sparse pre-state (target path, one neighbour word per path table, garbage in allocatable frames); page-table indices (0,1,511,2)"
    //@ obligation C01 C01.unmap_1gib.shape_p3_huge.other_addresses_unchanged tier=thorough bounded="pool of 7 tables (4 path + 3 allocatable); tree-shaped sparse pre-state (target path, one neighbour word per path table, garbage in allocatable frames); page-table indices (0,1,511,2)"
    //@ obligation C11 C11.unmap_1gib.shape_p3_huge.other_addresses_unchanged tier=thorough bounded="pool of 7 tables (4 path + 3 allocatable); tree-shaped sparse pre-state (target path, one neighbour word per path table, garbage in allocatable frames); page-table indices (0,1,511,2)"
    //@ obligation C01 C01.unmap_1gib.shape_p3_huge.result_reports_page tier=thorough bounded="pool of 7 tables (4 path + 3 allocatable); tree-shaped sparse pre-state (target path, one neighbour word per path table, garbage in allocatable frames); page-table indices (0,1,511,2)"
    //@ obligation C11 C11.unmap_1gib.shape_p3_huge.token_names_page tier=thorough bounded="pool of 7 tables (4 path + 3 allocatable); tree-shaped sparse pre-state (target path, one neighbour word per path table, garbage in allocatable frames); page-table indices (0,1,511,2)"
    //@ obligation C02 C02.unmap_1gib.shape_p3_huge.documented_outcome tier=thorough bounded="pool of 7 tables (4 path + 3 allocatable); tree-shaped sparse pre-state (target path, one neighbour word per path table, garbage in allocatable frames); page-table indices (0,1,511,2)"
    //@ obligation C01 C01.unmap_1gib.shape_p3_huge.translate_agrees_after tier=thorough bounded="pool of 7 tables (4 path + 3 allocatable); tree-shaped sparse pre-state (target path, one neighbour word per path table, garbage in allocatable frames); page-table indices (0,1,511,2)"
    //@ obligation C09 C09.unmap_1gib.shape_p3_huge.only_dictated_slots_change tier=thorough bounded="pool of 7 tables (4 path + 3 allocatable); tree-shaped sparse pre-state (target path, one neighbour word per path table, garbage in allocatable frames); page-table indices (0,1,511,2)"
    //@ obligation C09 C09.unmap_1gib.shape_p3_huge.no_frames_requested_or_zeroed tier=thorough bounded="pool of 7 tables (4 path + 3 allocatable); tree-shaped sparse pre-state (target path, one neighbour word per path table, garbage in allocatable frames); page-table indices (0,1,511,2)"
    //@ obligation C09 C09.unmap_1gib.shape_p3_huge.no_dangling_table_pointer tier=thorough bounded="pool of 7 tables (4 path + 3 allocatable); tree-shaped sparse pre-state (target path, one neighbour word per path table, garbage in allocatable frames); page-table indices (0,1,511,2)"
    //@ obligation C09 C09.unmap_1gib.shape_p3_huge.no_access_outside_page_tables tier=thorough bounded="pool of 7 tables (4 path + 3 allocatable); tree-shaped sparse pre-state (target path, one neighbour word per path table, garbage in allocatable frames); page-table indices (0,1,511,2)"
    #[kani::proof]
    #[kani::stub(PageTable::zero, zero_stub)]
    fn c01_unmap_1gib_p3_huge_lo() {
        unmap_step!(Size1GiB, "1gib", "p3_huge", P3_HUGE, IDX_LO);
        kani::cover!(true, "c01_unmap_1gib_p3_huge_lo: reachable");
    }

    //@ obligation C01 C01.unmap_1gib.shape_p3_huge.returns_mapped_frame tier=thorough bounded="pool of 7 tables (4 path + 3 allocatable); tree-shaped sparse pre-state (target path, one neighbour word per path table, garbage in allocatable frames); page-table indices (511,510,1,0)"
    //@ obligation C01 C01.unmap_1gib.shape_p3_huge.target_not_mapped_after tier=thorough bounded="pool of 7 tables (4 path + 3 allocatable); tree-shaped sparse pre-state (target path, one neighbour word per path table, garbage in allocatable frames); page-table indices (511,510,1,0)"
    //@ obligation C11 C11.unmap_1gib.shape_p3_huge.target_not_mapped_after tier=thorough bounded="pool of 7 tables (4 path + 3 allocatable); tree-shaped sparse pre-state (target path, one neighbour word per path table, garbage in allocatable frames); page-table indices (511,510,1,0)"
    //@ obligation C01 C01.unmap_1gib.shape_p3_huge.other_addresses_unchanged tier=thorough bounded="pool of 7 tables (4 path + 3 allocatable); tree-shaped sparse pre-state (target path, one neighbour word per path table, garbage in allocatable frames); page-table indices (511,510,1,0)"
    //@ obligation C11 C11.unmap_1gib.shape_p3_huge.other_addresses_unchanged tier=thorough bounded="pool of 7 tables (4 path + 3 allocatable); tree-shaped sparse pre-state (target path, one neighbour word per path table, garbage in allocatable frames); page-table indices (511,510,1,0)"
    //@ obligation C01 C01.unmap_1gib.shape_p3_huge.result_reports_page tier=thorough bounded="pool of 7 tables (4 path + 3 allocatable); tree-shaped sparse pre-state (target path, one neighbour word per path table, garbage in allocatable frames); page-table indices (511,510,1,0)"
    //@ obligation C11 C11.unmap_1gib.shape_p3_huge.token_names_page tier=thorough bounded="pool of 7 tables (4 path + 3 allocatable); tree-shaped sparse pre-state (target path, one neighbour word per path table, garbage in allocatable frames); page-table indices (511,510,1,0)"
    //@ obligation C02 C02.unmap_1gib.shape_p3_huge.documented_outcome tier=thorough bounded="pool of 7 tables (4 path + 3 allocatable); tree-shaped sparse pre-state (target path, one neighbour word per path table, garbage in allocatable frames); page-table indices (511,510,1,0)"
    //@ obligation C01 C01.unmap_1gib.shape_p3_huge.translate_agrees_after tier=thorough bounded="pool of 7 tables (4 path + 3 allocatable); tree-shaped sparse pre-state (target path, one neighbour word per path table, garbage in allocatable frames); page-table indices (511,510,1,0)"
    //@ obligation C09 C09.unmap_1gib.shape_p3_huge.only_dictated_slots_change tier=thorough bounded="pool of 7 tables (4 path + 3 allocatable); tree-shaped sparse pre-state (target path, one neighbour word per path table, garbage in allocatable frames); page-table indices (511,510,1,0)"
    //@ obligation C09 C09.unmap_1gib.shape_p3_huge.no_frames_requested_or_zeroed tier=thorough bounded="pool of 7 tables (4 path + 3 allocatable); tree-shaped sparse pre-state (target path, one neighbour word per path table, garbage in allocatable frames); page-table indices (511,510,1,0)"
    //@ obligation C09 C09.unmap_1gib.shape_p3_huge.no_dangling_table_pointer tier=thorough bounded="pool of 7 tables (4 path + 3 allocatable); tree-shaped sparse pre-state (target path, one neighbour word per path table, garbage in allocatable frames); page-table indices (511,510,1,0)"
    //@ obligation C09 C09.unmap_1gib.shape_p3_huge.no_access_outside_page_tables tier=thorough bounded="pool of 7 tables (4 path + 3 allocatable); tree-shaped sparse pre-state (target path, one neighbour word per path table, garbage in allocatable frames); page-table indices (511,510,1,0)"
    #[kani::proof]
    #[kani::stub(PageTable::zero, zero_stub)]
    fn c01_unmap_1gib_p3_huge_hi() {
        unmap_step!(Size1GiB, "1gib", "p3_huge", P3_HUGE, IDX_HI);
        kani::cover!(true, "c01_unmap_1gib_p3_huge_hi: reachable");
    }

    //@ obligation C01 C01.unmap_1gib.shape_p3_huge.returns_mapped_frame tier=thorough bounded="pool of 7 tables (4 path + 3 allocatable); tree-shaped sparse pre-state (target path, one neighbour word per path table, garbage in allocatable frames); page-table indices (255,511,0,256)"
    //@ obligation C01 C01.unmap_1gib.shape_p3_huge.target_not_mapped_after tier=thorough bounded="pool of 7 tables (4 path + 3 allocatable); tree-shaped sparse pre-state (target path, one neighbour word per path table, garbage in allocatable frames); page-table indices (255,511,0,256)"
    //@ obligation C11 C11.unmap_1gib.shape_p3_huge.target_not_mapped_after tier=thorough bounded="pool of 7 tables (4 path + 3 allocatable); tree-shaped sparse pre-state (target path, one neighbour word per path table, garbage in allocatable frames); page-table indices (255,511,0,256)"
    //@ obligation C01 C01.unmap_1gib.shape_p3_huge.other_addresses_unchanged tier=thorough bounded="pool of 7 tables (4 path + 3 allocatable); tree-shaped sparse pre-state (target path, one neighbour word per path table, garbage in allocatable frames); page-table indices (255,511,0,256)"
    //@ obligation C11 C11.unmap_1gib.shape_p3_huge.other_addresses_unchanged tier=thorough bounded="pool of 7 tables (4 path + 3 allocatable); tree-shaped sparse pre-state (target path, one neighbour word per path table, garbage in allocatable frames); page-table indices (255,511,0,256)"
    //@ obligation C01 C01.unmap_1gib.shape_p3_huge.result_reports_page tier=thorough bounded="pool of 7 tables (4 path + 3 allocatable); tree-shaped sparse pre-state (target path, one neighbour word per path table, garbage in allocatable frames); page-table indices (255,511,0,256)"
    //@ obligation C11 C11.unmap_1gib.shape_p3_huge.token_names_page tier=thorough bounded="pool of 7 tables (4 path + 3 allocatable); tree-shaped sparse pre-state (target path, one neighbour word per path table, garbage in allocatable frames); page-table indices (255,511,0,256)"
    //@ obligation C02 C02.unmap_1gib.shape_p3_huge.documented_outcome tier=thorough bounded="pool of 7 tables (4 path + 3 allocatable); tree-shaped sparse pre-state (target path, one neighbour word per path table, garbage in allocatable frames); page-table indices (255,511,0,256)"
    //@ obligation C01 C01.unmap_1gib.shape_p3_huge.translate_agrees_after tier=thorough bounded="pool of 7 tables (4 path + 3 allocatable); tree-shaped sparse pre-state (target path, one neighbour word per path table, garbage in allocatable frames); page-table indices (255,511,0,256)"
    //@ obligation C09 C09.unmap_1gib.shape_p3_huge.only_dictated_slots_change tier=thorough bounded="pool of 7 tables (4 path + 3 allocatable); tree-shaped sparse pre-state (target path, one neighbour word per path table, garbage in allocatable frames); page-table indices (255,511,0,256)"
    //@ obligation C09 C09.unmap_1gib.shape_p3_huge.no_frames_requested_or_zeroed tier=thorough bounded="pool of 7 tables (4 path + 3 allocatable); tree-shaped sparse pre-state (target path, one neighbour word per path table, garbage in allocatable frames); page-table indices (255,511,0,256)"
    //@ obligation C09 C09.unmap_1gib.shape_p3_huge.no_dangling_table_pointer tier=thorough bounded="pool of 7 tables (4 path + 3 allocatable); tree-shaped sparse pre-state (target path, one neighbour word per path table, garbage in allocatable frames); page-table indices (255,511,0,256)"
    //@ obligation C09 C09.unmap_1gib.shape_p3_huge.no_access_outside_page_tables tier=thorough bounded="pool of 7 tables (4 path + 3 allocatable); tree-shaped sparse pre-state (target path, one neighbour word per path table, garbage in allocatable frames); page-table indices (255,511,0,256)"
    #[kani::proof]
    #[kani::stub(PageTable::zero, zero_stub)]
    fn c01_unmap_1gib_p3_huge_mid() {
        unmap_step!(Size1GiB, "1gib", "p3_huge", P3_HUGE, IDX_MID);
        kani::cover!(true, "c01_unmap_1gib_p3_huge_mid: reachable");
    }

    //@ obligation C01 C01.unmap_1gib.shape_p3_huge.returns_mapped_frame bounded="pool of 7 tables (4 path + 3 allocatable); tree-shaped sparse pre-state (target path, one neighbour word per path table, garbage in allocatable frames); page-table indices (256,0,510,511)"
    //@ obligation C01 C01.unmap_1gib.shape_p3_huge.target_not_mapped_after bounded="pool of 7 tables (4 path + 3 allocatable); tree-shaped sparse pre-state (target path, one neighbour word per path table, garbage in allocatable frames); page-table indices (256,0,510,511)"
    //@ obligation C11 C11.unmap_1gib.shape_p3_huge.target_not_mapped_after bounded="pool of 7 tables (4 path + 3 allocatable); tree-shaped sparse pre-state (target path, one neighbour word per path table, garbage in allocatable frames); page-table indices (256,0,510,511)"
    //@ obligation C01 C01.unmap_1gib.shape_p3_huge.other_addresses_unchanged bounded="pool of 7 tables (4 path + 3 allocatable); tree-shaped sparse pre-state (target path, one neighbour word per path table, garbage in allocatable frames); page-table indices (256,0,510,511)"
    //@ obligation C11 C11.unmap_1gib.shape_p3_huge.other_addresses_unchanged bounded="pool of 7 tables (4 path + 3 allocatable); tree-shaped sparse pre-state (target path, one neighbour word per path table, garbage in allocatable frames); page-table indices (256,0,510,511)"
    //@ obligation C01 C01.unmap_1gib.shape_p3_huge.result_reports_page bounded="pool of 7 tables (4 path + 3 allocatable); tree-shaped sparse pre-state (target path, one neighbour word per path table, garbage in allocatable frames); page-table indices (256,0,510,511)"
    //@ obligation C11 C11.unmap_1gib.shape_p3_huge.token_names_page bounded="pool of 7 tables (4 path + 3 allocatable); tree-shaped sparse pre-state (target path, one neighbour word per path table, garbage in allocatable frames); page-table indices (256,0,510,511)"
    //@ obligation C02 C02.unmap_1gib.shape_p3_huge.documented_outcome bounded="pool of 7 tables (4 path + 3 allocatable); tree-shaped sparse pre-state (target path, one neighbour word per path table, garbage in allocatable frames); page-table indices (256,0,510,511)"
    //@ obligation C01 C01.unmap_1gib.shape_p3_huge.translate_agrees_after bounded="pool of 7 tables (4 path + 3 allocatable); tree-shaped sparse pre-state (target path, one neighbour word per path table, garbage in allocatable frames); page-table indices (256,0,510,511)"
    //@ obligation C09 C09.unmap_1gib.shape_p3_huge.only_dictated_slots_change bounded="pool of 7 tables (4 path + 3 allocatable); tree-shaped sparse pre-state (target path, one neighbour word per path table, garbage in allocatable frames); page-table indices (256,0,510,511)"
    //@ obligation C09 C09.unmap_1gib.shape_p3_huge.no_frames_requested_or_zeroed bounded="pool of 7 tables (4 path + 3 allocatable); tree-shaped sparse pre-state (target path, one neighbour word per path table, garbage in allocatable frames); page-table indices (256,0,510,511)"
    //@ obligation C09 C09.unmap_1gib.shape_p3_huge.no_dangling_table_pointer bounded="pool of 7 tables (4 path + 3 allocatable); tree-shaped sparse pre-state (target path, one neighbour word per path table, garbage in allocatable frames); page-table indices (256,0,510,511)"
    //@ obligation C09 C09.unmap_1gib.shape_p3_huge.no_access_outside_page_tables bounded="pool of 7 tables (4 path + 3 allocatable); tree-shaped sparse pre-state (target path, one neighbour word per path table, garbage in allocatable frames); page-table indices (256,0,510,511)"
    #[kani::proof]
    #[kani::stub(PageTable::zero, zero_stub)]
    fn c01_unmap_1gib_p3_huge_up() {
        unmap_step!(Size1GiB, "1gib", "p3_huge", P3_HUGE, IDX_UP);
        kani::cover!(true, "c01_unmap_1gib_p3_huge_up: reachable");
    }

    //@ obligation C02 C02.unmap_1gib.shape_table_entry.no_success_for_nonexistent_size tier=thorough bounded="pool of 7 tables (4 path + 3 allocatable); tree-shaped sparse pre-state (target path, one neighbour word per path table, garbage in allocatable frames); page-table indices (0,1,511,2)"
    //@ obligation C02 C02.unmap_1gib.shape_table_entry.error_leaves_every_mapping tier=thorough bounded="pool of 7 tables (4 path + 3 allocatable); tree-shaped sparse pre-state (target path, one neighbour word per path table, garbage in allocatable frames); page-table indices (0,1,511,2)"
    //@ obligation C02 C02.unmap_1gib.shape_table_entry.documented_outcome tier=thorough bounded="pool of 7 tables (4 path + 3 allocatable); tree-shaped sparse pre-state (target path, one neighbour word per path table, garbage in allocatable frames); page-table indices (0,1,511,2)"
    //@ obligation C01 C01.unmap_1gib.shape_table_entry.translate_agrees_after tier=thorough bounded="pool of 7 tables (4 path + 3 allocatable); tree-shaped sparse pre-state (target path, one neighbour word per path table, garbage in allocatable frames); page-table indices (0,1,511,2)"
    //@ obligation C09 C09.unmap_1gib.shape_table_entry.only_dictated_slots_change tier=thorough bounded="pool of 7 tables (4 path + 3 allocatable); tree-shaped sparse pre-state (target path, one neighbour word per path table, garbage in allocatable frames); page-table indices (0,1,511,2)"
    //@ obligation C09 C09.unmap_1gib.shape_table_entry.no_frames_requested_or_zeroed tier=thorough bounded="pool of 7 tables (4 path + 3 allocatable); tree-shaped sparse pre-state (target path, one neighbour word per path table, garbage in allocatable frames); page-table indices (0,1,511,2)"
    //@ obligation C09 C09.unmap_1gib.shape_table_entry.no_dangling_table_pointer tier=thorough bounded="pool of 7 tables (4 path + 3 allocatable); tree-shaped sparse pre-state (target path, one neighbour word per path table, garbage in allocatable frames); page-table indices (0,1,511,2)"
    //@ obligation C09 C09.unmap_1gib.shape_table_entry.no_access_outside_page_tables tier=thorough bounded="pool of 7 tables (4 path + 3 allocatable); tree-shaped sparse pre-state (target path, one neighbour word per path table, garbage in allocatable frames); page-table indices (0,1,511,2)"
    #[kani::proof]
    #[kani::stub(PageTable::zero, zero_stub)]
    fn c01_unmap_1gib_table_entry_lo() {
        unmap_step!(Size1GiB, "1gib", "table_entry", P3_TABLE, IDX_LO);
        kani::cover!(true, "c01_unmap_1gib_table_entry_lo: reachable");
    }

    //@ obligation C02 C02.unmap_1gib.shape_table_entry.no_success_for_nonexistent_size tier=thorough bounded="pool of 7 tables (4 path + 3 allocatable); tree-shaped sparse pre-state (target path, one neighbour word per path table, garbage in allocatable frames); page-table indices (511,510,1,0)"
    //@ obligation C02 C02.unmap_1gib.shape_table_entry.error_leaves_every_mapping tier=thorough bounded="pool of 7 tables (4 path + 3 allocatable); tree-shaped sparse pre-state (target path, one neighbour word per path table, garbage in allocatable frames); page-table indices (511,510,1,0)"
    //@ obligation C02 C02.unmap_1gib.shape_table_entry.documented_outcome tier=thorough bounded="pool of 7 tables (4 path + 3 allocatable); tree-shaped sparse pre-state (target path, one neighbour word per path table, garbage in allocatable frames); page-table indices (511,510,1,0)"
    //@ obligation C01 C01.unmap_1gib.shape_table_entry.translate_agrees_after tier=thorough bounded="pool of 7 tables (4 path + 3 allocatable); tree-shaped sparse pre-state (target path, one neighbour word per path table, garbage in allocatable frames); page-table indices (511,510,1,0)"
    //@ obligation C09 C09.unmap_1gib.shape_table_entry.only_dictated_slots_change tier=thorough bounded="pool of 7 tables (4 path + 3 allocatable); tree-shaped sparse pre-state (target path, one neighbour word per path table, garbage in allocatable frames); page-table indices (511,510,1,0)"
    //@ obligation C09 C09.unmap_1gib.shape_table_entry.no_frames_requested_or_zeroed tier=thorough bounded="pool of 7 tables (4 path + 3 allocatable); tree-shaped sparse pre-state (target path, one neighbour word per path table, garbage in allocatable frames); page-table indices (511,510,1,0)"
    //@ obligation C09 C09.unmap_1gib.shape_table_entry.no_dangling_table_pointer tier=thorough bounded="pool of 7 tables (4 path + 3 allocatable); tree-shaped sparse pre-state (target path, one neighbour word per path table, garbage in allocatable frames); page-table indices (511,510,1,0)"
    //@ obligation C09 C09.unmap_1gib.shape_table_entry.no_access_outside_page_tables tier=thorough bounded="pool of 7 tables (4 path + 3 allocatable); tree-shaped sparse pre-state (target path, one neighbour word per path table, garbage in allocatable frames); page-table indices (511,510,1,0)"
    #[kani::proof]
    #[kani::stub(PageTable::zero, zero_stub)]
    fn c01_unmap_1gib_table_entry_hi() {
        unmap_step!(Size1GiB, "1gib", "table_entry", P3_TABLE, IDX_HI);
        kani::cover!(true, "c01_unmap_1gib_table_entry_hi: reachable");
    }

    //@ obligation C02 C02.unmap_1gib.shape_table_entry.no_success_for_nonexistent_size bounded="pool of 7 tables (4 path + 3 allocatable); tree-shaped sparse pre-state (target path, one neighbour word per path table, garbage in allocatable frames); page-table indices (255,511,0,256)"
    //@ obligation C02 C02.unmap_1gib.shape_table_entry.error_leaves_every_mapping bounded="pool of 7 tables (4 path + 3 allocatable); tree-shaped sparse pre-state (target path, one neighbour word per path table, garbage in allocatable frames); page-table indices (255,511,0,256)"
    //@ obligation C02 C02.unmap_1gib.shape_table_entry.documented_outcome bounded="pool of 7 tables (4 path + 3 allocatable); tree-shaped sparse pre-state (target path, one neighbour word per path table, garbage in allocatable frames); page-table indices (255,511,0,256)"
    //@ obligation C01 C01.unmap_1gib.shape_table_entry.translate_agrees_after bounded="pool of 7 tables (4 path + 3 allocatable); tree-shaped sparse pre-state (target path, one neighbour word per path table, garbage in allocatable frames); page-table indices (255,511,0,256)"
    //@ obligation C09 C09.unmap_1gib.shape_table_entry.only_dictated_slots_change bounded="pool of 7 tables (4 path + 3 allocatable); tree-shaped sparse pre-state (target path, one neighbour word per path table, garbage in allocatable frames); page-table indices (255,511,0,256)"
    //@ obligation C09 C09.unmap_1gib.shape_table_entry.no_frames_requested_or_zeroed bounded="pool of 7 tables (4 path + 3 allocatable); tree-shaped sparse pre-state (target path, one neighbour word per path table, garbage in allocatable frames); page-table indices (255,511,0,256)"
    //@ obligation C09 C09.unmap_1gib.shape_table_entry.no_dangling_table_pointer bounded="pool of 7 tables (4 path + 3 allocatable); tree-shaped sparse pre-state (target path, one neighbour word per path table, garbage in allocatable frames); page-table indices (255,511,0,256)"
    //@ obligation C09 C09.unmap_1gib.shape_table_entry.no_access_outside_page_tables bounded="pool of 7 tables (4 path + 3 allocatable); tree-shaped sparse pre-state (target path, one neighbour word per path table, garbage in allocatable frames); page-table indices (255,511,0,256)"
    #[kani::proof]
    #[kani::stub(PageTable::zero, zero_stub)]
    fn c01_unmap_1gib_table_entry_mid() {
        unmap_step!(Size1GiB, "1gib", "table_entry", P3_TABLE, IDX_MID);
        kani::cover!(true, "c01_unmap_1gib_table_entry_mid: reachable");
    }

    //@ obligation C02 C02.unmap_1gib.shape_table_entry.no_success_for_nonexistent_size bounded="pool of 7 tables (4 path + 3 allocatable); tree-shaped sparse pre-state (target path, one neighbour word per path table, garbage in allocatable frames); page-table indices (256,0,510,511)"
    //@ obligation C02 C02.unmap_1gib.shape_table_entry.error_leaves_every_mapping bounded="pool of 7 tables (4 path + 3 allocatable); tree-shaped sparse pre-state (target path, one neighbour word per path table, garbage in allocatable frames); page-table indices (256,0,510,511)"
    //@ obligation C02 C02.unmap_1gib.shape_table_entry.documented_outcome bounded="pool of 7 tables (4 path + 3 allocatable); tree-shaped sparse pre-state (target path, one neighbour word per path table, garbage in allocatable frames); page-table indices (256,0,510,511)"
    //@ obligation C01 C01.unmap_1gib.shape_table_entry.translate_agrees_after bounded="pool of 7 tables (4 path + 3 allocatable); tree-shaped sparse pre-state (target path, one neighbour word per path table, garbage in allocatable frames); page-table indices (256,0,510,511)"
    //@ obligation C09 C09.unmap_1gib.shape_table_entry.only_dictated_slots_change bounded="pool of 7 tables (4 path + 3 allocatable); tree-shaped sparse pre-state (target path, one neighbour word per path table, garbage in allocatable frames); page-table indices (256,0,510,511)"
    //@ obligation C09 C09.unmap_1gib.shape_table_entry.no_frames_requested_or_zeroed bounded="pool of 7 tables (4 path + 3 allocatable); tree-shaped sparse pre-state (target path, one neighbour word per path table, garbage in allocatable frames); page-table indices (256,0,510,511)"
    //@ obligation C09 C09.unmap_1gib.shape_table_entry.no_dangling_table_pointer bounded="pool of 7 tables (4 path + 3 allocatable); tree-shaped sparse pre-state (target path, one neighbour word per path table, garbage in allocatable frames); page-table indices (256,0,510,511)"
    //@ obligation C09 C09.unmap_1gib.shape_table_entry.no_access_outside_page_tables bounded="pool of 7 tables (4 path + 3 allocatable); tree-shaped sparse pre-state (target path, one neighbour word per path table, garbage in allocatable frames); page-table indices (256,0,510,511)"
    #[kani::proof]
    #[kani::stub(PageTable::zero, zero_stub)]
    fn c01_unmap_1gib_table_entry_up() {
        unmap_step!(Size1GiB, "1gib", "table_entry", P3_TABLE, IDX_UP);
        kani::cover!(true, "c01_unmap_1gib_table_entry_up: reachable");
    }

    //@ obligation C01 C01.unmap_1gib.shape_sym.returns_mapped_frame tier=thorough bounded="pool of 7 tables (4 path + 3 allocatable); tree-shaped sparse pre-state (target path, one neighbour word per path table, garbage in allocatable frames); page-table indices (0,1,511,2)"
    //@ obligation C01 C01.unmap_1gib.shape_sym.target_not_mapped_after tier=thorough bounded="pool of 7 tables (4 path + 3 allocatable); tree-shaped sparse pre-state (target path, one neighbour word per path table, garbage in allocatable frames); page-table indices (0,1,511,2)"
    //@ obligation C11 C11.unmap_1gib.shape_sym.target_not_mapped_after tier=thorough bounded="pool of 7 tables (4 path + 3 allocatable); tree-shaped sparse pre-state (target path, one neighbour word per path table, garbage in allocatable frames); page-table indices (0,1,511,2)"
    //@ obligation C01 C01.unmap_1gib.shape_sym.other_addresses_unchanged tier=thorough bounded="pool of 7 tables (4 path + 3 allocatable); tree-shaped sparse pre-state (target path, one neighbour word per path table, garbage in allocatable frames); page-table indices (0,1,511,2)"
    //@ obligation C11 C11.unmap_1gib.shape_sym.other_addresses_unchanged tier=thorough bounded="pool of 7 tables (4 path + 3 allocatable); tree-shaped sparse pre-state (target path, one neighbour word per path table, garbage in allocatable frames); page-table indices (0,1,511,2)"
    //@ obligation C01 C01.unmap_1gib.shape_sym.result_reports_page tier=thorough bounded="pool of 7 tables (4 path + 3 allocatable); tree-shaped sparse pre-state (target path, one neighbour word per path table, garbage in allocatable frames); page-table indices (0,1,511,2)"
    //@ obligation C11 C11.unmap_1gib.shape_sym.token_names_page tier=thorough bounded="pool of 7 tables (4 path + 3 allocatable); tree-shaped sparse pre-state (target path, one neighbour word per path table, garbage in allocatable frames); page-table indices (0,1,511,2)"
    //@ obligation C02 C02.unmap_1gib.shape_sym.documented_outcome tier=thorough bounded="pool of 7 tables (4 path + 3 allocatable); tree-shaped sparse pre-state (target path, one neighbour word per path table, garbage in allocatable frames); page-table indices (0,1,511,2)"
    //@ obligation C01 C01.unmap_1gib.shape_sym.translate_agrees_after tier=thorough bounded="pool of 7 tables (4 path + 3 allocatable); tree-shaped sparse pre-state (target path, one neighbour word per path table, garbage in allocatable frames); page-table indices (0,1,511,2)"
    //@ obligation C09 C09.unmap_1gib.shape_sym.only_dictated_slots_change tier=thorough bounded="pool of 7 tables (4 path + 3 allocatable); tree-shaped sparse pre-state (target path, one neighbour word per path table, garbage in allocatable frames); page-table indices (0,1,511,2)"
    //@ obligation C09 C09.unmap_1gib.shape_sym.no_frames_requested_or_zeroed tier=thorough bounded="pool of 7 tables (4 path + 3 allocatable); tree-shaped sparse pre-state (target path, one neighbour word per path table, garbage in allocatable frames); page-table indices (0,1,511,2)"
    //@ obligation C09 C09.unmap_1gib.shape_sym.no_dangling_table_pointer tier=thorough bounded="pool of 7 tables (4 path + 3 allocatable); tree-shaped sparse pre-state (target path, one neighbour word per path table, garbage in allocatable frames); page-table indices (0,1,511,2)"
    //@ obligation C09 C09.unmap_1gib.shape_sym.no_access_outside_page_tables tier=thorough bounded="pool of 7 tables (4 path + 3 allocatable); tree-shaped sparse pre-state (target path, one neighbour word per path table, garbage in allocatable frames); page-table indices (0,1,511,2)"
    //@ obligation C02 C02.unmap_1gib.shape_sym.error_leaves_every_mapping tier=thorough bounded="pool of 7 tables (4 path + 3 allocatable); tree-shaped sparse pre-state (target path, one neighbour word per path table, garbage in allocatable frames); page-table indices (0,1,511,2)"
    #[kani::proof]
    #[kani::stub(PageTable::zero, zero_stub)]
    fn c01_unmap_1gib_sym_lo() {
        unmap_step!(Size1GiB, "1gib", "sym", P3_SYM, IDX_LO);
        kani::cover!(true, "c01_unmap_1gib_sym_lo: reachable");
    }

    //@ obligation C01 C01.unmap_1gib.shape_sym.returns_mapped_frame tier=thorough bounded="pool of 7 tables (4 path + 3 allocatable); tree-shaped sparse pre-state (target path, one neighbour word per path table, garbage in allocatable frames); page-table indices (511,510,1,0)"
    //@ obligation C01 C01.unmap_1gib.shape_sym.target_not_mapped_after tier=thorough bounded="pool of 7 tables (4 path + 3 allocatable); tree-shaped sparse pre-state (target path, one neighbour word per path table, garbage in allocatable frames); page-table indices (511,510,1,0)"
    //@ obligation C11 C11.unmap_1gib.shape_sym.target_not_mapped_after tier=thorough bounded="pool of 7 tables (4 path + 3 allocatable); tree-shaped sparse pre-state (target path, one neighbour word per path table, garbage in allocatable frames); page-table indices (511,510,1,0)"
    //@ obligation C01 C01.unmap_1gib.shape_sym.other_addresses_unchanged tier=thorough bounded="pool of 7 tables (4 path + 3 allocatable); tree-shaped sparse pre-state (target path, one neighbour word per path table, garbage in allocatable frames); page-table indices (511,510,1,0)"
    //@ obligation C11 C11.unmap_1gib.shape_sym.other_addresses_unchanged tier=thorough bounded="pool of 7 tables (4 path + 3 allocatable); tree-shaped sparse pre-state (target path, one neighbour word per path table, garbage in allocatable frames); page-table indices (511,510,1,0)"
    //@ obligation C01 C01.unmap_1gib.shape_sym.result_reports_page tier=thorough bounded="pool of 7 tables (4 path + 3 allocatable); tree-shaped sparse pre-state (target path, one neighbour word per path table, garbage in allocatable frames); page-table indices (511,510,1,0)"
    //@ obligation C11 C11.unmap_1gib.shape_sym.token_names_page tier=thorough bounded="pool of 7 tables (4 path + 3 allocatable); tree-shaped sparse pre-state (target path, one neighbour word per path table, garbage in allocatable frames); page-table indices (511,510,1,0)"
    //@ obligation C02 C02.unmap_1gib.shape_sym.documented_outcome tier=thorough bounded="pool of 7 tables (4 path + 3 allocatable); tree-shaped sparse pre-state (target path, one neighbour word per path table, garbage in allocatable frames); page-table indices (511,510,1,0)"
    //@ obligation C01 C01.unmap_1gib.shape_sym.translate_agrees_after tier=thorough bounded="pool of 7 tables (4 path + 3 allocatable); tree-shaped sparse pre-state (target path, one neighbour word per path table, garbage in allocatable frames); page-table indices (511,510,1,0)"
    //@ obligation C09 C09.unmap_1gib.shape_sym.only_dictated_slots_change tier=thorough bounded="pool of 7 tables (4 path + 3 allocatable); tree-shaped sparse pre-state (target path, one neighbour word per path table, garbage in allocatable frames); page-table indices (511,510,1,0)"
    //@ obligation C09 C09.unmap_1gib.shape_sym.no_frames_requested_or_zeroed tier=thorough bounded="pool of 7 tables (4 path + 3 allocatable); tree-shaped sparse pre-state (target path, one neighbour word per path table, garbage in allocatable frames); page-table indices (511,510,1,0)"
    //@ obligation C09 C09.unmap_1gib.shape_sym.no_dangling_table_pointer tier=thorough bounded="pool of 7 tables (4 path + 3 allocatable); tree-shaped sparse pre-state (target path, one neighbour word per path table, garbage in allocatable frames); page-table indices (511,510,1,0)"
    //@ obligation C09 C09.unmap_1gib.shape_sym.no_access_outside_page_tables tier=thorough bounded="pool of 7 tables (4 path + 3 allocatable); tree-shaped sparse pre-state (target path, one neighbour word per path table, garbage in allocatable frames); page-table indices (511,510,1,0)"
    //@ obligation C02 C02.unmap_1gib.shape_sym.error_leaves_every_mapping tier=thorough bounded="pool of 7 tables (4 path + 3 allocatable); tree-shaped sparse pre-state (target path, one neighbour word per path table, garbage in allocatable frames); page-table indices (511,510,1,0)"
    #[kani::proof]
    #[kani::stub(PageTable::zero, zero_stub)]
    fn c01_unmap_1gib_sym_hi() {
        unmap_step!(Size1GiB, "1gib", "sym", P3_SYM, IDX_HI);
        kani::cover!(true, "c01_unmap_1gib_sym_hi: reachable");
    }

    //@ obligation C01 C01.unmap_1gib.shape_sym.returns_mapped_frame tier=thorough bounded="pool of 7 tables (4 path + 3 allocatable); tree-shaped sparse pre-state (target path, one neighbour word per path table, garbage in allocatable frames); page-table indices (255,511,0,256)"
    //@ obligation C01 C01.unmap_1gib.shape_sym.target_not_mapped_after tier=thorough bounded="pool of 7 tables (4 path + 3 allocatable); tree-shaped sparse pre-state (target path, one neighbour word per path table, garbage in allocatable frames); page-table indices (255,511,0,256)"
    //@ obligation C11 C11.unmap_1gib.shape_sym.target_not_mapped_after tier=thorough bounded="pool of 7 tables (4 path + 3 allocatable); tree-shaped sparse pre-state (target path, one neighbour word per path table, garbage in allocatable frames); page-table indices (255,511,0,256)"
    //@ obligation C01 C01.unmap_1gib.shape_sym.other_addresses_unchanged tier=thorough bounded="pool of 7 tables (4 path + 3 allocatable); tree-shaped sparse pre-state (target path, one neighbour word per path table, garbage in allocatable frames); page-table indices (255,511,0,256)"
    //@ obligation C11 C11.unmap_1gib.shape_sym.other_addresses_unchanged tier=thorough bounded="pool of 7 tables (4 path + 3 allocatable); tree-shaped sparse pre-state (target path, one neighbour word per path table, garbage in allocatable frames); page-table indices (255,511,0,256)"
    //@ obligation C01 C01.unmap_1gib.shape_sym.result_reports_page tier=thorough bounded="pool of 7 tables (4 path + 3 allocatable); tree-shaped sparse pre-state (target path, one neighbour word per path table, garbage in allocatable frames); page-table indices (255,511,0,256)"
    //@ obligation C11 C11.unmap_1gib.shape_sym.token_names_page tier=thorough bounded="pool of 7 tables (4 path + 3 allocatable); tree-shaped sparse pre-state (target path, one neighbour word per path table, garbage in allocatable frames); page-table indices (255,511,0,256)"
    //@ obligation C02 C02.unmap_1gib.shape_sym.documented_outcome tier=thorough bounded="pool of 7 tables (4 path + 3 allocatable); tree-shaped sparse pre-state (target path, one neighbour word per path table, garbage in allocatable frames); page-table indices (255,511,0,256)"
    //@ obligation C01 C01.unmap_1gib.shape_sym.translate_agrees_after tier=thorough bounded="pool of 7 tables (4 path + 3 allocatable); tree-shaped sparse pre-state (target path, one neighbour word per path table, garbage in allocatable frames); page-table indices (255,511,0,256)"
    //@ obligation C09 C09.unmap_1gib.shape_sym.only_dictated_slots_change tier=thorough bounded="pool of 7 tables (4 path + 3 allocatable); tree-shaped sparse pre-state (target path, one neighbour word per path table, garbage in allocatable frames); page-table indices (255,511,0,256)"
    //@ obligation C09 C09.unmap_1gib.shape_sym.no_frames_requested_or_zeroed tier=thorough bounded="pool of 7 tables (4 path + 3 allocatable); tree-shaped sparse pre-state (target path, one neighbour word per path table, garbage in allocatable frames); page-table indices (255,511,0,256)"
    //@ obligation C09 C09.unmap_1gib.shape_sym.no_dangling_table_pointer tier=thorough bounded="pool of 7 tables (4 path + 3 allocatable); tree-shaped sparse pre-state (target path, one neighbour word per path table, garbage in allocatable frames); page-table indices (255,511,0,256)"
    //@ obligation C09 C09.unmap_1gib.shape_sym.no_access_outside_page_tables tier=thorough bounded="pool of 7 tables (4 path + 3 allocatable); tree-shaped sparse pre-state (target path, one neighbour word per path table, garbage in allocatable frames); page-table indices (255,511,0,256)"
    //@ obligation C02 C02.unmap_1gib.shape_sym.error_leaves_every_mapping tier=thorough bounded="pool of 7 tables (4 path + 3 allocatable); tree-shaped sparse pre-state (target path, one neighbour word per path table, garbage in allocatable frames); page-table indices (255,511,0,256)"
    #[kani::proof]
    #[kani::stub(PageTable::zero, zero_stub)]
    fn c01_unmap_1gib_sym_mid() {
        unmap_step!(Size1GiB, "1gib", "sym", P3_SYM, IDX_MID);
        kani::cover!(true, "c01_unmap_1gib_sym_mid: reachable");
    }

    //@ obligation C01 C01.unmap_1gib.shape_sym.returns_mapped_frame bounded="pool of 7 tables (4 path + 3 allocatable); tree-shaped sparse pre-state (target path, one neighbour word per path table, garbage in allocatable frames); page-table indices (256,0,510,511)"
    //@ obligation C01 C01.unmap_1gib.shape_sym.target_not_mapped_after bounded="pool of 7 tables (4 path + 3 allocatable); tree-shaped sparse pre-state (target path, one neighbour word per path table, garbage in allocatable frames); page-table indices (256,0,510,511)"
    //@ obligation C11 C11.unmap_1gib.shape_sym.target_not_mapped_after bounded="pool of 7 tables (4 path + 3 allocatable); tree-shaped sparse pre-state (target path, one neighbour word per path table, garbage in allocatable frames); page-table indices (256,0,510,511)"
    //@ obligation C01 C01.unmap_1gib.shape_sym.other_addresses_unchanged bounded="pool of 7 tables (4 path + 3 allocatable); tree-shaped sparse pre-state (target path, one neighbour word per path table, garbage in allocatable frames); page-table indices (256,0,510,511)"
    //@ obligation C11 C11.unmap_1gib.shape_sym.other_addresses_unchanged bounded="pool of 7 tables (4 path + 3 allocatable); tree-shaped sparse pre-state (target path, one neighbour word per path table, garbage in allocatable frames); page-table indices (256,0,510,511)"
    //@ obligation C01 C01.unmap_1gib.shape_sym.result_reports_page bounded="pool of 7 tables (4 path + 3 allocatable); tree-shaped sparse pre-state (target path, one neighbour word per path table, garbage in allocatable frames); page-table indices (256,0,510,511)"
    //@ obligation C11 C11.unmap_1gib.shape_sym.token_names_page bounded="pool of 7 tables (4 path + 3 allocatable); tree-shaped sparse pre-state (target path, one neighbour word per path table, garbage in allocatable frames); page-table indices (256,0,510,511)"
    //@ obligation C02 C02.unmap_1gib.shape_sym.documented_outcome bounded="pool of 7 tables (4 path + 3 allocatable); tree-shaped sparse pre-state (target path, one neighbour word per path table, garbage in allocatable frames); page-table indices (256,0,510,511)"
    //@ obligation C01 C01.unmap_1gib.shape_sym.translate_agrees_after bounded="pool of 7 tables (4 path + 3 allocatable); tree-shaped sparse pre-state (target path, one neighbour word per path table, garbage in allocatable frames); page-table indices (256,0,510,511)"
    //@ obligation C09 C09.unmap_1gib.shape_sym.only_dictated_slots_change bounded="pool of 7 tables (4 path + 3 allocatable); tree-shaped sparse pre-state (target path, one neighbour word per path table, garbage in allocatable frames); page-table indices (256,0,510,511)"
    //@ obligation C09 C09.unmap_1gib.shape_sym.no_frames_requested_or_zeroed bounded="pool of 7 tables (4 path + 3 allocatable); tree-shaped sparse pre-state (target path, one neighbour word per path table, garbage in allocatable frames); page-table indices (256,0,510,511)"
    //@ obligation C09 C09.unmap_1gib.shape_sym.no_dangling_table_pointer bounded="pool of 7 tables (4 path + 3 allocatable); tree-shaped sparse pre-state (target path, one neighbour word per path table, garbage in allocatable frames); page-table indices (256,0,510,511)"
    //@ obligation C09 C09.unmap_1gib.shape_sym.no_access_outside_page_tables bounded="pool of 7 tables (4 path + 3 allocatable); tree-shaped sparse pre-state (target path, one neighbour word per path table, garbage in allocatable frames); page-table indices (256,0,510,511)"
    //@ obligation C02 C02.unmap_1gib.shape_sym.error_leaves_every_mapping bounded="pool of 7 tables (4 path + 3 allocatable); tree-shaped sparse pre-state (target path, one neighbour word per path table, garbage in allocatable frames); page-table indices (256,0,510,511)"
    #[kani::proof]
    #[kani::stub(PageTable::zero, zero_stub)]
    fn c01_unmap_1gib_sym_up() {
        unmap_step!(Size1GiB, "1gib", "sym", P3_SYM, IDX_UP);
        kani::cover!(true, "c01_unmap_1gib_sym_up: reachable");
    }

    //@ obligation C02 C02.update_flags_4kib.shape_p4_absent.error_leaves_every_mapping tier=thorough bounded="pool of 7 tables (4 path + 3 allocatable); tree-shaped sparse pre-state (target path, one neighbour word per path table, garbage in allocatable frames); page-table indices (0,1,511,2)"
    //@ obligation C02 C02.update_flags_4kib.shape_p4_absent.documented_outcome tier=thorough bounded="pool of 7 tables (4 path + 3 allocatable); tree-shaped sparse pre-state (target path, one neighbour word per path table, garbage in allocatable frames); page-table indices (0,1,511,2)"
    //@ obligation C01 C01.update_flags_4kib.shape_p4_absent.translate_agrees_after tier=thorough bounded="pool of 7 tables (4 path + 3 allocatable); tree-shaped sparse pre-state (target path, one neighbour word per path table, garbage in allocatable frames); page-table indices (0,1,511,2)"
    //@ obligation C09 C09.update_flags_4kib.shape_p4_absent.only_dictated_slots_change tier=thorough bounded="pool of 7 tables (4 path + 3 allocatable); tree-shaped sparse pre-state (target path, one neighbour word per path table, garbage in allocatable frames); page-table indices (0,1,511,2)"
    //@ obligation C09 C09.update_flags_4kib.shape_p4_absent.no_frames_requested_or_zeroed tier=thorough bounded="pool of 7 tables (4 path + 3 allocatable); tree-shaped sparse pre-state (target path, one neighbour word per path table, garbage in allocatable frames); page-table indices (0,1,511,2)"
    //@ obligation C09 C09.update_flags_4kib.shape_p4_absent.no_dangling_table_pointer tier=thorough bounded="pool of 7 tables (4 path + 3 allocatable); tree-shaped sparse pre-state (target path, one neighbour word per path table, garbage in allocatable frames); page-table indices (0,1,511,2)"
    //@ obligation C09 C09.update_flags_4kib.shape_p4_absent.no_access_outside_page_tables tier=thorough bounded="pool of 7 tables (4 path + 3 allocatable); tree-shaped sparse pre-state (target path, one neighbour word per path table, garbage in allocatable frames); page-table indices (0,1,511,2)"
    #[kani::proof]
    #[kani::stub(PageTable::zero, zero_stub)]
    fn c01_update_flags_4kib_p4_absent_lo() {
        update_flags_step!(Size4KiB, "4kib", "p4_absent", P4_ABSENT, IDX_LO);
        kani::cover!(true, "c01_update_flags_4kib_p4_absent_lo: reachable");
    }

    //@ obligation C02 C02.update_flags_4kib.shape_p4_absent.error_leaves_every_mapping tier=thorough bounded="pool of 7 tables (4 path + 3 allocatable); tree-shaped sparse pre-state (target path, one neighbour word per path table, garbage in allocatable frames); page-table indices (511,510,1,0)"
    //@ obligation C02 C02.update_flags_4kib.shape_p4_absent.documented_outcome tier=thorough bounded="pool of 7 tables (4 path + 3 allocatable); tree-shaped sparse pre-state (target path, one neighbour word per path table, garbage in allocatable frames); page-table indices (511,510,1,0)"
    //@ obligation C01 C01.update_flags_4kib.shape_p4_absent.translate_agrees_after tier=thorough bounded="pool of 7 tables (4 path + 3 allocatable); tree-shaped sparse pre-state (target path, one neighbour word per path table, garbage in allocatable frames); page-table indices (511,510,1,0)"
    //@ obligation C09 C09.update_flags_4kib.shape_p4_absent.only_dictated_slots_change tier=thorough bounded="pool of 7 tables (4 path + 3 allocatable); tree-shaped sparse pre-state (target path, one neighbour word per path table, garbage in allocatable frames); page-table indices (511,510,1,0)"
    //@ obligation C09 C09.update_flags_4kib.shape_p4_absent.no_frames_requested_or_zeroed tier=thorough bounded="pool of 7 tables (4 path + 3 allocatable); tree-shaped sparse pre-state (target path, one neighbour word per path table, garbage in allocatable frames); page-table indices (511,510,1,0)"
    //@ obligation C09 C09.update_flags_4kib.shape_p4_absent.no_dangling_table_pointer tier=thorough bounded="pool of 7 tables (4 path + 3 allocatable); tree-shaped sparse pre-state (target path, one neighbour word per path table, garbage in allocatable frames); page-table indices (511,510,1,0)"
    //@ obligation C09 C09.update_flags_4kib.shape_p4_absent.no_access_outside_page_tables tier=thorough bounded="pool of 7 tables (4 path + 3 allocatable); tree-shaped sparse pre-state (target path, one neighbour word per path table, garbage in allocatable frames); page-table indices (511,510,1,0)"
    #[kani::proof]
    #[kani::stub(PageTable::zero, zero_stub)]
    fn c01_update_flags_4kib_p4_absent_hi() {
        update_flags_step!(Size4KiB, "4kib", "p4_absent", P4_ABSENT, IDX_HI);
        kani::cover!(true, "c01_update_flags_4kib_p4_absent_hi: reachable");
    }

    //@ obligation C02 C02.update_flags_4kib.shape_p4_absent.error_leaves_every_mapping bounded="pool of 7 tables (4 path + 3 allocatable); tree-shaped sparse pre-state (target path, one neighbour word per path table, garbage in allocatable frames); page-table indices (255,511,0,256)"
    //@ obligation C02 C02.update_flags_4kib.shape_p4_absent.documented_outcome bounded="pool of 7 tables (4 path + 3 allocatable); tree-shaped sparse pre-state (target path, one neighbour word per path table, garbage in allocatable frames); page-table indices (255,511,0,256)"
    //@ obligation C01 C01.update_flags_4kib.shape_p4_absent.translate_agrees_after bounded="pool of 7 tables (4 path + 3 allocatable); tree-shaped sparse pre-state (target path, one neighbour word per path table, garbage in allocatable frames); page-table indices (255,511,0,256)"
    //@ obligation C09 C09.update_flags_4kib.shape_p4_absent.only_dictated_slots_change bounded="pool of 7 tables (4 path + 3 allocatable); tree-shaped sparse pre-state (target path, one neighbour word per path table, garbage in allocatable frames); page-table indices (255,511,0,256)"
    //@ obligation C09 C09.update_flags_4kib.shape_p4_absent.no_frames_requested_or_zeroed bounded="pool of 7 tables (4 path + 3 allocatable); tree-shaped sparse pre-state (target path, one neighbour word per path table, garbage in allocatable frames); page-table indices (255,511,0,256)"
    //@ obligation C09 C09.update_flags_4kib.shape_p4_absent.no_dangling_table_pointer bounded="pool of 7 tables (4 path + 3 allocatable); tree-shaped sparse pre-state (target path, one neighbour word per path table, garbage in allocatable frames); page-table indices (255,511,0,256)"
    //@ obligation C09 C09.update_flags_4kib.shape_p4_absent.no_access_outside_page_tables bounded="pool of 7 tables (4 path + 3 allocatable); tree-shaped sparse pre-state (target path, one neighbour word per path table, garbage in allocatable frames); page-table indices (255,511,0,256)"
    #[kani::proof]
    #[kani::stub(PageTable::zero, zero_stub)]
    fn c01_update_flags_4kib_p4_absent_mid() {
        update_flags_step!(Size4KiB, "4kib", "p4_absent", P4_ABSENT, IDX_MID);
        kani::cover!(true, "c01_update_flags_4kib_p4_absent_mid: reachable");
    }

    //@ obligation C02 C02.update_flags_4kib.shape_p4_absent.error_leaves_every_mapping tier=thorough bounded="pool of 7 tables (4 path + 3 allocatable); tree-shaped sparse pre-state (target path, one neighbour word per path table, garbage in allocatable frames); page-table indices (256,0,510,511)"
    //@ obligation C02 C02.update_flags_4kib.shape_p4_absent.documented_outcome tier=thorough bounded="pool of 7 tables (4 path + 3 allocatable); tree-shaped sparse pre-state (target path, one neighbour word per path table, garbage in allocatable frames); page-table indices (256,0,510,511)"
    //@ obligation C01 C01.update_flags_4kib.shape_p4_absent.translate_agrees_after tier=thorough bounded="pool of 7 tables (4 path + 3 allocatable); tree-shaped sparse pre-state (target path, one neighbour word per path table, garbage in allocatable frames); page-table indices (256,0,510,511)"
    //@ obligation C09 C09.update_flags_4kib.shape_p4_absent.only_dictated_slots_change tier=thorough bounded="pool of 7 tables (4 path + 3 allocatable); tree-shaped sparse pre-state (target path, one neighbour word per path table, garbage in allocatable frames); page-table indices (256,0,510,511)"
    //@ obligation C09 C09.update_flags_4kib.shape_p4_absent.no_frames_requested_or_zeroed tier=thorough bounded="pool of 7 tables (4 path + 3 allocatable); tree-shaped sparse pre-state (target path, one neighbour word per path table, garbage in allocatable frames); page-table indices (256,0,510,511)"
    //@ obligation C09 C09.update_flags_4kib.shape_p4_absent.no_dangling_table_pointer tier=thorough bounded="pool of 7 tables (4 path + 3 allocatable); tree-shaped sparse pre-state (target path, one neighbour word per path table, garbage in allocatable frames); page-table indices (256,0,510,511)"
    //@ obligation C09 C09.update_flags_4kib.shape_p4_absent.no_access_outside_page_tables tier=thorough bounded="pool of 7 tables (4 path + 3 allocatable); tree-shaped sparse pre-state (target path, one neighbour word per path table, garbage in allocatable frames); page-table indices (256,0,510,511)"
    #[kani::proof]
    #[kani::stub(PageTable::zero, zero_stub)]
    fn c01_update_flags_4kib_p4_absent_up() {
        update_flags_step!(Size4KiB, "4kib", "p4_absent", P4_ABSENT, IDX_UP);
        kani::cover!(true, "c01_update_flags_4kib_p4_absent_up: reachable");
    }

    //@ obligation C02 C02.update_flags_4kib.shape_p3_absent.error_leaves_every_mapping tier=thorough bounded="pool of 7 tables (4 path + 3 allocatable); tree-shaped sparse pre-state (target path, one neighbour word per path table, garbage in allocatable frames); page-table indices (0,1,511,2)"
    //@ obligation C02 C02.update_flags_4kib.shape_p3_absent.documented_outcome tier=thorough bounded="pool of 7 tables (4 path + 3 allocatable); tree-shaped sparse pre-state (target path, one neighbour word per path table, garbage in allocatable frames); page-table indices (0,1,511,2)"
    //@ obligation C01 C01.update_flags_4kib.shape_p3_absent.translate_agrees_after tier=thorough bounded="pool of 7 tables (4 path + 3 allocatable); tree-shaped sparse pre-state (target path, one neighbour word per path table, garbage in allocatable frames); page-table indices (0,1,511,2)"
    //@ obligation C09 C09.update_flags_4kib.shape_p3_absent.only_dictated_slots_change tier=thorough bounded="pool of 7 tables (4 path + 3 allocatable); tree-shaped sparse pre-state (target path, one neighbour word per path table, garbage in allocatable frames); page-table indices (0,1,511,2)"
    //@ obligation C09 C09.update_flags_4kib.shape_p3_absent.no_frames_requested_or_zeroed tier=thorough bounded="pool of 7 tables (4 path + 3 allocatable); tree-shaped sparse pre-state (target path, one neighbour word per path table, garbage in allocatable frames); page-table indices (0,1,511,2)"
    //@ obligation C09 C09.update_flags_4kib.shape_p3_absent.no_dangling_table_pointer tier=thorough bounded="pool of 7 tables (4 path + 3 allocatable); tree-shaped sparse pre-state (target path, one neighbour word per path table, garbage in allocatable frames); page-table indices (0,1,511,2)"
    //@ obligation C09 C09.update_flags_4kib.shape_p3_absent.no_access_outside_page_tables tier=thorough bounded="pool of 7 tables (4 path + 3 allocatable); tree-shaped sparse pre-state (target path, one neighbour word per path table, garbage in allocatable frames); page-table indices (0,1,511,2)"
    #[kani::proof]
    #[kani::stub(PageTable::zero, zero_stub)]
    fn c01_update_flags_4kib_p3_absent_lo() {
        update_flags_step!(Size4KiB, "4kib", "p3_absent", P3_ABSENT, IDX_LO);
        kani::cover!(true, "c01_update_flags_4kib_p3_absent_lo: reachable");
    }

    //@ obligation C02 C02.update_flags_4kib.shape_p3_absent.error_leaves_every_mapping bounded="pool of 7 tables (4 path + 3 allocatable); tree-shaped sparse pre-state (target path, one neighbour word per path table, garbage in allocatable frames); page-table indices (511,510,1,0)"
    //@ obligation C02 C02.update_flags_4kib.shape_p3_absent.documented_outcome bounded="pool of 7 tables (4 path + 3 allocatable); tree-shaped sparse pre-state (target path, one neighbour word per path table, garbage in allocatable frames); page-table indices (511,510,1,0)"
    //@ obligation C01 C01.update_flags_4kib.shape_p3_absent.translate_agrees_after bounded="pool of 7 tables (4 path + 3 allocatable); tree-shaped sparse pre-state (target path, one neighbour word per path table, garbage in allocatable frames); page-table indices (511,510,1,0)"
    //@ obligation C09 C09.update_flags_4kib.shape_p3_absent.only_dictated_slots_change bounded="pool of 7 tables (4 path + 3 allocatable); tree-shaped sparse pre-state (target path, one neighbour word per path table, garbage in allocatable frames); page-table indices (511,510,1,0)"
    //@ obligation C09 C09.update_flags_4kib.shape_p3_absent.no_frames_requested_or_zeroed bounded="pool of 7 tables (4 path + 3 allocatable); tree-shaped sparse pre-state (target path, one neighbour word per path table, garbage in allocatable frames); page-table indices (511,510,1,0)"
    //@ obligation C09 C09.update_flags_4kib.shape_p3_absent.no_dangling_table_pointer bounded="pool of 7 tables (4 path + 3 allocatable); tree-shaped sparse pre-state (target path, one neighbour word per path table, garbage in allocatable frames); page-table indices (511,510,1,0)"
    //@ obligation C09 C09.update_flags_4kib.shape_p3_absent.no_access_outside_page_tables bounded="pool of 7 tables (4 path + 3 allocatable); tree-shaped sparse pre-state (target path, one neighbour word per path table, garbage in allocatable frames); page-table indices (511,510,1,0)"
    #[kani::proof]
    #[kani::stub(PageTable::zero, zero_stub)]
    fn c01_update_flags_4kib_p3_absent_hi() {
        update_flags_step!(Size4KiB, "4kib", "p3_absent", P3_ABSENT, IDX_HI);
        kani::cover!(true, "c01_update_flags_4kib_p3_absent_hi: reachable");
    }

    //@ obligation C02 C02.update_flags_4kib.shape_p3_absent.error_leaves_every_mapping tier=thorough bounded="pool of 7 tables (4 path + 3 allocatable); tree-shaped sparse pre-state (target path, one neighbour word per path table, garbage in allocatable frames); page-table indices (255,511,0,256)"
    //@ obligation C02 C02.update_flags_4kib.shape_p3_absent.documented_outcome tier=thorough bounded="pool of 7 tables (4 path + 3 allocatable); tree-shaped sparse pre-state (target path, one neighbour word per path table, garbage in allocatable frames); page-table indices (255,511,0,256)"
    //@ obligation C01 C01.update_flags_4kib.shape_p3_absent.translate_agrees_after tier=thorough bounded="pool of 7 tables (4 path + 3 allocatable); tree-shaped sparse pre-state (target path, one neighbour word per path table, garbage in allocatable frames); page-table indices (255,511,0,256)"
    //@ obligation C09 C09.update_flags_4kib.shape_p3_absent.only_dictated_slots_change tier=thorough bounded="pool of 7 tables (4 path + 3 allocatable); tree-shaped sparse pre-state (target path, one neighbour word per path table, garbage in allocatable frames); page-table indices (255,511,0,256)"
    //@ obligation C09 C09.update_flags_4kib.shape_p3_absent.no_frames_requested_or_zeroed tier=thorough bounded="pool of 7 tables (4 path + 3 allocatable); tree-shaped sparse pre-state (target path, one neighbour word per path table, garbage in allocatable frames); page-table indices (255,511,0,256)"
    //@ obligation C09 C09.update_flags_4kib.shape_p3_absent.no_dangling_table_pointer tier=thorough bounded="pool of 7 tables (4 path + 3 allocatable); tree-shaped sparse pre-state (target path, one neighbour word per path table, garbage in allocatable frames); page-table indices (255,511,0,256)"
    //@ obligation C09 C09.update_flags_4kib.shape_p3_absent.no_access_outside_page_tables tier=thorough bounded="pool of 7 tables (4 path + 3 allocatable); tree-shaped sparse pre-state (target path, one neighbour word per path table, garbage in allocatable frames); page-table indices (255,511,0,256)"
    #[kani::proof]
    #[kani::stub(PageTable::zero, zero_stub)]
    fn c01_update_flags_4kib_p3_absent_mid() {
        update_flags_step!(Size4KiB, "4kib", "p3_absent", P3_ABSENT, IDX_MID);
        kani::cover!(true, "c01_update_flags_4kib_p3_absent_mid: reachable");
    }

    //@ obligation C02 C02.update_flags_4kib.shape_p3_absent.error_leaves_every_mapping tier=thorough bounded="pool of 7 tables (4 path + 3 allocatable); tree-shaped sparse pre-state (target path, one neighbour word per path table, garbage in allocatable frames); page-table indices (256,0,510,511)"
    //@ obligation C02 C02.update_flags_4kib.shape_p3_absent.documented_outcome tier=thorough bounded="pool of 7 tables (4 path + 3 allocatable); tree-shaped sparse pre-state (target path, one neighbour word per path table, garbage in allocatable frames); page-table indices (256,0,510,511)"
    //@ obligation C01 C01.update_flags_4kib.shape_p3_absent.translate_agrees_after tier=thorough bounded="pool of 7 tables (4 path + 3 allocatable); tree-shaped sparse pre-state (target path, one neighbour word per path table, garbage in allocatable frames); page-table indices (256,0,510,511)"
    //@ obligation C09 C09.update_flags_4kib.shape_p3_absent.only_dictated_slots_change tier=thorough bounded="pool of 7 tables (4 path + 3 allocatable); tree-shaped sparse pre-state (target path, one neighbour word per path table, garbage in allocatable frames); page-table indices (256,0,510,511)"
    //@ obligation C09 C09.update_flags_4kib.shape_p3_absent.no_frames_requested_or_zeroed tier=thorough bounded="pool of 7 tables (4 path + 3 allocatable); tree-shaped sparse pre-state (target path, one neighbour word per path table, garbage in allocatable frames); page-table indices (256,0,510,511)"
    //@ obligation C09 C09.update_flags_4kib.shape_p3_absent.no_dangling_table_pointer tier=thorough bounded="pool of 7 tables (4 path + 3 allocatable); tree-shaped sparse pre-state (target path, one neighbour word per path table, garbage in allocatable frames); page-table indices (256,0,510,511)"
    //@ obligation C09 C09.update_flags_4kib.shape_p3_absent.no_access_outside_page_tables tier=thorough bounded="pool of 7 tables (4 path + 3 allocatable); tree-shaped sparse pre-state (target path, one neighbour word per path table, garbage in allocatable frames); page-table indices (256,0,510,511)"
    #[kani::proof]
    #[kani::stub(PageTable::zero, zero_stub)]
    fn c01_update_flags_4kib_p3_absent_up() {
        update_flags_step!(Size4KiB, "4kib", "p3_absent", P3_ABSENT, IDX_UP);
        kani::cover!(true, "c01_update_flags_4kib_p3_absent_up: reachable");
    }

    //@ obligation C02 C02.update_flags_4kib.shape_p3_huge.error_leaves_every_mapping tier=thorough bounded="pool of 7 tables (4 path + 3 allocatable); tree-shaped sparse pre-state (target path, one neighbour word per path table, garbage in allocatable frames); page-table indices (0,1,511,2)"
    //@ obligation C02 C02.update_flags_4kib.shape_p3_huge.documented_outcome tier=thorough bounded="pool of 7 tables (4 path + 3 allocatable); tree-shaped sparse pre-state (target path, one neighbour word per path table, garbage in allocatable frames); page-table indices (0,1,511,2)"
    //@ obligation C01 C01.update_flags_4kib.shape_p3_huge.translate_agrees_after tier=thorough bounded="pool of 7 tables (4 path + 3 allocatable); tree-shaped sparse pre-state (target path, one neighbour word per path table, garbage in allocatable frames); page-table indices (0,1,511,2)"
    //@ obligation C09 C09.update_flags_4kib.shape_p3_huge.only_dictated_slots_change tier=thorough bounded="pool of 7 tables (4 path + 3 allocatable); tree-shaped sparse pre-state (target path, one neighbour word per path table, garbage in allocatable frames); page-table indices (0,1,511,2)"
    //@ obligation C09 C09.update_flags_4kib.shape_p3_huge.no_frames_requested_or_zeroed tier=thorough bounded="pool of 7 tables (4 path + 3 allocatable); tree-shaped sparse pre-state (target path, one neighbour word per path table, garbage in allocatable frames); page-table indices (0,1,511,2)"
    //@ obligation C09 C09.update_flags_4kib.shape_p3_huge.no_dangling_table_pointer tier=thorough bounded="pool of 7 tables (4 path + 3 allocatable); tree-shaped sparse pre-state (target path, one neighbour word per path table, garbage in allocatable frames); page-table indices (0,1,511,2)"
    //@ obligation C09 C09.update_flags_4kib.shape_p3_huge.no_access_outside_page_tables tier=thorough bounded="pool of 7 tables (4 path + 3 allocatable); tree-shaped sparse pre-state (target path, one neighbour word per path table, garbage in allocatable frames); page-table indices (0,1,511,2)"
    #[kani::proof]
    #[kani::stub(PageTable::zero, zero_stub)]
    fn c01_update_flags_4kib_p3_huge_lo() {
        update_flags_step!(Size4KiB, "4kib", "p3_huge", P3_HUGE, IDX_LO);
        kani::cover!(true, "c01_update_flags_4kib_p3_huge_lo: reachable");
    }

    //@ obligation C02 C02.update_flags_4kib.shape_p3_huge.error_leaves_every_mapping tier=thorough bounded="pool of 7 tables (4 path + 3 allocatable); tree-shaped sparse pre-state (target path, one neighbour word per path table, garbage in allocatable frames); page-table indices (511,510,1,0)"
    //@ obligation C02 C02.update_flags_4kib.shape_p3_huge.documented_outcome tier=thorough bounded="pool of 7 tables (4 path + 3 allocatable); tree-shaped sparse pre-state (target path, one neighbour word per path table, garbage in allocatable frames); page-table indices (511,510,1,0)"
    //@ obligation C01 C01.update_flags_4kib.shape_p3_huge.translate_agrees_after tier=thorough bounded="pool of 7 tables (4 path + 3 allocatable); tree-shaped sparse pre-state (target path, one neighbour word per path table, garbage in allocatable frames); page-table indices (511,510,1,0)"
    //@ obligation C09 C09.update_flags_4kib.shape_p3_huge.only_dictated_slots_change tier=thorough bounded="pool of 7 tables (4 path + 3 allocatable); tree-shaped sparse pre-state (target path, one neighbour word per path table, garbage in allocatable frames); page-table indices (511,510,1,0)"
    //@ obligation C09 C09.update_flags_4kib.shape_p3_huge.no_frames_requested_or_zeroed tier=thorough bounded="pool of 7 tables (4 path + 3 allocatable); tree-shaped sparse pre-state (target path, one neighbour word per path table, garbage in allocatable frames); page-table indices (511,510,1,0)"
    //@ obligation C09 C09.update_flags_4kib.shape_p3_huge.no_dangling_table_pointer tier=thorough bounded="pool of 7 tables (4 path + 3 allocatable); tree-shaped sparse pre-state (target path, one neighbour word per path table, garbage in allocatable frames); page-table indices (511,510,1,0)"
    //@ obligation C09 C09.update_flags_4kib.shape_p3_huge.no_access_outside_page_tables tier=thorough bounded="pool of 7 tables (4 path + 3 allocatable); tree-shaped sparse pre-state (target path, one neighbour word per path table, garbage in allocatable frames); page-table indices (511,510,1,0)"
    #[kani::proof]
    #[kani::stub(PageTable::zero, zero_stub)]
    fn c01_update_flags_4kib_p3_huge_hi() {
        update_flags_step!(Size4KiB, "4kib", "p3_huge", P3_HUGE, IDX_HI);
        kani::cover!(true, "c01_update_flags_4kib_p3_huge_hi: reachable");
    }

    //@ obligation C02 C02.update_flags_4kib.shape_p3_huge.error_leaves_every_mapping tier=thorough bounded="pool of 7 tables (4 path + 3 allocatable); tree-shaped sparse pre-state (target path, one neighbour word per path table, garbage in allocatable frames); page-table indices (255,511,0,256)"
    //@ obligation C02 C02.update_flags_4kib.shape_p3_huge.documented_outcome tier=thorough bounded="pool of 7 tables (4 path + 3 allocatable); tree-shaped sparse pre-state (target path, one neighbour word per path table, garbage in allocatable frames); page-table indices (255,511,0,256)"
    //@ obligation C01 C01.update_flags_4kib.shape_p3_huge.translate_agrees_after tier=thorough bounded="pool of 7 tables (4 path + 3 allocatable); tree-shaped sparse pre-state (target path, one neighbour word per path table, garbage in allocatable frames); page-table indices (255,511,0,256)"
    //@ obligation C09 C09.update_flags_4kib.shape_p3_huge.only_dictated_slots_change tier=thorough bounded="pool of 7 tables (4 path + 3 allocatable); tree-shaped sparse pre-state (target path, one neighbour word per path table, garbage in allocatable frames); page-table indices (255,511,0,256)"
    //@ obligation C09 C09.update_flags_4kib.shape_p3_huge.no_frames_requested_or_zeroed tier=thorough bounded="pool of 7 tables (4 path + 3 allocatable); tree-shaped sparse pre-state (target path, one neighbour word per path table, garbage in allocatable frames); page-table indices (255,511,0,256)"
    //@ obligation C09 C09.update_flags_4kib.shape_p3_huge.no_dangling_table_pointer tier=thorough bounded="pool of 7 tables (4 path + 3 allocatable); tree-shaped sparse pre-state (target path, one neighbour word per path table, garbage in allocatable frames); page-table indices (255,511,0,256)"
    //@ obligation C09 C09.update_flags_4kib.shape_p3_huge.no_access_outside_page_tables tier=thorough bounded="pool of 7 tables (4 path + 3 allocatable); tree-shaped sparse pre-state (target path, one neighbour word per path table, garbage in allocatable frames); page-table indices (255,511,0,256)"
    #[kani::proof]
    #[kani::stub(PageTable::zero, zero_stub)]
    fn c01_update_flags_4kib_p3_huge_mid() {
        update_flags_step!(Size4KiB, "4kib", "p3_huge", P3_HUGE, IDX_MID);
        kani::cover!(true, "c01_update_flags_4kib_p3_huge_mid: reachable");
    }

    //@ obligation C02 C02.update_flags_4kib.shape_p3_huge.error_leaves_every_mapping bounded="pool of 7 tables (4 path + 3 allocatable); tree-shaped sparse pre-state (target path, one neighbour word per path table, garbage in allocatable frames); page-table indices (256,0,510,511)"
    //@ obligation C02 C02.update_flags_4kib.shape_p3_huge.documented_outcome bounded="pool of 7 tables (4 path + 3 allocatable); tree-shaped sparse pre-state (target path, one neighbour word per path table, garbage in allocatable frames); page-table indices (256,0,510,511)"
    //@ obligation C01 C01.update_flags_4kib.shape_p3_huge.translate_agrees_after bounded="pool of 7 tables (4 path + 3 allocatable); tree-shaped sparse pre-state (target path, one neighbour word per path table, garbage in allocatable frames); page-table indices (256,0,510,511)"
    //@ obligation C09 C09.update_flags_4kib.shape_p3_huge.only_dictated_slots_change bounded="pool of 7 tables (4 path + 3 allocatable); tree-shaped sparse pre-state (target path, one neighbour word per path table, garbage in allocatable frames); page-table indices (256,0,510,511)"
    //@ obligation C09 C09.update_flags_4kib.shape_p3_huge.no_frames_requested_or_zeroed bounded="pool of 7 tables (4 path + 3 allocatable); tree-shaped sparse pre-state (target path, one neighbour word per path table, garbage in allocatable frames); page-table indices (256,0,510,511)"
    //@ obligation C09 C09.update_flags_4kib.shape_p3_huge.no_dangling_table_pointer bounded="pool of 7 tables (4 path + 3 allocatable); tree-shaped sparse pre-state (target path, one neighbour word per path table, garbage in allocatable frames); page-table indices (256,0,510,511)"
    //@ obligation C09 C09.update_flags_4kib.shape_p3_huge.no_access_outside_page_tables bounded="pool of 7 tables (4 path + 3 allocatable); tree-shaped sparse pre-state (target path, one neighbour word per path table, garbage in allocatable frames); page-table indices (256,0,510,511)"
    #[kani::proof]
    #[kani::stub(PageTable::zero, zero_stub)]
    fn c01_update_flags_4kib_p3_huge_up() {
        update_flags_step!(Size4KiB, "4kib", "p3_huge", P3_HUGE, IDX_UP);
        kani::cover!(true, "c01_update_flags_4kib_p3_huge_up: reachable");
    }

    //@ obligation C02 C02.update_flags_4kib.shape_p2_absent.error_leaves_every_mapping tier=thorough bounded="pool of 7 tables (4 path + 3 allocatable); tree-shaped sparse pre-state (target path, one neighbour word per path table, garbage in allocatable frames); page-table indices (0,1,511,2)"
    //@ obligation C02 C02.update_flags_4kib.shape_p2_absent.documented_outcome tier=thorough bounded="pool of 7 tables (4 path + 3 allocatable); tree-shaped sparse pre-state (target path, one neighbour word per path table, garbage in allocatable frames); page-table indices (0,1,511,2)"
    //@ obligation C01 C01.update_flags_4kib.shape_p2_absent.translate_agrees_after tier=thorough bounded="pool of 7 tables (4 path + 3 allocatable); tree-shaped sparse pre-state (target path, one neighbour word per path table, garbage in allocatable frames); page-table indices (0,1,511,2)"
    //@ obligation C09 C09.update_flags_4kib.shape_p2_absent.only_dictated_slots_change tier=thorough bounded="pool of 7 tables (4 path + 3 allocatable); tree-shaped sparse pre-state (target path, one neighbour word per path table, garbage in allocatable frames); page-table indices (0,1,511,2)"
    //@ obligation C09 C09.update_flags_4kib.shape_p2_absent.no_frames_requested_or_zeroed tier=thorough bounded="pool of 7 tables (4 path + 3 allocatable); tree-shaped sparse pre-state (target path, one neighbour word per path table, garbage in allocatable frames); page-table indices (0,1,511,2)"
    //@ obligation C09 C09.update_flags_4kib.shape_p2_absent.no_dangling_table_pointer tier=thorough bounded="pool of 7 tables (4 path + 3 allocatable); tree-shaped sparse pre-state (target path, one neighbour word per path table, garbage in allocatable frames); page-table indices (0,1,511,2)"
    //@ obligation C09 C09.update_flags_4kib.shape_p2_absent.no_access_outside_page_tables tier=thorough bounded="pool of 7 tables (4 path + 3 allocatable); tree-shaped sparse pre-state (target path, one neighbour word per path table, garbage in allocatable frames); page-table indices (0,1,511,2)"
    #[kani::proof]
    #[kani::stub(PageTable::zero, zero_stub)]
    fn c01_update_flags_4kib_p2_absent_lo() {
        update_flags_step!(Size4KiB, "4kib", "p2_absent", P2_ABSENT, IDX_LO);
        kani::cover!(true, "c01_update_flags_4kib_p2_absent_lo: reachable");
    }

    //@ obligation C02 C02.update_flags_4kib.shape_p2_absent.error_leaves_every_mapping bounded="pool of 7 tables (4 path + 3 allocatable); tree-shaped sparse pre-state (target path, one neighbour word per path table, garbage in allocatable frames); page-table indices (511,510,1,0)"
    //@ obligation C02 C02.update_flags_4kib.shape_p2_absent.documented_outcome bounded="pool of 7 tables (4 path + 3 allocatable); tree-shaped sparse pre-state (target path, one neighbour word per path table, garbage in allocatable frames); page-table indices (511,510,1,0)"
    //@ obligation C01 C01.update_flags_4kib.shape_p2_absent.translate_agrees_after bounded="pool of 7 tables (4 path + 3 allocatable); tree-shaped sparse pre-state (target path, one neighbour word per path table, garbage in allocatable frames); page-table indices (511,510,1,0)"
    //@ obligation C09 C09.update_flags_4kib.shape_p2_absent.only_dictated_slots_change bounded="pool of 7 tables (4 path + 3 allocatable); tree-shaped sparse pre-state (target path, one neighbour word per path table, garbage in allocatable frames); page-table indices (511,510,1,0)"
    //@ obligation C09 C09.update_flags_4kib.shape_p2_absent.no_frames_requested_or_zeroed bounded="pool of 7 tables (4 path + 3 allocatable); tree-shaped sparse pre-state (target path, one neighbour word per path table, garbage in allocatable frames); page-table indices (511,510,1,0)"
    //@ obligation C09 C09.update_flags_4kib.shape_p2_absent.no_dangling_table_pointer bounded="pool of 7 tables (4 path + 3 allocatable); tree-shaped sparse pre-state (target path, one neighbour word per path table, garbage in allocatable frames); page-table indices (511,510,1,0)"
    //@ obligation C09 C09.update_flags_4kib.shape_p2_absent.no_access_outside_page_tables bounded="pool of 7 tables (4 path + 3 allocatable); tree-shaped sparse pre-state (target path, one neighbour word per path table, garbage in allocatable frames); page-table indices (511,510,1,0)"
    #[kani::proof]
    #[kani::stub(PageTable::zero, zero_stub)]
    fn c01_update_flags_4kib_p2_absent_hi() {
        update_flags_step!(Size4KiB, "4kib", "p2_absent", P2_ABSENT, IDX_HI);
        kani::cover!(true, "c01_update_flags_4kib_p2_absent_hi: reachable");
    }

    //@ obligation C02 C02.update_flags_4kib.shape_p2_absent.error_leaves_every_mapping tier=thorough bounded="pool of 7 tables (4 path + 3 allocatable); tree-shaped sparse pre-state (target path, one neighbour word per path table, garbage in allocatable frames); page-table indices (255,511,0,256)"
    //@ obligation C02 C02.update_flags_4kib.shape_p2_absent.documented_outcome tier=thorough bounded="pool of 7 tables (4 path + 3 allocatable); tree-shaped sparse pre-state (target path, one neighbour word per path table, garbage in allocatable frames); page-table indices (255,511,0,256)"
    //@ obligation C01 C01.update_flags_4kib.shape_p2_absent.translate_agrees_after tier=thorough bounded="pool of 7 tables (4 path + 3 allocatable); tree-shaped sparse pre-state (target path, one neighbour word per path table, garbage in allocatable frames); page-table indices (255,511,0,256)"
    //@ obligation C09 C09.update_flags_4kib.shape_p2_absent.only_dictated_slots_change tier=thorough bounded="pool of 7 tables (4 path + 3 allocatable); tree-shaped sparse pre-state (target path, one neighbour word per path table, garbage in allocatable frames); page-table indices (255,511,0,256)"
    //@ obligation C09 C09.update_flags_4kib.shape_p2_absent.no_frames_requested_or_zeroed tier=thorough bounded="pool of 7 tables (4 path + 3 allocatable); tree-shaped sparse pre-state (target path, one neighbour word per path table, garbage in allocatable frames); page-table indices (255,511,0,256)"
    //@ obligation C09 C09.update_flags_4kib.shape_p2_absent.no_dangling_table_pointer tier=thorough bounded="pool of 7 tables (4 path + 3 allocatable); tree-shaped sparse pre-state (target path, one neighbour word per path table, garbage in allocatable frames); page-table indices (255,511,0,256)"
    //@ obligation C09 C09.update_flags_4kib.shape_p2_absent.no_access_outside_page_tables tier=thorough bounded="pool of 7 tables (4 path + 3 allocatable); tree-shaped sparse pre-state (target path, one neighbour word per path table, garbage in allocatable frames); page-table indices (255,511,0,256)"
    #[kani::proof]
    #[kani::stub(PageTable::zero, zero_stub)]
    fn c01_update_flags_4kib_p2_absent_mid() {
        update_flags_step!(Size4KiB, "4kib", "p2_absent", P2_ABSENT, IDX_MID);
        kani::cover!(true, "c01_update_flags_4kib_p2_absent_mid: reachable");
    }

    //@ obligation C02 C02.update_flags_4kib.shape_p2_absent.error_leaves_every_mapping tier=thorough bounded="pool of 7 tables (4 path + 3 allocatable); tree-shaped sparse pre-state (target path, one neighbour word per path table, garbage in allocatable frames); page-table indices (256,0,510,511)"
    //@ obligation C02 C02.update_flags_4kib.shape_p2_absent.documented_outcome tier=thorough bounded="pool of 7 tables (4 path + 3 allocatable); tree-shaped sparse pre-state (target path, one neighbour word per path table, garbage in allocatable frames); page-table indices (256,0,510,511)"
    //@ obligation C01 C01.update_flags_4kib.shape_p2_absent.translate_agrees_after tier=thorough bounded="pool of 7 tables (4 path + 3 allocatable); tree-shaped sparse pre-state (target path, one neighbour word per path table, garbage in allocatable frames); page-table indices (256,0,510,511)"
    //@ obligation C09 C09.update_flags_4kib.shape_p2_absent.only_dictated_slots_change tier=thorough bounded="pool of 7 tables (4 path + 3 allocatable); tree-shaped sparse pre-state (target path, one neighbour word per path table, garbage in allocatable frames); page-table indices (256,0,510,511)"
    //@ obligation C09 C09.update_flags_4kib.shape_p2_absent.no_frames_requested_or_zeroed tier=thorough bounded="pool of 7 tables (4 path + 3 allocatable); tree-shaped sparse pre-state (target path, one neighbour word per path table, garbage in allocatable frames); page-table indices (256,0,510,511)"
    //@ obligation C09 C09.update_flags_4kib.shape_p2_absent.no_dangling_table_pointer tier=thorough bounded="pool of 7 tables (4 path + 3 allocatable); tree-shaped sparse pre-state (target path, one neighbour word per path table, garbage in allocatable frames); page-table indices (256,0,510,511)"
    //@ obligation C09 C09.update_flags_4kib.shape_p2_absent.no_access_outside_page_tables tier=thorough bounded="pool of 7 tables (4 path + 3 allocatable); tree-shaped sparse pre-state (target path, one neighbour word per path table, garbage in allocatable frames); page-table indices (256,0,510,511)"
    #[kani::proof]
    #[kani::stub(PageTable::zero, zero_stub)]
    fn c01_update_flags_4kib_p2_absent_up() {
        update_flags_step!(Size4KiB, "4kib", "p2_absent", P2_ABSENT, IDX_UP);
        kani::cover!(true, "c01_update_flags_4kib_p2_absent_up: reachable");
    }

    //@ obligation C02 C02.update_flags_4kib.shape_p2_huge.error_leaves_every_mapping bounded="pool of 7 tables (4 path + 3 allocatable); tree-shaped sparse pre-state (target path, one neighbour word per path table, garbage in allocatable frames); page-table indices (0,1,511,2)"
    //@ obligation C02 C02.update_flags_4kib.shape_p2_huge.documented_outcome bounded="pool of 7 tables (4 path + 3 allocatable); tree-shaped sparse pre-state (target path, one neighbour word per path table, garbage in allocatable frames); page-table indices (0,1,511,2)"
    //@ obligation C01 C01.update_flags_4kib.shape_p2_huge.translate_agrees_after bounded="pool of 7 tables (4 path + 3 allocatable); tree-shaped sparse pre-state (target path, one neighbour word per path table, garbage in allocatable frames); page-table indices (0,1,511,2)"
    //@ obligation C09 C09.update_flags_4kib.shape_p2_huge.only_dictated_slots_change bounded="pool of 7 tables (4 path + 3 allocatable); tree-shaped sparse pre-state (target path, one neighbour word per path table, garbage in allocatable frames); page-table indices (0,1,511,2)"
    //@ obligation C09 C09.update_flags_4kib.shape_p2_huge.no_frames_requested_or_zeroed bounded="pool of 7 tables (4 path + 3 allocatable); tree-shaped sparse pre-state (target path, one neighbour word per path table, garbage in allocatable frames); page-table indices (0,1,511,2)"
    //@ obligation C09 C09.update_flags_4kib.shape_p2_huge.no_dangling_table_pointer bounded="pool of 7 tables (4 path + 3 allocatable); tree-shaped sparse pre-state (target path, one neighbour word per path table, garbage in allocatable frames); page-table indices (0,1,511,2)"
    //@ obligation C09 C09.update_flags_4kib.shape_p2_huge.no_access_outside_page_tables bounded="pool of 7 tables (4 path + 3 allocatable); tree-shaped sparse pre-state (target path, one neighbour word per path table, garbage in allocatable frames); page-table indices (0,1,511,2)"
    #[kani::proof]
    #[kani::stub(PageTable::zero, zero_stub)]
    fn c01_update_flags_4kib_p2_huge_lo() {
        update_flags_step!(Size4KiB, "4kib", "p2_huge", P2_HUGE, IDX_LO);
        kani::cover!(true, "c01_update_flags_4kib_p2_huge_lo: reachable");
    }

    //@ obligation C02 C02.update_flags_4kib.shape_p2_huge.error_leaves_every_mapping tier=thorough bounded="pool of 7 tables (4 path + 3 allocatable); tree-shaped sparse pre-state (target path, one neighbour word per path table, garbage in allocatable frames); page-table indices (511,510,1,0)"
    //@ obligation C02 C02.update_flags_4kib.shape_p2_huge.documented_outcome tier=thorough bounded="pool of 7 tables (4 path + 3 allocatable); tree-shaped sparse pre-state (target path, one neighbour word per path table, garbage in allocatable frames); page-table indices (511,510,1,0)"
    //@ obligation C01 C01.update_flags_4kib.shape_p2_huge.translate_agrees_after tier=thorough bounded="pool of 7 tables (4 path + 3 allocatable); tree-shaped sparse pre-state (target path, one neighbour word per path table, garbage in allocatable frames); page-table indices (511,510,1,0)"
    //@ obligation C09 C09.update_flags_4kib.shape_p2_huge.only_dictated_slots_change tier=thorough bounded="pool of 7 tables (4 path + 3 allocatable); tree-shaped sparse pre-state (target path, one neighbour word per path table, garbage in allocatable frames); page-table indices (511,510,1,0)"
    //@ obligation C09 C09.update_flags_4kib.shape_p2_huge.no_frames_requested_or_zeroed tier=thorough bounded="pool of 7 tables (4 path + 3 allocatable); tree-shaped sparse pre-state (target path, one neighbour word per path table, garbage in allocatable frames); page-table indices (511,510,1,0)"
    //@ obligation C09 C09.update_flags_4kib.shape_p2_huge.no_dangling_table_pointer tier=thorough bounded="pool of 7 tables (4 path + 3 allocatable); tree-shaped sparse pre-state (target path, one neighbour word per path table, garbage in allocatable frames); page-table indices (511,510,1,0)"
    //@ obligation C09 C09.update_flags_4kib.shape_p2_huge.no_access_outside_page_tables tier=thorough bounded="pool of 7 tables (4 path + 3 allocatable); tree-shaped sparse pre-state (target path, one neighbour word per path table, garbage in allocatable frames); page-table indices (511,510,1,0)"
    #[kani::proof]
    #[kani::stub(PageTable::zero, zero_stub)]
    fn c01_update_flags_4kib_p2_huge_hi() {
        update_flags_step!(Size4KiB, "4kib", "p2_huge", P2_HUGE, IDX_HI);
        kani::cover!(true, "c01_update_flags_4kib_p2_huge_hi: reachable");
    }

    //@ obligation C02 C02.update_flags_4kib.shape_p2_huge.error_leaves_every_mapping tier=thorough bounded="pool of 7 tables (4 path + 3 allocatable); tree-shaped sparse pre-state (target path, one neighbour word per path table, garbage in allocatable frames); page-table indices (255,511,0,256)"
    //@ obligation C02 C02.update_flags_4kib.shape_p2_huge.documented_outcome tier=thorough bounded="pool of 7 tables (4 path + 3 allocatable); tree-shaped sparse pre-state (target path, one neighbour word per path table, garbage in allocatable frames); page-table indices (255,511,0,256)"
    //@ obligation C01 C01.update_flags_4kib.shape_p2_huge.translate_agrees_after tier=thorough bounded="pool of 7 tables (4 path + 3 allocatable); tree-shaped sparse pre-state (target path, one neighbour word per path table, garbage in allocatable frames); page-table indices (255,511,0,256)"
    //@ obligation C09 C09.update_flags_4kib.shape_p2_huge.only_dictated_slots_change tier=thorough bounded="pool of 7 tables (4 path + 3 allocatable); tree-shaped sparse pre-state (target path, one neighbour word per path table, garbage in allocatable frames); page-table indices (255,511,0,256)"
    //@ obligation C09 C09.update_flags_4kib.shape_p2_huge.no_frames_requested_or_zeroed tier=thorough bounded="pool of 7 tables (4 path + 3 allocatable); tree-shaped sparse pre-state (target path, one neighbour word per path table, garbage in allocatable frames); page-table indices (255,511,0,256)"
    //@ obligation C09 C09.update_flags_4kib.shape_p2_huge.no_dangling_table_pointer tier=thorough bounded="pool of 7 tables (4 path + 3 allocatable); tree-shaped sparse pre-state (target path, one neighbour word per path table, garbage in allocatable frames); page-table indices (255,511,0,256)"
    //@ obligation C09 C09.update_flags_4kib.shape_p2_huge.no_access_outside_page_tables tier=thorough bounded="pool of 7 tables (4 path + 3 allocatable); tree-shaped sparse pre-state (target path, one neighbour word per path table, garbage in allocatable frames); page-table indices (255,511,0,256)"
    #[kani::proof]
    #[kani::stub(PageTable::zero, zero_stub)]
    fn c01_update_flags_4kib_p2_huge_mid() {
        update_flags_step!(Size4KiB, "4kib", "p2_huge", P2_HUGE, IDX_MID);
        kani::cover!(true, "c01_update_flags_4kib_p2_huge_mid: reachable");
    }

    //@ obligation C02 C02.update_flags_4kib.shape_p2_huge.error_leaves_every_mapping tier=thorough bounded="pool of 7 tables (4 path + 3 allocatable); tree-shaped sparse pre-state (target path, one neighbour word per path table, garbage in allocatable frames); page-table indices (256,0,510,511)"
    //@ obligation C02 C02.update_flags_4kib.shape_p2_huge.documented_outcome tier=thorough bounded="pool of 7 tables (4 path + 3 allocatable); tree-shaped sparse pre-state (target path, one neighbour word per path table, garbage in allocatable frames); page-table indices (256,0,510,511)"
    //@ obligation C01 C01.update_flags_4kib.shape_p2_huge.translate_agrees_after tier=thorough bounded="pool of 7 tables (4 path + 3 allocatable); tree-shaped sparse pre-state (target path, one neighbour word per path table, garbage in allocatable frames); page-table indices (256,0,510,511)"
    //@ obligation C09 C09.update_flags_4kib.shape_p2_huge.only_dictated_slots_change tier=thorough bounded="pool of 7 tables (4 path + 3 allocatable); tree-shaped sparse pre-state (target path, one neighbour word per path table, garbage in allocatable frames); page-table indices (256,0,510,511)"
    //@ obligation C09 C09.update_flags_4kib.shape_p2_huge.no_frames_requested_or_zeroed tier=thorough bounded="pool of 7 tables (4 path + 3 allocatable); tree-shaped sparse pre-state (target path, one neighbour word per path table, garbage in allocatable frames); page-table indices (256,0,510,511)"
    //@ obligation C09 C09.update_flags_4kib.shape_p2_huge.no_dangling_table_pointer tier=thorough bounded="pool of 7 tables (4 path + 3 allocatable); tree-shaped sparse pre-state (target path, one neighbour word per path table, garbage in allocatable frames); page-table indices (256,0,510,511)"
    //@ obligation C09 C09.update_flags_4kib.shape_p2_huge.no_access_outside_page_tables tier=thorough bounded="pool of 7 tables (4 path + 3 allocatable); tree-shaped sparse pre-state (target path, one neighbour word per path table, garbage in allocatable frames); page-table indices (256,0,510,511)"
    #[kani::proof]
    #[kani::stub(PageTable::zero, zero_stub)]
    fn c01_update_flags_4kib_p2_huge_up() {
        update_flags_step!(Size4KiB, "4kib", "p2_huge", P2_HUGE, IDX_UP);
        kani::cover!(true, "c01_update_flags_4kib_p2_huge_up: reachable");
    }

    //@ obligation C02 C02.update_flags_4kib.shape_p1_absent.error_leaves_every_mapping bounded="pool of 7 tables (4 path + 3 allocatable); tree-shaped sparse pre-state (target path, one neighbour word per path table, garbage in allocatable frames); page-table indices (0,1,511,2)"
    //@ obligation C02 C02.update_flags_4kib.shape_p1_absent.documented_outcome bounded="pool of 7 tables (4 path + 3 allocatable); tree-shaped sparse pre-state (target path, one neighbour word per path table, garbage in allocatable frames); page-table indices (0,1,511,2)"
    //@ obligation C01 C01.update_flags_4kib.shape_p1_absent.translate_agrees_after bounded="pool of 7 tables (4 path + 3 allocatable); tree-shaped sparse pre-state (target path, one neighbour word per path table, garbage in allocatable frames); page-table indices (0,1,511,2)"
    //@ obligation C09 C09.update_flags_4kib.shape_p1_absent.only_dictated_slots_change bounded="pool of 7 tables (4 path + 3 allocatable); tree-shaped sparse pre-state (target path, one neighbour word per path table, garbage in allocatable frames); page-table indices (0,1,511,2)"
    //@ obligation C09 C09.update_flags_4kib.shape_p1_absent.no_frames_requested_or_zeroed bounded="pool of 7 tables (4 path + 3 allocatable); tree-shaped sparse pre-state (target path, one neighbour word per path table, garbage in allocatable frames); page-table indices (0,1,511,2)"
    //@ obligation C09 C09.update_flags_4kib.shape_p1_absent.no_dangling_table_pointer bounded="pool of 7 tables (4 path + 3 allocatable); tree-shaped sparse pre-state (target path, one neighbour word per path table, garbage in allocatable frames); page-table indices (0,1,511,2)"
    //@ obligation C09 C09.update_flags_4kib.shape_p1_absent.no_access_outside_page_tables bounded="pool of 7 tables (4 path + 3 allocatable); tree-shaped sparse pre-state (target path, one neighbour word per path table, garbage in allocatable frames); page-table indices (0,1,511,2)"
    #[kani::proof]
    #[kani::stub(PageTable::zero, zero_stub)]
    fn c01_update_flags_4kib_p1_absent_lo() {
        update_flags_step!(Size4KiB, "4kib", "p1_absent", P1_ABSENT, IDX_LO);
        kani::cover!(true, "c01_update_flags_4kib_p1_absent_lo: reachable");
    }

    //@ obligation C02 C02.update_flags_4kib.shape_p1_absent.error_leaves_every_mapping tier=thorough bounded="pool of 7 tables (4 path + 3 allocatable); tree-shaped sparse pre-state (target path, one neighbour word per path table, garbage in allocatable frames); page-table indices (511,510,1,0)"
    //@ obligation C02 C02.update_flags_4kib.shape_p1_absent.documented_outcome tier=thorough bounded="pool of 7 tables (4 path + 3 allocatable); tree-shaped sparse pre-state (target path, one neighbour word per path table, garbage in allocatable frames); page-table indices (511,510,1,0)"
    //@ obligation C01 C01.update_flags_4kib.shape_p1_absent.translate_agrees_after tier=thorough bounded="pool of 7 tables (4 path + 3 allocatable); tree-shaped sparse pre-state (target path, one neighbour word per path table, garbage in allocatable frames); page-table indices (511,510,1,0)"
    //@ obligation C09 C09.update_flags_4kib.shape_p1_absent.only_dictated_slots_change tier=thorough bounded="pool of 7 tables (4 path + 3 allocatable); tree-shaped sparse pre-state (target path, one neighbour word per path table, garbage in allocatable frames); page-table indices (511,510,1,0)"
    //@ obligation C09 C09.update_flags_4kib.shape_p1_absent.no_frames_requested_or_zeroed tier=thorough bounded="pool of 7 tables (4 path + 3 allocatable); tree-shaped sparse pre-state (target path, one neighbour word per path table, garbage in allocatable frames); page-table indices (511,510,1,0)"
    //@ obligation C09 C09.update_flags_4kib.shape_p1_absent.no_dangling_table_pointer tier=thorough bounded="pool of 7 tables (4 path + 3 allocatable); tree-shaped sparse pre-state (target path, one neighbour word per path table, garbage in allocatable frames); page-table indices (511,510,1,0)"
    //@ obligation C09 C09.update_flags_4kib.shape_p1_absent.no_access_outside_page_tables tier=thorough bounded="pool of 7 tables (4 path + 3 allocatable); tree-shaped sparse pre-state (target path, one neighbour word per path table, garbage in allocatable frames); page-table indices (511,510,1,0)"
    #[kani::proof]
    #[kani::stub(PageTable::zero, zero_stub)]
    fn c01_update_flags_4kib_p1_absent_hi() {
        update_flags_step!(Size4KiB, "4kib", "p1_absent", P1_ABSENT, IDX_HI);
        kani::cover!(true, "c01_update_flags_4kib_p1_absent_hi: reachable");
    }

    //@ obligation C02 C02.update_flags_4kib.shape_p1_absent.error_leaves_every_mapping tier=thorough bounded="pool of 7 tables (4 path + 3 allocatable); tree-shaped sparse pre-state (target path, one neighbour word per path table, garbage in allocatable frames); page-table indices (255,511,0,256)"
    //@ obligation C02 C02.update_flags_4kib.shape_p1_absent.documented_outcome tier=thorough bounded="pool of 7 tables (4 path + 3 allocatable); tree-shaped sparse pre-state (target path, one neighbour word per path table, garbage in allocatable frames); page-table indices (255,511,0,256)"
    //@ obligation C01 C01.update_flags_4kib.shape_p1_absent.translate_agrees_after tier=thorough bounded="pool of 7 tables (4 path + 3 allocatable); tree-shaped sparse pre-state (target path, one neighbour word per path table, garbage in allocatable frames); page-table indices (255,511,0,256)"
    //@ obligation C09 C09.update_flags_4kib.shape_p1_absent.only_dictated_slots_change tier=thorough bounded="pool of 7 tables (4 path + 3 allocatable); tree-shaped sparse pre-state (target path, one neighbour word per path table, garbage in allocatable frames); page-table indices (255,511,0,256)"
    //@ obligation C09 C09.update_flags_4kib.shape_p1_absent.no_frames_requested_or_zeroed tier=thorough bounded="pool of 7 tables (4 path + 3 allocatable); tree-shaped sparse pre-state (target path, one neighbour word per path table, garbage in allocatable frames); page-table indices (255,511,0,256)"
    //@ obligation C09 C09.update_flags_4kib.shape_p1_absent.no_dangling_table_pointer tier=thorough bounded="pool of 7 tables (4 path + 3 allocatable); tree-shaped sparse pre-state (target path, one neighbour word per path table, garbage in allocatable frames); page-table indices (255,511,0,256)"
    //@ obligation C09 C09.update_flags_4kib.shape_p1_absent.no_access_outside_page_tables tier=thorough bounded="pool of 7 tables (4 path + 3 allocatable); tree-shaped sparse pre-state (target path, one neighbour word per path table, garbage in allocatable frames); page-table indices (255,511,0,256)"
    #[kani::proof]
    #[kani::stub(PageTable::zero, zero_stub)]
    fn c01_update_flags_4kib_p1_absent_mid() {
        update_flags_step!(Size4KiB, "4kib", "p1_absent", P1_ABSENT, IDX_MID);
        kani::cover!(true, "c01_update_flags_4kib_p1_absent_mid: reachable");
    }

    //@ obligation C02 C02.update_flags_4kib.shape_p1_absent.error_leaves_every_mapping tier=thorough bounded="pool of 7 tables (4 path + 3 allocatable); tree-shaped sparse pre-state (target path, one neighbour word per path table, garbage in allocatable frames); page-table indices (256,0,510,511)"
    //@ obligation C02 C02.update_flags_4kib.shape_p1_absent.documented_outcome tier=thorough bounded="pool of 7 tables (4 path + 3 allocatable); tree-shaped sparse pre-state (target path, one neighbour word per path table, garbage in allocatable frames); page-table indices (256,0,510,511)"
    //@ obligation C01 C01.update_flags_4kib.shape_p1_absent.translate_agrees_after tier=thorough bounded="pool of 7 tables (4 path + 3 allocatable); tree-shaped sparse pre-state (target path, one neighbour word per path table, garbage in allocatable frames); page-table indices (256,0,510,511)"
    //@ obligation C09 C09.update_flags_4kib.shape_p1_absent.only_dictated_slots_change tier=thorough bounded="pool of 7 tables (4 path + 3 allocatable); tree-shaped sparse pre-state (target path, one neighbour word per path table, garbage in allocatable frames); page-table indices (256,0,510,511)"
    //@ obligation C09 C09.update_flags_4kib.shape_p1_absent.no_frames_requested_or_zeroed tier=thorough bounded="pool of 7 tables (4 path + 3 allocatable); tree-shaped sparse pre-state (target path, one neighbour word per path table, garbage in allocatable frames); page-table indices (256,0,510,511)"
    //@ obligation C09 C09.update_flags_4kib.shape_p1_absent.no_dangling_table_pointer tier=thorough bounded="pool of 7 tables (4 path + 3 allocatable); tree-shaped sparse pre-state (target path, one neighbour word per path table, garbage in allocatable frames); page-table indices (256,0,510,511)"
    //@ obligation C09 C09.update_flags_4kib.shape_p1_absent.no_access_outside_page_tables tier=thorough bounded="pool of 7 tables (4 path + 3 allocatable); tree-shaped sparse pre-state (target path, one neighbour word per path table, garbage in allocatable frames); page-table indices (256,0,510,511)"
    #[kani::proof]
    #[kani::stub(PageTable::zero, zero_stub)]
    fn c01_update_flags_4kib_p1_absent_up() {
        update_flags_step!(Size4KiB, "4kib", "p1_absent", P1_ABSENT, IDX_UP);
        kani::cover!(true, "c01_update_flags_4kib_p1_absent_up: reachable");
    }

    //@ obligation C01 C01.update_flags_4kib.shape_p1_leaf.target_keeps_frame_and_size tier=thorough bounded="pool of 7 tables (4 path + 3 allocatable); tree-shaped sparse pre-state (target path, one neighbour word per path table, garbage in allocatable frames); page-table indices (0,1,511,2)"
    //@ obligation C11 C11.update_flags_4kib.shape_p1_leaf.target_keeps_frame_and_size tier=thorough bounded="pool of 7 tables (4 path + 3 allocatable); tree-shaped sparse pre-state (target path, one neighbour word per path table, garbage in allocatable frames); page-table indices (0,1,511,2)"
    //@ obligation C01 C01.update_flags_4kib.shape_p1_leaf.target_leaf_flags_replaced tier=thorough bounded="pool of 7 tables (4 path + 3 allocatable); tree-shaped sparse pre-state (target path, one neighbour word per path table, garbage in allocatable frames); page-table indices (0,1,511,2)"
    //@ obligation C11 C11.update_flags_4kib.shape_p1_leaf.target_leaf_flags_replaced tier=thorough bounded="pool of 7 tables (4 path + 3 allocatable); tree-shaped sparse pre-state (target path, one neighbour word per path table, garbage in allocatable frames); page-table indices (0,1,511,2)"
    //@ obligation C01 C01.update_flags_4kib.shape_p1_leaf.other_addresses_unchanged tier=thorough bounded="pool of 7 tables (4 path + 3 allocatable); tree-shaped sparse pre-state (target path, one neighbour word per path table, garbage in allocatable frames); page-table indices (0,1,511,2)"
    //@ obligation C11 C11.update_flags_4kib.shape_p1_leaf.other_addresses_unchanged tier=thorough bounded="pool of 7 tables (4 path + 3 allocatable); tree-shaped sparse pre-state (target path, one neighbour word per path table, garbage in allocatable frames); page-table indices (0,1,511,2)"
    //@ obligation C01 C01.update_flags_4kib.shape_p1_leaf.result_reports_page tier=thorough bounded="pool of 7 tables (4 path + 3 allocatable); tree-shaped sparse pre-state (target path, one neighbour word per path table, garbage in allocatable frames); page-table indices (0,1,511,2)"
    //@ obligation C11 C11.update_flags_4kib.shape_p1_leaf.token_names_page tier=thorough bounded="pool of 7 tables (4 path + 3 allocatable); tree-shaped sparse pre-state (target path, one neighbour word per path table, garbage in allocatable frames); page-table indices (0,1,511,2)"
    //@ obligation C02 C02.update_flags_4kib.shape_p1_leaf.documented_outcome tier=thorough bounded="pool of 7 tables (4 path + 3 allocatable); tree-shaped sparse pre-state (target path, one neighbour word per path table, garbage in allocatable frames); page-table indices (0,1,511,2)"
    //@ obligation C01 C01.update_flags_4kib.shape_p1_leaf.translate_agrees_after tier=thorough bounded="pool of 7 tables (4 path + 3 allocatable); tree-shaped sparse pre-state (target path, one neighbour word per path table, garbage in allocatable frames); page-table indices (0,1,511,2)"
    //@ obligation C09 C09.update_flags_4kib.shape_p1_leaf.only_dictated_slots_change tier=thorough bounded="pool of 7 tables (4 path + 3 allocatable); tree-shaped sparse pre-state (target path, one neighbour word per path table, garbage in allocatable frames); page-table indices (0,1,511,2)"
    //@ obligation C09 C09.update_flags_4kib.shape_p1_leaf.no_frames_requested_or_zeroed tier=thorough bounded="pool of 7 tables (4 path + 3 allocatable); tree-shaped sparse pre-state (target path, one neighbour word per path table, garbage in allocatable frames); page-table indices (0,1,511,2)"
    //@ obligation C09 C09.update_flags_4kib.shape_p1_leaf.no_dangling_table_pointer tier=thorough bounded="pool of 7 tables (4 path + 3 allocatable); tree-shaped sparse pre-state (target path, one neighbour word per path table, garbage in allocatable frames); page-table indices (0,1,511,2)"
    //@ obligation C09 C09.update_flags_4kib.shape_p1_leaf.no_access_outside_page_tables tier=thorough bounded="pool of 7 tables (4 path + 3 allocatable); tree-shaped sparse pre-state (target path, one neighbour word per path table, garbage in allocatable frames); page-table indices (0,1,511,2)"
    #[kani::proof]
    #[kani::stub(PageTable::zero, zero_stub)]
    fn c01_update_flags_4kib_p1_leaf_lo() {
        update_flags_step!(Size4KiB, "4kib", "p1_leaf", P1_LEAF, IDX_LO);
        kani::cover!(true, "c01_update_flags_4kib_p1_leaf_lo: reachable");
    }

    //@ obligation C01 C01.update_flags_4kib.shape_p1_leaf.target_keeps_frame_and_size tier=thorough bounded="pool of 7 tables (4 path + 3 allocatable); tree-shaped sparse pre-state (target path, one neighbour word per path table, garbage in allocatable frames); page-table indices (511,510,1,0)"
    //@ obligation C11 C11.update_flags_4kib.shape_p1_leaf.target_keeps_frame_and_size tier=thorough bounded="pool of 7 tables (4 path + 3 allocatable); tree-shaped sparse pre-state (target path, one neighbour word per path table, garbage in allocatable frames); page-table indices (511,510,1,0)"
    //@ obligation C01 C01.update_flags_4kib.shape_p1_leaf.target_leaf_flags_replaced tier=thorough bounded="pool of 7 tables (4 path + 3 allocatable); tree-shaped sparse pre-state (target path, one neighbour word per path table, garbage in allocatable frames); page-table indices (511,510,1,0)"
    //@ obligation C11 C11.update_flags_4kib.shape_p1_leaf.target_leaf_flags_replaced tier=thorough bounded="pool of 7 tables (4 path + 3 allocatable); tree-shaped sparse pre-state (target path, one neighbour word per path table, garbage in allocatable frames); page-table indices (511,510,1,0)"
    //@ obligation C01 C01.update_flags_4kib.shape_p1_leaf.other_addresses_unchanged tier=thorough bounded="pool of 7 tables (4 path + 3 allocatable); tree-shaped sparse pre-state (target path, one neighbour word per path table, garbage in allocatable frames); page-table indices (511,510,1,0)"
    //@ obligation C11 C11.update_flags_4kib.shape_p1_leaf.other_addresses_unchanged tier=thorough bounded="pool of 7 tables (4 path + 3 allocatable); tree-shaped sparse pre-state (target path, one neighbour word per path table, garbage in allocatable frames); page-table indices (511,510,1,0)"
    //@ obligation C01 C01.update_flags_4kib.shape_p1_leaf.result_reports_page tier=thorough bounded="pool of 7 tables (4 path + 3 allocatable); tree-shaped sparse pre-state (target path, one neighbour word per path table, garbage in allocatable frames); page-table indices (511,510,1,0)"
    //@ obligation C11 C11.update_flags_4kib.shape_p1_leaf.token_names_page tier=thorough bounded="pool of 7 tables (4 path + 3 allocatable); tree-shaped sparse pre-state (target path, one neighbour word per path table, garbage in allocatable frames); page-table indices (511,510,1,0)"
    //@ obligation C02 C02.update_flags_4kib.shape_p1_leaf.documented_outcome tier=thorough bounded="pool of 7 tables (4 path + 3 allocatable); tree-shaped sparse pre-state (target path, one neighbour word per path table, garbage in allocatable frames); page-table indices (511,510,1,0)"
    //@ obligation C01 C01.update_flags_4kib.shape_p1_leaf.translate_agrees_after tier=thorough bounded="pool of 7 tables (4 path + 3 allocatable); tree-shaped sparse pre-state (target path, one neighbour word per path table, garbage in allocatable frames); page-table indices (511,510,1,0)"
    //@ obligation C09 C09.update_flags_4kib.shape_p1_leaf.only_dictated_slots_change tier=thorough bounded="pool of 7 tables (4 path + 3 allocatable); tree-shaped sparse pre-state (target path, one neighbour word per path table, garbage in allocatable frames); page-table indices (511,510,1,0)"
    //@ obligation C09 C09.update_flags_4kib.shape_p1_leaf.no_frames_requested_or_zeroed tier=thorough bounded="pool of 7 tables (4 path + 3 allocatable); tree-shaped sparse pre-state (target path, one neighbour word per path table, garbage in allocatable frames); page-table indices (511,510,1,0)"
    //@ obligation C09 C09.update_flags_4kib.shape_p1_leaf.no_dangling_table_pointer tier=thorough bounded="pool of 7 tables (4 path + 3 allocatable); tree-shaped sparse pre-state (target path, one neighbour word per path table, garbage in allocatable frames); page-table indices (511,510,1,0)"
    //@ obligation C09 C09.update_flags_4kib.shape_p1_leaf.no_access_outside_page_tables tier=thorough bounded="pool of 7 tables (4 path + 3 allocatable); tree-shaped sparse pre-state (target path, one neighbour word per path table, garbage in allocatable frames); page-table indices (511,510,1,0)"
    #[kani::proof]
    #[kani::stub(PageTable::zero, zero_stub)]
    fn c01_update_flags_4kib_p1_leaf_hi() {
        update_flags_step!(Size4KiB, "4kib", "p1_leaf", P1_LEAF, IDX_HI);
        kani::cover!(true, "c01_update_flags_4kib_p1_leaf_hi: reachable");
    }

    //@ obligation C01 C01.update_flags_4kib.shape_p1_leaf.target_keeps_frame_and_size tier=thorough bounded="pool of 7 tables (4 path + 3 allocatable); tree-shaped sparse pre-state (target path, one neighbour word per path table, garbage in allocatable frames); page-table indices (255,511,0,256)"
    //@ obligation C11 C11.update_flags_4kib.shape_p1_leaf.target_keeps_frame_and_size tier=thorough bounded="pool of 7 tables (4 path + 3 allocatable); tree-shaped sparse pre-state (target path, one neighbour word per path table, garbage in allocatable frames); page-table indices (255,511,0,256)"
    //@ obligation C01 C01.update_flags_4kib.shape_p1_leaf.target_leaf_flags_replaced tier=thorough bounded="pool of 7 tables (4 path + 3 allocatable); tree-shaped sparse pre-state (target path, one neighbour word per path table, garbage in allocatable frames); page-table indices (255,511,0,256)"
    //@ obligation C11 C11.update_flags_4kib.shape_p1_leaf.target_leaf_flags_replaced tier=thorough bounded="pool of 7 tables (4 path + 3 allocatable); tree-shaped sparse pre-state (target path, one neighbour word per path table, garbage in allocatable frames); page-table indices (255,511,0,256)"
    //@ obligation C01 C01.update_flags_4kib.shape_p1_leaf.other_addresses_unchanged tier=thorough bounded="pool of 7 tables (4 path + 3 allocatable); tree-shaped sparse pre-state (target path, one neighbour word per path table, garbage in allocatable frames); page-table indices (255,511,0,256)"
    //@ obligation C11 C11.update_flags_4kib.shape_p1_leaf.other_addresses_unchanged tier=thorough bounded="pool of 7 tables (4 path + 3 allocatable); tree-shaped sparse pre-state (target path, one neighbour word per path table, garbage in allocatable frames); page-table indices (255,511,0,256)"
    //@ obligation C01 C01.update_flags_4kib.shape_p1_leaf.result_reports_page tier=thorough bounded="pool of 7 tables (4 path + 3 allocatable); tree-shaped sparse pre-state (target path, one neighbour word per path table, garbage in allocatable frames); page-table indices (255,511,0,256)"
    //@ obligation C11 C11.update_flags_4kib.shape_p1_leaf.token_names_page tier=thorough bounded="pool of 7 tables (4 path + 3 allocatable); tree-shaped sparse pre-state (target path, one neighbour word per path table, garbage in allocatable frames); page-table indices (255,511,0,256)"
    //@ obligation C02 C02.update_flags_4kib.shape_p1_leaf.documented_outcome tier=thorough bounded="pool of 7 tables (4 path + 3 allocatable); tree-shaped sparse pre-state (target path, one neighbour word per path table, garbage in allocatable frames); page-table indices (255,511,0,256)"
    //@ obligation C01 C01.update_flags_4kib.shape_p1_leaf.translate_agrees_after tier=thorough bounded="pool of 7 tables (4 path + 3 allocatable); tree-shaped sparse pre-state (target path, one neighbour word per path table, garbage in allocatable frames); page-table indices (255,511,0,256)"
    //@ obligation C09 C09.update_flags_4kib.shape_p1_leaf.only_dictated_slots_change tier=thorough bounded="pool of 7 tables (4 path + 3 allocatable); tree-shaped sparse pre-state (target path, one neighbour word per path table, garbage in allocatable frames); page-table indices (255,511,0,256)"
    //@ obligation C09 C09.update_flags_4kib.shape_p1_leaf.no_frames_requested_or_zeroed tier=thorough bounded="pool of 7 tables (4 path + 3 allocatable); tree-shaped sparse pre-state (target path, one neighbour word per path table, garbage in allocatable frames); page-table indices (255,511,0,256)"
    //@ obligation C09 C09.update_flags_4kib.shape_p1_leaf.no_dangling_table_pointer tier=thorough bounded="pool of 7 tables (4 path + 3 allocatable); tree-shaped sparse pre-state (target path, one neighbour word per path table, garbage in allocatable frames); page-table indices (255,511,0,256)"
    //@ obligation C09 C09.update_flags_4kib.shape_p1_leaf.no_access_outside_page_tables tier=thorough bounded="pool of 7 tables (4 path + 3 allocatable); tree-shaped sparse pre-state (target path, one neighbour word per path table, garbage in allocatable frames); page-table indices (255,511,0,256)"
    #[kani::proof]
    #[kani::stub(PageTable::zero, zero_stub)]
    fn c01_update_flags_4kib_p1_leaf_mid() {
        update_flags_step!(Size4KiB, "4kib", "p1_leaf", P1_LEAF, IDX_MID);
        kani::cover!(true, "c01_update_flags_4kib_p1_leaf_mid: reachable");
    }

    //@ obligation C01 C01.update_flags_4kib.shape_p1_leaf.target_keeps_frame_and_size bounded="pool of 7 tables (4 path + 3 allocatable); tree-shaped sparse pre-state (target path, one neighbour word per path table, garbage in allocatable frames); page-table indices (256,0,510,511)"
    //@ obligation C11 C11.update_flags_4kib.shape_p1_leaf.target_keeps_frame_and_size bounded="pool of 7 tables (4 path + 3 allocatable); tree-shaped sparse pre-state (target path, one neighbour word per path table, garbage in allocatable frames); page-table indices (256,0,510,511)"
    //@ obligation C01 C01.update_flags_4kib.shape_p1_leaf.target_leaf_flags_replaced bounded="pool of 7 tables (4 path + 3 allocatable); tree-shaped sparse pre-state (target path, one neighbour word per path table, garbage in allocatable frames); page-table indices (256,0,510,511)"
    //@ obligation C11 C11.update_flags_4kib.shape_p1_leaf.target_leaf_flags_replaced bounded="pool of 7 tables (4 path + 3 allocatable); tree-shaped sparse pre-state (target path, one neighbour word per path table, garbage in allocatable frames); page-table indices (256,0,510,511)"
    //@ obligation C01 C01.update_flags_4kib.shape_p1_leaf.other_addresses_unchanged bounded="pool of 7 tables (4 path + 3 allocatable); tree-shaped sparse pre-state (target path, one neighbour word per path table, garbage in allocatable frames); page-table indices (256,0,510,511)"
    //@ obligation C11 C11.update_flags_4kib.shape_p1_leaf.other_addresses_unchanged bounded="pool of 7 tables (4 path + 3 allocatable); tree-shaped sparse pre-state (target path, one neighbour word per path table, garbage in allocatable frames); page-table indices (256,0,510,511)"
    //@ obligation C01 C01.update_flags_4kib.shape_p1_leaf.result_reports_page bounded="pool of 7 tables (4 path + 3 allocatable); tree-shaped sparse pre-state (target path, one neighbour word per path table, garbage in allocatable frames); page-table indices (256,0,510,511)"
    //@ obligation C11 C11.update_flags_4kib.shape_p1_leaf.token_names_page bounded="pool of 7 tables (4 path + 3 allocatable); tree-shaped sparse pre-state (target path, one neighbour word per path table, garbage in allocatable frames); page-table indices (256,0,510,511)"
    //@ obligation C02 C02.update_flags_4kib.shape_p1_leaf.documented_outcome bounded="pool of 7 tables (4 path + 3 allocatable); tree-shaped sparse pre-state (target path, one neighbour word per path table, garbage in allocatable frames); page-table indices (256,0,510,511)"
    //@ obligation C01 C01.update_flags_4kib.shape_p1_leaf.translate_agrees_after bounded="pool of 7 tables (4 path + 3 allocatable); tree-shaped sparse pre-state (target path, one neighbour word per path table, garbage in allocatable frames); page-table indices (256,0,510,511)"
    //@ obligation C09 C09.update_flags_4kib.shape_p1_leaf.only_dictated_slots_change bounded="pool of 7 tables (4 path + 3 allocatable); tree-shaped sparse pre-state (target path, one neighbour word per path table, garbage in allocatable frames); page-table indices (256,0,510,511)"
    //@ obligation C09 C09.update_flags_4kib.shape_p1_leaf.no_frames_requested_or_zeroed bounded="pool of 7 tables (4 path + 3 allocatable); tree-shaped sparse pre-state (target path, one neighbour word per path table, garbage in allocatable frames); page-table indices (256,0,510,511)"
    //@ obligation C09 C09.update_flags_4kib.shape_p1_leaf.no_dangling_table_pointer bounded="pool of 7 tables (4 path + 3 allocatable); tree-shaped sparse pre-state (target path, one neighbour word per path table, garbage in allocatable frames); page-table indices (256,0,510,511)"
    //@ obligation C09 C09.update_flags_4kib.shape_p1_leaf.no_access_outside_page_tables bounded="pool of 7 tables (4 path + 3 allocatable); tree-shaped sparse pre-state (target path, one neighbour word per path table, garbage in allocatable frames); page-table indices (256,0,510,511)"
    #[kani::proof]
    #[kani::stub(PageTable::zero, zero_stub)]
    fn c01_update_flags_4kib_p1_leaf_up() {
        update_flags_step!(Size4KiB, "4kib", "p1_leaf", P1_LEAF, IDX_UP);
        kani::cover!(true, "c01_update_flags_4kib_p1_leaf_up: reachable");
    }

    //@ obligation C01 C01.update_flags_4kib.shape_sym.target_keeps_frame_and_size tier=thorough bounded="pool of 7 tables (4 path + 3 allocatable); tree-shaped sparse pre-state (target path, one neighbour word per path table, garbage in allocatable frames); page-table indices (0,1,511,2)"
    //@ obligation C11 C11.update_flags_4kib.shape_sym.target_keeps_frame_and_size tier=thorough bounded="pool of 7 tables (4 path + 3 allocatable); tree-shaped sparse pre-state (target path, one neighbour word per path table, garbage in allocatable frames); page-table indices (0,1,511,2)"
    //@ obligation C01 C01.update_flags_4kib.shape_sym.target_leaf_flags_replaced tier=thorough bounded="pool of 7 tables (4 path + 3 allocatable); tree-shaped sparse pre-state (target path, one neighbour word per path table, garbage in allocatable frames); page-table indices (0,1,511,2)"
    //@ obligation C11 C11.update_flags_4kib.shape_sym.target_leaf_flags_replaced tier=thorough bounded="pool of 7 tables (4 path + 3 allocatable); tree-shaped sparse pre-state (target path, one neighbour word per path table, garbage in allocatable frames); page-table indices (0,1,511,2)"
    //@ obligation C01 C01.update_flags_4kib.shape_sym.other_addresses_unchanged tier=thorough bounded="pool of 7 tables (4 path + 3 allocatable); tree-shaped sparse pre-state (target path, one neighbour word per path table, garbage in allocatable frames); page-table indices (0,1,511,2)"
    //@ obligation C11 C11.update_flags_4kib.shape_sym.other_addresses_unchanged tier=thorough bounded="pool of 7 tables (4 path + 3 allocatable); tree-shaped sparse pre-state (target path, one neighbour word per path table, garbage in allocatable frames); page-table indices (0,1,511,2)"
    //@ obligation C01 C01.update_flags_4kib.shape_sym.result_reports_page tier=thorough bounded="pool of 7 tables (4 path + 3 allocatable); tree-shaped sparse pre-state (target path, one neighbour word per path table, garbage in allocatable frames); page-table indices (0,1,511,2)"
    //@ obligation C11 C11.update_flags_4kib.shape_sym.token_names_page tier=thorough bounded="pool of 7 tables (4 path + 3 allocatable); tree-shaped sparse pre-state (target path, one neighbour word per path table, garbage in allocatable frames); page-table indices (0,1,511,2)"
    //@ obligation C02 C02.update_flags_4kib.shape_sym.documented_outcome tier=thorough bounded="pool of 7 tables (4 path + 3 allocatable); tree-shaped sparse pre-state (target path, one neighbour word per path table, garbage in allocatable frames); page-table indices (0,1,511,2)"
    //@ obligation C01 C01.update_flags_4kib.shape_sym.translate_agrees_after tier=thorough bounded="pool of 7 tables (4 path + 3 allocatable); tree-shaped sparse pre-state (target path, one neighbour word per path table, garbage in allocatable frames); page-table indices (0,1,511,2)"
    //@ obligation C09 C09.update_flags_4kib.shape_sym.only_dictated_slots_change tier=thorough bounded="pool of 7 tables (4 path + 3 allocatable); tree-shaped sparse pre-state (target path, one neighbour word per path table, garbage in allocatable frames); page-table indices (0,1,511,2)"
    //@ obligation C09 C09.update_flags_4kib.shape_sym.no_frames_requested_or_zeroed tier=thorough bounded="pool of 7 tables (4 path + 3 allocatable); tree-shaped sparse pre-state (target path, one neighbour word per path table, garbage in allocatable frames); page-table indices (0,1,511,2)"
    //@ obligation C09 C09.update_flags_4kib.shape_sym.no_dangling_table_pointer tier=thorough bounded="pool of 7 tables (4 path + 3 allocatable); tree-shaped sparse pre-state (target path, one neighbour word per path table, garbage in allocatable frames); page-table indices (0,1,511,2)"
    //@ obligation C09 C09.update_flags_4kib.shape_sym.no_access_outside_page_tables tier=thorough bounded="pool of 7 tables (4 path + 3 allocatable); tree-shaped sparse pre-state (target path, one neighbour word per path table, garbage in allocatable frames); page-table indices (0,1,511,2)"
    //@ obligation C02 C02.update_flags_4kib.shape_sym.error_leaves_every_mapping tier=thorough bounded="pool of 7 tables (4 path + 3 allocatable); tree-shaped sparse pre-state (target path, one neighbour word per path table, garbage in allocatable frames); page-table indices (0,1,511,2)"
    #[kani::proof]
    #[kani::stub(PageTable::zero, zero_stub)]
    fn c01_update_flags_4kib_sym_lo() {
        update_flags_step!(Size4KiB, "4kib", "sym", P1_SYM, IDX_LO);
        kani::cover!(true, "c01_update_flags_4kib_sym_lo: reachable");
    }

    //@ obligation C01 C01.update_flags_4kib.shape_sym.target_keeps_frame_and_size tier=thorough bounded="pool of 7 tables (4 path + 3 allocatable); tree-shaped sparse pre-state (target path, one neighbour word per path table, garbage in allocatable frames); page-table indices (511,510,1,0)"
    //@ obligation C11 C11.update_flags_4kib.shape_sym.target_keeps_frame_and_size tier=thorough bounded="pool of 7 tables (4 path + 3 allocatable); tree-shaped sparse pre-state (target path, one neighbour word per path table, garbage in allocatable frames); page-table indices (511,510,1,0)"
    //@ obligation C01 C01.update_flags_4kib.shape_sym.target_leaf_flags_replaced tier=thorough bounded="pool of 7 tables (4 path + 3 allocatable); tree-shaped sparse pre-state (target path, one neighbour word per path table, garbage in allocatable frames); page-table indices (511,510,1,0)"
    //@ obligation C11 C11.update_flags_4kib.shape_sym.target_leaf_flags_replaced tier=thorough bounded="pool of 7 tables (4 path + 3 allocatable); tree-shaped sparse pre-state (target path, one neighbour word per path table, garbage in allocatable frames); page-table indices (511,510,1,0)"
    //@ obligation C01 C01.update_flags_4kib.shape_sym.other_addresses_unchanged tier=thorough bounded="pool of 7 tables (4 path + 3 allocatable); tree-shaped sparse pre-state (target path, one neighbour word per path table, garbage in allocatable frames); page-table indices (511,510,1,0)"
    //@ obligation C11 C11.update_flags_4kib.shape_sym.other_addresses_unchanged tier=thorough bounded="pool of 7 tables (4 path + 3 allocatable); tree-shaped sparse pre-state (target path, one neighbour word per path table, garbage in allocatable frames); page-table indices (511,510,1,0)"
    //@ obligation C01 C01.update_flags_4kib.shape_sym.result_reports_page tier=thorough bounded="pool of 7 tables (4 path + 3 allocatable); tree-shaped sparse pre-state (target path, one neighbour word per path table, garbage in allocatable frames); page-table indices (511,510,1,0)"
    //@ obligation C11 C11.update_flags_4kib.shape_sym.token_names_page tier=thorough bounded="pool of 7 tables (4 path + 3 allocatable); tree-shaped sparse pre-state (target path, one neighbour word per path table, garbage in allocatable frames); page-table indices (511,510,1,0)"
    //@ obligation C02 C02.update_flags_4kib.shape_sym.documented_outcome tier=thorough bounded="pool of 7 tables (4 path + 3 allocatable); tree-shaped sparse pre-state (target path, one neighbour word per path table, garbage in allocatable frames); page-table indices (511,510,1,0)"
    //@ obligation C01 C01.update_flags_4kib.shape_sym.translate_agrees_after tier=thorough bounded="pool of 7 tables (4 path + 3 allocatable); tree-shaped sparse pre-state (target path, one neighbour word per path table, garbage in allocatable frames); page-table indices (511,510,1,0)"
    //@ obligation C09 C09.update_flags_4kib.shape_sym.only_dictated_slots_change tier=thorough bounded="pool of 7 tables (4 path + 3 allocatable); tree-shaped sparse pre-state (target path, one neighbour word per path table, garbage in allocatable frames); page-table indices (511,510,1,0)"
    //@ obligation C09 C09.update_flags_4kib.shape_sym.no_frames_requested_or_zeroed tier=thorough bounded="pool of 7 tables (4 path + 3 allocatable); tree-shaped sparse pre-state (target path, one neighbour word per path table, garbage in allocatable frames); page-table indices (511,510,1,0)"
    //@ obligation C09 C09.update_flags_4kib.shape_sym.no_dangling_table_pointer tier=thorough bounded="pool of 7 tables (4 path + 3 allocatable); tree-shaped sparse pre-state (target path, one neighbour word per path table, garbage in allocatable frames); page-table indices (511,510,1,0)"
    //@ obligation C09 C09.update_flags_4kib.shape_sym.no_access_outside_page_tables tier=thorough bounded="pool of 7 tables (4 path + 3 allocatable); tree-shaped sparse pre-state (target path, one neighbour word per path table, garbage in allocatable frames); page-table indices (511,510,1,0)"
    //@ obligation C02 C02.update_flags_4kib.shape_sym.error_leaves_every_mapping tier=thorough bounded="pool of 7 tables (4 path + 3 allocatable); tree-shaped sparse pre-state (target path, one neighbour word per path table, garbage in allocatable frames); page-table indices (511,510,1,0)"
    #[kani::proof]
    #[kani::stub(PageTable::zero, zero_stub)]
    fn c01_update_flags_4kib_sym_hi() {
        update_flags_step!(Size4KiB, "4kib", "sym", P1_SYM, IDX_HI);
        kani::cover!(true, "c01_update_flags_4kib_sym_hi: reachable");
    }

    //@ obligation C01 C01.update_flags_4kib.shape_sym.target_keeps_frame_and_size bounded="pool of 7 tables (4 path + 3 allocatable); tree-shaped sparse pre-state (target path, one neighbour word per path table, garbage in allocatable frames); page-table indices (255,511,0,256)"
    //@ obligation C11 C11.update_flags_4kib.shape_sym.target_keeps_frame_and_size bounded="pool of 7 tables (4 path + 3 allocatable); tree-shaped sparse pre-state (target path, one neighbour word per path table, garbage in allocatable frames); page-table indices (255,511,0,256)"
    //@ obligation C01 C01.update_flags_4kib.shape_sym.target_leaf_flags_replaced bounded="pool of 7 tables (4 path + 3 allocatable); tree-shaped sparse pre-state (target path, one neighbour word per path table, garbage in allocatable frames); page-table indices (255,511,0,256)"
    //@ obligation C11 C11.update_flags_4kib.shape_sym.target_leaf_flags_replaced bounded="pool of 7 tables (4 path + 3 allocatable); tree-shaped sparse pre-state (target path, one neighbour word per path table, garbage in allocatable frames); page-table indices (255,511,0,256)"
    //@ obligation C01 C01.update_flags_4kib.shape_sym.other_addresses_unchanged bounded="pool of 7 tables (4 path + 3 allocatable); tree-shaped sparse pre-state (target path, one neighbour word per path table, garbage in allocatable frames); page-table indices (255,511,0,256)"
    //@ obligation C11 C11.update_flags_4kib.shape_sym.other_addresses_unchanged bounded="pool of 7 tables (4 path + 3 allocatable); tree-shaped sparse pre-state (target path, one neighbour word per path table, garbage in allocatable frames); page-table indices (255,511,0,256)"
    //@ obligation C01 C01.update_flags_4kib.shape_sym.result_reports_page bounded="pool of 7 tables (4 path + 3 allocatable); tree-shaped sparse pre-state (target path, one neighbour word per path table, garbage in allocatable frames); page-table indices (255,511,0,256)"
    //@ obligation C11 C11.update_flags_4kib.shape_sym.token_names_page bounded="pool of 7 tables (4 path + 3 allocatable); tree-shaped sparse pre-state (target path, one neighbour word per path table, garbage in allocatable frames); page-table indices (255,511,0,256)"
    //@ obligation C02 C02.update_flags_4kib.shape_sym.documented_outcome bounded="pool of 7 tables (4 path + 3 allocatable); tree-shaped sparse pre-state (target path, one neighbour word per path table, garbage in allocatable frames); page-table indices (255,511,0,256)"
    //@ obligation C01 C01.update_flags_4kib.shape_sym.translate_agrees_after bounded="pool of 7 tables (4 path + 3 allocatable); tree-shaped sparse pre-state (target path, one neighbour word per path table, garbage in allocatable frames); page-table indices (255,511,0,256)"
    //@ obligation C09 C09.update_flags_4kib.shape_sym.only_dictated_slots_change bounded="pool of 7 tables (4 path + 3 allocatable); tree-shaped sparse pre-state (target path, one neighbour word per path table, garbage in allocatable frames); page-table indices (255,511,0,256)"
    //@ obligation C09 C09.update_flags_4kib.shape_sym.no_frames_requested_or_zeroed bounded="pool of 7 tables (4 path + 3 allocatable); tree-shaped sparse pre-state (target path, one neighbour word per path table, garbage in allocatable frames); page-table indices (255,511,0,256)"
    //@ obligation C09 C09.update_flags_4kib.shape_sym.no_dangling_table_pointer bounded="pool of 7 tables (4 path + 3 allocatable); tree-shaped sparse pre-state (target path, one neighbour word per path table, garbage in allocatable frames); page-table indices (255,511,0,256)"
    //@ obligation C09 C09.update_flags_4kib.shape_sym.no_access_outside_page_tables bounded="pool of 7 tables (4 path + 3 allocatable); tree-shaped sparse pre-state (target path, one neighbour word per path table, garbage in allocatable frames); page-table indices (255,511,0,256)"
    //@ obligation C02 C02.update_flags_4kib.shape_sym.error_leaves_every_mapping bounded="pool of 7 tables (4 path + 3 allocatable); tree-shaped sparse pre-state (target path, one neighbour word per path table, garbage in allocatable frames); page-table indices (255,511,0,256)"
    #[kani::proof]
    #[kani::stub(PageTable::zero, zero_stub)]
    fn c01_update_flags_4kib_sym_mid() {
        update_flags_step!(Size4KiB, "4kib", "sym", P1_SYM, IDX_MID);
        kani::cover!(true, "c01_update_flags_4kib_sym_mid: reachable");
    }

    //@ obligation C01 C01.update_flags_4kib.shape_sym.target_keeps_frame_and_size tier=thorough bounded="pool of 7 tables (4 path + 3 allocatable); tree-shaped sparse pre-state (target path, one neighbour word per path table, garbage in allocatable frames); page-table indices (256,0,510,511)"
    //@ obligation C11 C11.update_flags_4kib.shape_sym.target_keeps_frame_and_size tier=thorough bounded="pool of 7 tables (4 path + 3 allocatable); tree-shaped sparse pre-state (target path, one neighbour word per path table, garbage in allocatable frames); page-table indices (256,0,510,511)"
    //@ obligation C01 C01.update_flags_4kib.shape_sym.target_leaf_flags_replaced tier=thorough bounded="pool of 7 tables (4 path + 3 allocatable); tree-shaped sparse pre-state (target path, one neighbour word per path table, garbage in allocatable frames); page-table indices (256,0,510,511)"
    //@ obligation C11 C11.update_flags_4kib.shape_sym.target_leaf_flags_replaced tier=thorough bounded="pool of 7 tables (4 path + 3 allocatable); tree-shaped sparse pre-state (target path, one neighbour word per path table, garbage in allocatable frames); page-table indices (256,0,510,511)"
    //@ obligation C01 C01.update_flags_4kib.shape_sym.other_addresses_unchanged tier=thorough bounded="pool of 7 tables (4 path + 3 allocatable); tree-shaped sparse pre-state (target path, one neighbour word per path table, garbage in allocatable frames); page-table indices (256,0,510,511)"
    //@ obligation C11 C11.update_flags_4kib.shape_sym.other_addresses_unchanged tier=thorough bounded="pool of 7 tables (4 path + 3 allocatable); tree-shaped sparse pre-state (target path, one neighbour word per path table, garbage in allocatable frames); page-table indices (256,0,510,511)"
    //@ obligation C01 C01.update_flags_4kib.shape_sym.result_reports_page tier=thorough bounded="pool of 7 tables (4 path + 3 allocatable); tree-shaped sparse pre-state (target path, one neighbour word per path table, garbage in allocatable frames); page-table indices (256,0,510,511)"
    //@ obligation C11 C11.update_flags_4kib.shape_sym.token_names_page tier=thorough bounded="pool of 7 tables (4 path + 3 allocatable); tree-shaped sparse pre-state (target path, one neighbour word per path table, garbage in allocatable frames); page-table indices (256,0,510,511)"
    //@ obligation C02 C02.update_flags_4kib.shape_sym.documented_outcome tier=thorough bounded="pool of 7 tables (4 path + 3 allocatable); tree-shaped sparse pre-state (target path, one neighbour word per path table, garbage in allocatable frames); page-table indices (256,0,510,511)"
    //@ obligation C01 C01.update_flags_4kib.shape_sym.translate_agrees_after tier=thorough bounded="pool of 7 tables (4 path + 3 allocatable); tree-shaped sparse pre-state (target path, one neighbour word per path table, garbage in allocatable frames); page-table indices (256,0,510,511)"
    //@ obligation C09 C09.update_flags_4kib.shape_sym.only_dictated_slots_change tier=thorough bounded="pool of 7 tables (4 path + 3 allocatable); tree-shaped sparse pre-state (target path, one neighbour word per path table, garbage in allocatable frames); page-table indices (256,0,510,511)"
    //@ obligation C09 C09.update_flags_4kib.shape_sym.no_frames_requested_or_zeroed tier=thorough bounded="pool of 7 tables (4 path + 3 allocatable); tree-shaped sparse pre-state (target path, one neighbour word per path table, garbage in allocatable frames); page-table indices (256,0,510,511)"
    //@ obligation C09 C09.update_flags_4kib.shape_sym.no_dangling_table_pointer tier=thorough bounded="pool of 7 tables (4 path + 3 allocatable); tree-shaped sparse pre-state (target path, one neighbour word per path table, garbage in allocatable frames); page-table indices (256,0,510,511)"
    //@ obligation C09 C09.update_flags_4kib.shape_sym.no_access_outside_page_tables tier=thorough bounded="pool of 7 tables (4 path + 3 allocatable); tree-shaped sparse pre-state (target path, one neighbour word per path table, garbage in allocatable frames); page-table indices (256,0,510,511)"
    //@ obligation C02 C02.update_flags_4kib.shape_sym.error_leaves_every_mapping tier=thorough bounded="pool of 7 tables (4 path + 3 allocatable); tree-shaped sparse pre-state (target path, one neighbour word per path table, garbage in allocatable frames); page-table indices (256,0,510,511)"
    #[kani::proof]
    #[kani::stub(PageTable::zero, zero_stub)]
    fn c01_update_flags_4kib_sym_up() {
        update_flags_step!(Size4KiB, "4kib", "sym", P1_SYM, IDX_UP);
        kani::cover!(true, "c01_update_flags_4kib_sym_up: reachable");
    }

    //@ obligation C02 C02.update_flags_2mib.shape_p4_absent.error_leaves_every_mapping bounded="pool of 7 tables (4 path + 3 allocatable); tree-shaped sparse pre-state (target path, one neighbour word per path table, garbage in allocatable frames); page-table indices (0,1,511,2)"
    //@ obligation C02 C02.update_flags_2mib.shape_p4_absent.documented_outcome bounded="pool of 7 tables (4 path + 3 allocatable); tree-shaped sparse pre-state (target path, one neighbour word per path table, garbage in allocatable frames); page-table indices (0,1,511,2)"
    //@ obligation C01 C01.update_flags_2mib.shape_p4_absent.translate_agrees_after bounded="pool of 7 tables (4 path + 3 allocatable); tree-shaped sparse pre-state (target path, one neighbour word per path table, garbage in allocatable frames); page-table indices (0,1,511,2)"
    //@ obligation C09 C09.update_flags_2mib.shape_p4_absent.only_dictated_slots_change bounded="pool of 7 tables (4 path + 3 allocatable); tree-shaped sparse pre-state (target path, one neighbour word per path table, garbage in allocatable frames); page-table indices (0,1,511,2)"
    //@ obligation C09 C09.update_flags_2mib.shape_p4_absent.no_frames_requested_or_zeroed bounded="pool of 7 tables (4 path + 3 allocatable); tree-shaped sparse pre-state (target path, one neighbour word per path table, garbage in allocatable frames); page-table indices (0,1,511,2)"
    //@ obligation C09 C09.update_flags_2mib.shape_p4_absent.no_dangling_table_pointer bounded="pool of 7 tables (4 path + 3 allocatable); tree-shaped sparse pre-state (target path, one neighbour word per path table, garbage in allocatable frames); page-table indices (0,1,511,2)"
    //@ obligation C09 C09.update_flags_2mib.shape_p4_absent.no_access_outside_page_tables bounded="pool of 7 tables (4 path + 3 allocatable); tree-shaped sparse pre-state (target path, one neighbour word per path table, garbage in allocatable frames); page-table indices (0,1,511,2)"
    #[kani::proof]
    #[kani::stub(PageTable::zero, zero_stub)]
    fn c01_update_flags_2mib_p4_absent_lo() {
        update_flags_step!(Size2MiB, "2mib", "p4_absent", P4_ABSENT, IDX_LO);
        kani::cover!(true, "c01_update_flags_2mib_p4_absent_lo: reachable");
    }

    //@ obligation C02 C02.update_flags_2mib.shape_p4_absent.error_leaves_every_mapping tier=thorough bounded="pool of 7 tables (4 path + 3 allocatable); tree-shaped sparse pre-state (target path, one neighbour word per path table, garbage in allocatable frames); page-table indices (511,510,1,0)"
    //@ obligation C02 C02.update_flags_2mib.shape_p4_absent.documented_outcome tier=thorough bounded="pool of 7 tables (4 path + 3 allocatable); tree-shaped sparse pre-state (target path, one neighbour word per path table, garbage in allocatable frames); page-table indices (511,510,1,0)"
    //@ obligation C01 C01.update_flags_2mib.shape_p4_absent.translate_agrees_after tier=thorough bounded="pool of 7 tables (4 path + 3 allocatable); tree-shaped sparse pre-state (target path, one neighbour word per path table, garbage in allocatable frames); page-table indices (511,510,1,0)"
    //@ obligation C09 C09.update_flags_2mib.shape_p4_absent.only_dictated_slots_change tier=thorough bounded="pool of 7 tables (4 path + 3 allocatable); tree-shaped sparse pre-state (target path, one neighbour word per path table, garbage in allocatable frames); page-table indices (511,510,1,0)"
    //@ obligation C09 C09.update_flags_2mib.shape_p4_absent.no_frames_requested_or_zeroed tier=thorough bounded="pool of 7 tables (4 path + 3 allocatable); tree-shaped sparse pre-state (target path, one neighbour word per path table, garbage in allocatable frames); page-table indices (511,510,1,0)"
    //@ obligation C09 C09.update_flags_2mib.shape_p4_absent.no_dangling_table_pointer tier=thorough bounded="pool of 7 tables (4 path + 3 allocatable); tree-shaped sparse pre-state (target path, one neighbour word per path table, garbage in allocatable frames); page-table indices (511,510,1,0)"
    //@ obligation C09 C09.update_flags_2mib.shape_p4_absent.no_access_outside_page_tables tier=thorough bounded="pool of 7 tables (4 path + 3 allocatable); tree-shaped sparse pre-state (target path, one neighbour word per path table, garbage in allocatable frames); page-table indices (511,510,1,0)"
    #[kani::proof]
    #[kani::stub(PageTable::zero, zero_stub)]
    fn c01_update_flags_2mib_p4_absent_hi() {
        update_flags_step!(Size2MiB, "2mib", "p4_absent", P4_ABSENT, IDX_HI);
        kani::cover!(true, "c01_update_flags_2mib_p4_absent_hi: reachable");
    }

    //@ obligation C02 C02.update_flags_2mib.shape_p4_absent.error_leaves_every_mapping tier=thorough bounded="pool of 7 tables (4 path + 3 allocatable); tree-shaped sparse pre-state (target path, one neighbour word per path table, garbage in allocatable frames); page-table indices (255,511,0,256)"
    //@ obligation C02 C02.update_flags_2mib.shape_p4_absent.documented_outcome tier=thorough bounded="pool of 7 tables (4 path + 3 allocatable); tree-shaped sparse pre-state (target path, one neighbour word per path table, garbage in allocatable frames); page-table indices (255,511,0,256)"
    //@ obligation C01 C01.update_flags_2mib.shape_p4_absent.translate_agrees_after tier=thorough bounded="pool of 7 tables (4 path + 3 allocatable); tree-shaped sparse pre-state (target path, one neighbour word per path table, garbage in allocatable frames); page-table indices (255,511,0,256)"
    //@ obligation C09 C09.update_flags_2mib.shape_p4_absent.only_dictated_slots_change tier=thorough bounded="pool of 7 tables (4 path + 3 allocatable); tree-shaped sparse pre-state (target path, one neighbour word per path table, garbage in allocatable frames); page-table indices (255,511,0,256)"
    //@ obligation C09 C09.update_flags_2mib.shape_p4_absent.no_frames_requested_or_zeroed tier=thorough bounded="pool of 7 tables (4 path + 3 allocatable); tree-shaped sparse pre-state (target path, one neighbour word per path table, garbage in allocatable frames); page-table indices (255,511,0,256)"
    //@ obligation C09 C09.update_flags_2mib.shape_p4_absent.no_dangling_table_pointer tier=thorough bounded="pool of 7 tables (4 path + 3 allocatable); tree-shaped sparse pre-state (target path, one neighbour word per path table, garbage in allocatable frames); page-table indices (255,511,0,256)"
    //@ obligation C09 C09.update_flags_2mib.shape_p4_absent.no_access_outside_page_tables tier=thorough bounded="pool of 7 tables (4 path + 3 allocatable); tree-shaped sparse pre-state (target path, one neighbour word per path table, garbage in allocatable frames); page-table indices (255,511,0,256)"
    #[kani::proof]
    #[kani::stub(PageTable::zero, zero_stub)]
    fn c01_update_flags_2mib_p4_absent_mid() {
        update_flags_step!(Size2MiB, "2mib", "p4_absent", P4_ABSENT, IDX_MID);
        kani::cover!(true, "c01_update_flags_2mib_p4_absent_mid: reachable");
    }

    //@ obligation C02 C02.update_flags_2mib.shape_p4_absent.error_leaves_every_mapping tier=thorough bounded="pool of 7 tables (4 path + 3 allocatable); tree-shaped sparse pre-state (target path, one neighbour word per path table, garbage in allocatable frames); page-table indices (256,0,510,511)"
    //@ obligation C02 C02.update_flags_2mib.shape_p4_absent.documented_outcome tier=thorough bounded="pool of 7 tables (4 path + 3 allocatable); tree-shaped sparse pre-state (target path, one neighbour word per path table, garbage in allocatable frames); page-table indices (256,0,510,511)"
    //@ obligation C01 C01.update_flags_2mib.shape_p4_absent.translate_agrees_after tier=thorough bounded="pool of 7 tables (4 path + 3 allocatable); tree-shaped sparse pre-state (target path, one neighbour word per path table, garbage in allocatable frames); page-table indices (256,0,510,511)"
    //@ obligation C09 C09.update_flags_2mib.shape_p4_absent.only_dictated_slots_change tier=thorough bounded="pool of 7 tables (4 path + 3 allocatable); tree-shaped sparse pre-state (target path, one neighbour word per path table, garbage in allocatable frames); page-table indices (256,0,510,511)"
    //@ obligation C09 C09.update_flags_2mib.shape_p4_absent.no_frames_requested_or_zeroed tier=thorough bounded="pool of 7 tables (4 path + 3 allocatable); tree-shaped sparse pre-state (target path, one neighbour word per path table, garbage in allocatable frames); page-table indices (256,0,510,511)"
    //@ obligation C09 C09.update_flags_2mib.shape_p4_absent.no_dangling_table_pointer tier=thorough bounded="pool of 7 tables (4 path + 3 allocatable); tree-shaped sparse pre-state (target path, one neighbour word per path table, garbage in allocatable frames); page-table indices (256,0,510,511)"
    //@ obligation C09 C09.update_flags_2mib.shape_p4_absent.no_access_outside_page_tables tier=thorough bounded="pool of 7 tables (4 path + 3 allocatable); tree-shaped sparse pre-state (target path, one neighbour word per path table, garbage in allocatable frames); page-table indices (256,0,510,511)"
    #[kani::proof]
    #[kani::stub(PageTable::zero, zero_stub)]
    fn c01_update_flags_2mib_p4_absent_up() {
        update_flags_step!(Size2MiB, "2mib", "p4_absent", P4_ABSENT, IDX_UP);
        kani::cover!(true, "c01_update_flags_2mib_p4_absent_up: reachable");
    }

    //@ obligation C02 C02.update_flags_2mib.shape_p3_absent.error_leaves_every_mapping bounded="pool of 7 tables (4 path + 3 allocatable); tree-shaped sparse pre-state (target path, one neighbour word per path table, garbage in allocatable frames); page-table indices (0,1,511,2)"
    //@ obligation C02 C02.update_flags_2mib.shape_p3_absent.documented_outcome bounded="pool of 7 tables (4 path + 3 allocatable); tree-shaped sparse pre-state (target path, one neighbour word per path table, garbage in allocatable frames); page-table indices (0,1,511,2)"
    //@ obligation C01 C01.update_flags_2mib.shape_p3_absent.translate_agrees_after bounded="pool of 7 tables (4 path + 3 allocatable); tree-shaped sparse pre-state (target path, one neighbour word per path table, garbage in allocatable frames); page-table indices (0,1,511,2)"
    //@ obligation C09 C09.update_flags_2mib.shape_p3_absent.only_dictated_slots_change bounded="pool of 7 tables (4 path + 3 allocatable); tree-shaped sparse pre-state (target path, one neighbour word per path table, garbage in allocatable frames); page-table indices (0,1,511,2)"
    //@ obligation C09 C09.update_flags_2mib.shape_p3_absent.no_frames_requested_or_zeroed bounded="pool of 7 tables (4 path + 3 allocatable); tree-shaped sparse pre-state (target path, one neighbour word per path table, garbage in allocatable frames); page-table indices (0,1,511,2)"
    //@ obligation C09 C09.update_flags_2mib.shape_p3_absent.no_dangling_table_pointer bounded="pool of 7 tables (4 path + 3 allocatable); tree-shaped sparse pre-state (target path, one neighbour word per path table, garbage in allocatable frames); page-table indices (0,1,511,2)"
    //@ obligation C09 C09.update_flags_2mib.shape_p3_absent.no_access_outside_page_tables bounded="pool of 7 tables (4 path + 3 allocatable); tree-shaped sparse pre-state (target path, one neighbour word per path table, garbage in allocatable frames); page-table indices (0,1,511,2)"
    #[kani::proof]
    #[kani::stub(PageTable::zero, zero_stub)]
    fn c01_update_flags_2mib_p3_absent_lo() {
        update_flags_step!(Size2MiB, "2mib", "p3_absent", P3_ABSENT, IDX_LO);
        kani::cover!(true, "c01_update_flags_2mib_p3_absent_lo: reachable");
    }

    //@ obligation C02 C02.update_flags_2mib.shape_p3_absent.error_leaves_every_mapping tier=thorough bounded="pool of 7 tables (4 path + 3 allocatable); tree-shaped sparse pre-state (target path, one neighbour word per path table, garbage in allocatable frames); page-table indices (511,510,1,0)"
    //@ obligation C02 C02.update_flags_2mib.shape_p3_absent.documented_outcome tier=thorough bounded="pool of 7 tables (4 path + 3 allocatable); tree-shaped sparse pre-state (target path, one neighbour word per path table, garbage in allocatable frames); page-table indices (511,510,1,0)"
    //@ obligation C01 C01.update_flags_2mib.shape_p3_absent.translate_agrees_after tier=thorough bounded="pool of 7 tables (4 path + 3 allocatable); tree-shaped sparse pre-state (target path, one neighbour word per path table, garbage in allocatable frames); page-table indices (511,510,1,0)"
    //@ obligation C09 C09.update_flags_2mib.shape_p3_absent.only_dictated_slots_change tier=thorough bounded="pool of 7 tables (4 path + 3 allocatable); tree-shaped sparse pre-state (target path, one neighbour word per path table, garbage in allocatable frames); page-table indices (511,510,1,0)"
    //@ obligation C09 C09.update_flags_2mib.shape_p3_absent.no_frames_requested_or_zeroed tier=thorough bounded="pool of 7 tables (4 path + 3 allocatable); tree-shaped sparse pre-state (target path, one neighbour word per path table, garbage in allocatable frames); page-table indices (511,510,1,0)"
    //@ obligation C09 C09.update_flags_2mib.shape_p3_absent.no_dangling_table_pointer tier=thorough bounded="pool of 7 tables (4 path + 3 allocatable); tree-shaped sparse pre-state (target path, one neighbour word per path table, garbage in allocatable frames); page-table indices (511,510,1,0)"
    //@ obligation C09 C09.update_flags_2mib.shape_p3_absent.no_access_outside_page_tables tier=thorough bounded="pool of 7 tables (4 path + 3 allocatable); tree-shaped sparse pre-state (target path, one neighbour word per path table, garbage in allocatable frames); page-table indices (511,510,1,0)"
    #[kani::proof]
    #[kani::stub(PageTable::zero, zero_stub)]
    fn c01_update_flags_2mib_p3_absent_hi() {
        update_flags_step!(Size2MiB, "2mib", "p3_absent", P3_ABSENT, IDX_HI);
        kani::cover!(true, "c01_update_flags_2mib_p3_absent_hi: reachable");
    }

    //@ obligation C02 C02.update_flags_2mib.shape_p3_absent.error_leaves_every_mapping tier=thorough bounded="pool of 7 tables (4 path + 3 allocatable); tree-shaped sparse pre-state (target path, one neighbour word per path table, garbage in allocatable frames); page-table indices (255,511,0,256)"
    //@ obligation C02 C02.update_flags_2mib.shape_p3_absent.documented_outcome tier=thorough bounded="pool of 7 tables (4 path + 3 allocatable); tree-shaped sparse pre-state (target path, one neighbour word per path table, garbage in allocatable frames); page-table indices (255,511,0,256)"
    //@ obligation C01 C01.update_flags_2mib.shape_p3_absent.translate_agrees_after tier=thorough bounded="pool of 7 tables (4 path + 3 allocatable); tree-shaped sparse pre-state (target path, one neighbour word per path table, garbage in allocatable frames); page-table indices (255,511,0,256)"
    //@ obligation C09 C09.update_flags_2mib.shape_p3_absent.only_dictated_slots_change tier=thorough bounded="pool of 7 tables (4 path + 3 allocatable); tree-shaped sparse pre-state (target path, one neighbour word per path table, garbage in allocatable frames); page-table indices (255,511,0,256)"
    //@ obligation C09 C09.update_flags_2mib.shape_p3_absent.no_frames_requested_or_zeroed tier=thorough bounded="pool of 7 tables (4 path + 3 allocatable); tree-shaped sparse pre-state (target path, one neighbour word per path table, garbage in allocatable frames); page-table indices (255,511,0,256)"
    //@ obligation C09 C09.update_flags_2mib.shape_p3_absent.no_dangling_table_pointer tier=thorough bounded="pool of 7 tables (4 path + 3 allocatable); tree-shaped sparse pre-state (target path, one neighbour word per path table, garbage in allocatable frames); page-table indices (255,511,0,256)"
    //@ obligation C09 C09.update_flags_2mib.shape_p3_absent.no_access_outside_page_tables tier=thorough bounded="pool of 7 tables (4 path + 3 allocatable); tree-shaped sparse pre-state (target path, one neighbour word per path table, garbage in allocatable frames); page-table indices (255,511,0,256)"
    #[kani::proof]
    #[kani::stub(PageTable::zero, zero_stub)]
    fn c01_update_flags_2mib_p3_absent_mid() {
        update_flags_step!(Size2MiB, "2mib", "p3_absent", P3_ABSENT, IDX_MID);
        kani::cover!(true, "c01_update_flags_2mib_p3_absent_mid: reachable");
    }

    //@ obligation C02 C02.update_flags_2mib.shape_p3_absent.error_leaves_every_mapping tier=thorough bounded="pool of 7 tables (4 path + 3 allocatable); tree-shaped sparse pre-state (target path, one neighbour word per path table, garbage in allocatable frames); page-table indices (256,0,510,511)"
    //@ obligation C02 C02.update_flags_2mib.shape_p3_absent.documented_outcome tier=thorough bounded="pool of 7 tables (4 path + 3 allocatable); tree-shaped sparse pre-state (target path, one neighbour word per path table, garbage in allocatable frames); page-table indices (256,0,510,511)"
    //@ obligation C01 C01.update_flags_2mib.shape_p3_absent.translate_agrees_after tier=thorough bounded="pool of 7 tables (4 path + 3 allocatable); tree-shaped sparse pre-state (target path, one neighbour word per path table, garbage in allocatable frames); page-table indices (256,0,510,511)"
    //@ obligation C09 C09.update_flags_2mib.shape_p3_absent.only_dictated_slots_change tier=thorough bounded="pool of 7 tables (4 path + 3 allocatable); tree-shaped sparse pre-state (target path, one neighbour word per path table, garbage in allocatable frames); page-table indices (256,0,510,511)"
    //@ obligation C09 C09.update_flags_2mib.shape_p3_absent.no_frames_requested_or_zeroed tier=thorough bounded="pool of 7 tables (4 path + 3 allocatable); tree-shaped sparse pre-state (target path, one neighbour word per path table, garbage in allocatable frames); page-table indices (256,0,510,511)"
    //@ obligation C09 C09.update_flags_2mib.shape_p3_absent.no_dangling_table_pointer tier=thorough bounded="pool of 7 tables (4 path + 3 allocatable); tree-shaped sparse pre-state (target path, one neighbour word per path table, garbage in allocatable frames); page-table indices (256,0,510,511)"
    //@ obligation C09 C09.update_flags_2mib.shape_p3_absent.no_access_outside_page_tables tier=thorough bounded="pool of 7 tables (4 path + 3 allocatable); tree-shaped sparse pre-state (target path, one neighbour word per path table, garbage in allocatable frames); page-table indices (256,0,510,511)"
    #[kani::proof]
    #[kani::stub(PageTable::zero, zero_stub)]
    fn c01_update_flags_2mib_p3_absent_up() {
        update_flags_step!(Size2MiB, "2mib", "p3_absent", P3_ABSENT, IDX_UP);
        kani::cover!(true, "c01_update_flags_2mib_p3_absent_up: reachable");
    }

    //@ obligation C02 C02.update_flags_2mib.shape_p3_huge.error_leaves_every_mapping bounded="pool of 7 tables (4 path + 3 allocatable); tree-shaped sparse pre-state (target path, one neighbour word per path table, garbage in allocatable frames); page-table indices (0,1,511,2)"
    //@ obligation C02 C02.update_flags_2mib.shape_p3_huge.documented_outcome bounded="pool of 7 tables (4 path + 3 allocatable); tree-shaped sparse pre-state (target path, one neighbour word per path table, garbage in allocatable frames); page-table indices (0,1,511,2)"
    //@ obligation C01 C01.update_flags_2mib.shape_p3_huge.translate_agrees_after bounded="pool of 7 tables (4 path + 3 allocatable); tree-shaped sparse pre-state (target path, one neighbour word per path table, garbage in allocatable frames); page-table indices (0,1,511,2)"
    //@ obligation C09 C09.update_flags_2mib.shape_p3_huge.only_dictated_slots_change bounded="pool of 7 tables (4 path + 3 allocatable); tree-shaped sparse pre-state (target path, one neighbour word per path table, garbage in allocatable frames); page-table indices (0,1,511,2)"
    //@ obligation C09 C09.update_flags_2mib.shape_p3_huge.no_frames_requested_or_zeroed bounded="pool of 7 tables (4 path + 3 allocatable); tree-shaped sparse pre-state (target path, one neighbour word per path table, garbage in allocatable frames); page-table indices (0,1,511,2)"
    //@ obligation C09 C09.update_flags_2mib.shape_p3_huge.no_dangling_table_pointer bounded="pool of 7 tables (4 path + 3 allocatable); tree-shaped sparse pre-state (target path, one neighbour word per path table, garbage in allocatable frames); page-table indices (0,1,511,2)"
    //@ obligation C09 C09.update_flags_2mib.shape_p3_huge.no_access_outside_page_tables bounded="pool of 7 tables (4 path + 3 allocatable); tree-shaped sparse pre-state (target path, one neighbour word per path table, garbage in allocatable frames); page-table indices (0,1,511,2)"
    #[kani::proof]
    #[kani::stub(PageTable::zero, zero_stub)]
    fn c01_update_flags_2mib_p3_huge_lo() {
        update_flags_step!(Size2MiB, "2mib", "p3_huge", P3_HUGE, IDX_LO);
        kani::cover!(true, "c01_update_flags_2mib_p3_huge_lo: reachable");
    }

    //@ obligation C02 C02.update_flags_2mib.shape_p3_huge.error_leaves_every_mapping tier=thorough bounded="pool of 7 tables (4 path + 3 allocatable); tree-shaped sparse pre-state (target path, one neighbour word per path table, garbage in allocatable frames); page-table indices (511,510,1,0)"
    //@ obligation C02 C02.update_flags_2mib.shape_p3_huge.documented_outcome tier=thorough bounded="pool of 7 tables (4 path + 3 allocatable); tree-shaped sparse pre-state (target path, one neighbour word per path table, garbage in allocatable frames); page-table indices (511,510,1,0)"
    //@ obligation C01 C01.update_flags_2mib.shape_p3_huge.translate_agrees_after tier=thorough bounded="pool of 7 tables (4 path + 3 allocatable); tree-shaped sparse pre-state (target path, one neighbour word per path table, garbage in allocatable frames); page-table indices (511,510,1,0)"
    //@ obligation C09 C09.update_flags_2mib.shape_p3_huge.only_dictated_slots_change tier=thorough bounded="pool of 7 tables (4 path + 3 allocatable); tree-shaped sparse pre-state (target path, one neighbour word per path table, garbage in allocatable frames); page-table indices (511,510,1,0)"
    //@ obligation C09 C09.update_flags_2mib.shape_p3_huge.no_frames_requested_or_zeroed tier=thorough bounded="pool of 7 tables (4 path + 3 allocatable); tree-shaped sparse pre-state (target path, one neighbour word per path table, garbage in allocatable frames); page-table indices (511,510,1,0)"
    //@ obligation C09 C09.update_flags_2mib.shape_p3_huge.no_dangling_table_pointer tier=thorough bounded="pool of 7 tables (4 path + 3 allocatable); tree-shaped sparse pre-state (target path, one neighbour word per path table, garbage in allocatable frames); page-table indices (511,510,1,0)"
    //@ obligation C09 C09.update_flags_2mib.shape_p3_huge.no_access_outside_page_tables tier=thorough bounded="pool of 7 tables (4 path + 3 allocatable); tree-shaped sparse pre-state (target path, one neighbour word per path table, garbage in allocatable frames); page-table indices (511,510,1,0)"
    #[kani::proof]
    #[kani::stub(PageTable::zero, zero_stub)]
    fn c01_update_flags_2mib_p3_huge_hi() {
        update_flags_step!(Size2MiB, "2mib", "p3_huge", P3_HUGE, IDX_HI);
        kani::cover!(true, "c01_update_flags_2mib_p3_huge_hi: reachable");
    }

    //@ obligation C02 C02.update_flags_2mib.shape_p3_huge.error_leaves_every_mapping tier=thorough bounded="pool of 7 tables (4 path + 3 allocatable); tree-shaped sparse pre-state (target path, one neighbour word per path table, garbage in allocatable frames); page-table indices (255,511,0,256)"
    //@ obligation C02 C02.update_flags_2mib.shape_p3_huge.documented_outcome tier=thorough bounded="pool of 7 tables (4 path + 3 allocatable); tree-shaped sparse pre-state (target path, one neighbour word per path table, garbage in allocatable frames); page-table indices (255,511,0,256)"
    //@ obligation C01 C01.update_flags_2mib.shape_p3_huge.translate_agrees_after tier=thorough bounded="pool of 7 tables (4 path + 3 allocatable); tree-shaped sparse pre-state (target path, one neighbour word per path table, garbage in allocatable frames); page-table indices (255,511,0,256)"
    //@ obligation C09 C09.update_flags_2mib.shape_p3_huge.only_dictated_slots_change tier=thorough bounded="pool of 7 tables (4 path + 3 allocatable); tree-shaped sparse pre-state (target path, one neighbour word per path table, garbage in allocatable frames); page-table indices (255,511,0,256)"
    //@ obligation C09 C09.update_flags_2mib.shape_p3_huge.no_frames_requested_or_zeroed tier=thorough bounded="pool of 7 tables (4 path + 3 allocatable); tree-shaped sparse pre-state (target path, one neighbour word per path table, garbage in allocatable frames); page-table indices (255,511,0,256)"
    //@ obligation C09 C09.update_flags_2mib.shape_p3_huge.no_dangling_table_pointer tier=thorough bounded="pool of 7 tables (4 path + 3 allocatable); tree-shaped sparse pre-state (target path, one neighbour word per path table, garbage in allocatable frames); page-table indices (255,511,0,256)"
    //@ obligation C09 C09.update_flags_2mib.shape_p3_huge.no_access_outside_page_tables tier=thorough bounded="pool of 7 tables (4 path + 3 allocatable); tree-shaped sparse pre-state (target path, one neighbour word per path table, garbage in allocatable frames); page-table indices (255,511,0,256)"
    #[kani::proof]
    #[kani::stub(PageTable::zero, zero_stub)]
    fn c01_update_flags_2mib_p3_huge_mid() {
        update_flags_step!(Size2MiB, "2mib", "p3_huge", P3_HUGE, IDX_MID);
        kani::cover!(true, "c01_update_flags_2mib_p3_huge_mid: reachable");
    }

    //@ obligation C02 C02.update_flags_2mib.shape_p3_huge.error_leaves_every_mapping tier=thorough bounded="pool of 7 tables (4 path + 3 allocatable); tree-shaped sparse pre-state (target path, one neighbour word per path table, garbage in allocatable frames); page-table indices (256,0,510,511)"
    //@ obligation C02 C02.update_flags_2mib.shape_p3_huge.documented_outcome tier=thorough bounded="pool of 7 tables (4 path + 3 allocatable); tree-shaped sparse pre-state (target path, one neighbour word per path table, garbage in allocatable frames); page-table indices (256,0,510,511)"
    //@ obligation C01 C01.update_flags_2mib.shape_p3_huge.translate_agrees_after tier=thorough bounded="pool of 7 tables (4 path + 3 allocatable); tree-shaped sparse pre-state (target path, one neighbour word per path table, garbage in allocatable frames); page-table indices (256,0,510,511)"
    //@ obligation C09 C09.update_flags_2mib.shape_p3_huge.only_dictated_slots_change tier=thorough bounded="pool of 7 tables (4 path + 3 allocatable); tree-shaped sparse pre-state (target path, one neighbour word per path table, garbage in allocatable frames); page-table indices (256,0,510,511)"
    //@ obligation C09 C09.update_flags_2mib.shape_p3_huge.no_frames_requested_or_zeroed tier=thorough bounded="pool of 7 tables (4 path + 3 allocatable); tree-shaped sparse pre-state (target path, one neighbour word per path table, garbage in allocatable frames); page-table indices (256,0,510,511)"
    //@ obligation C09 C09.update_flags_2mib.shape_p3_huge.no_dangling_table_pointer tier=thorough bounded="pool of 7 tables (4 path + 3 allocatable); tree-shaped sparse pre-state (target path, one neighbour word per path table, garbage in allocatable frames); page-table indices (256,0,510,511)"
    //@ obligation C09 C09.update_flags_2mib.shape_p3_huge.no_access_outside_page_tables tier=thorough bounded="pool of 7 tables (4 path + 3 allocatable); tree-shaped sparse pre-state (target path, one neighbour word per path table, garbage in allocatable frames); page-table indices (256,0,510,511)"
    #[kani::proof]
    #[kani::stub(PageTable::zero, zero_stub)]
    fn c01_update_flags_2mib_p3_huge_up() {
        update_flags_step!(Size2MiB, "2mib", "p3_huge", P3_HUGE, IDX_UP);
        kani::cover!(true, "c01_update_flags_2mib_p3_huge_up: reachable");
    }

    //@ obligation C02 C02.update_flags_2mib.shape_p2_absent.error_leaves_every_mapping tier=thorough bounded="pool of 7 tables (4 path + 3 allocatable); tree-shaped sparse pre-state (target path, one neighbour word per path table, garbage in allocatable frames); page-table indices (0,1,511,2)"
    //@ obligation C02 C02.update_flags_2mib.shape_p2_absent.documented_outcome tier=thorough bounded="pool of 7 tables (4 path + 3 allocatable); tree-shaped sparse pre-state (target path, one neighbour word per path table, garbage in allocatable frames); page-table indices (0,1,511,2)"
    //@ obligation C01 C01.update_flags_2mib.shape_p2_absent.translate_agrees_after tier=thorough bounded="pool of 7 tables (4 path + 3 allocatable); tree-shaped sparse pre-state (target path, one neighbour word per path table, garbage in allocatable frames); page-table indices (0,1,511,2)"
    //@ obligation C09 C09.update_flags_2mib.shape_p2_absent.only_dictated_slots_change tier=thorough bounded="pool of 7 tables (4 path + 3 allocatable); tree-shaped sparse pre-state (target path, one neighbour word per path table, garbage in allocatable frames); page-table indices (0,1,511,2)"
    //@ obligation C09 C09.update_flags_2mib.shape_p2_absent.no_frames_requested_or_zeroed tier=thorough bounded="pool of 7 tables (4 path + 3 allocatable); tree-shaped sparse pre-state (target path, one neighbour word per path table, garbage in allocatable frames); page-table indices (0,1,511,2)"
    //@ obligation C09 C09.update_flags_2mib.shape_p2_absent.no_dangling_table_pointer tier=thorough bounded="pool of 7 tables (4 path + 3 allocatable); tree-shaped sparse pre-state (target path, one neighbour word per path table, garbage in allocatable frames); page-table indices (0,1,511,2)"
    //@ obligation C09 C09.update_flags_2mib.shape_p2_absent.no_access_outside_page_tables tier=thorough bounded="pool of 7 tables (4 path + 3 allocatable); tree-shaped sparse pre-state (target path, one neighbour word per path table, garbage in allocatable frames); page-table indices (0,1,511,2)"
    #[kani::proof]
    #[kani::stub(PageTable::zero, zero_stub)]
    fn c01_update_flags_2mib_p2_absent_lo() {
        update_flags_step!(Size2MiB, "2mib", "p2_absent", P2_ABSENT, IDX_LO);
        kani::cover!(true, "c01_update_flags_2mib_p2_absent_lo: reachable");
    }

    //@ obligation C02 C02.update_flags_2mib.shape_p2_absent.error_leaves_every_mapping bounded="pool of 7 tables (4 path + 3 allocatable); tree-shaped sparse pre-state (target path, one neighbour word per path table, garbage in allocatable frames); page-table indices (511,510,1,0)"
    //@ obligation C02 C02.update_flags_2mib.shape_p2_absent.documented_outcome bounded="pool of 7 tables (4 path + 3 allocatable); tree-shaped sparse pre-state (target path, one neighbour word per path table, garbage in allocatable frames); page-table indices (511,510,1,0)"
    //@ obligation C01 C01.update_flags_2mib.shape_p2_absent.translate_agrees_after bounded="pool of 7 tables (4 path + 3 allocatable); tree-shaped sparse pre-state (target path, one neighbour word per path table, garbage in allocatable frames); page-table indices (511,510,1,0)"
    //@ obligation C09 C09.update_flags_2mib.shape_p2_absent.only_dictated_slots_change bounded="pool of 7 tables (4 path + 3 allocatable); tree-shaped sparse pre-state (target path, one neighbour word per path table, garbage in allocatable frames); page-table indices (511,510,1,0)"
    //@ obligation C09 C09.update_flags_2mib.shape_p2_absent.no_frames_requested_or_zeroed bounded="pool of 7 tables (4 path + 3 allocatable); tree-shaped sparse pre-state (target path, one neighbour word per path table, garbage in allocatable frames); page-table indices (511,510,1,0)"
    //@ obligation C09 C09.update_flags_2mib.shape_p2_absent.no_dangling_table_pointer bounded="pool of 7 tables (4 path + 3 allocatable); tree-shaped sparse pre-state (target path, one neighbour word per path table, garbage in allocatable frames); page-table indices (511,510,1,0)"
    //@ obligation C09 C09.update_flags_2mib.shape_p2_absent.no_access_outside_page_tables bounded="pool of 7 tables (4 path + 3 allocatable); tree-shaped sparse pre-state (target path, one neighbour word per path table, garbage in allocatable frames); page-table indices (511,510,1,0)"
    #[kani::proof]
    #[kani::stub(PageTable::zero, zero_stub)]
    fn c01_update_flags_2mib_p2_absent_hi() {
        update_flags_step!(Size2MiB, "2mib", "p2_absent", P2_ABSENT, IDX_HI);
        kani::cover!(true, "c01_update_flags_2mib_p2_absent_hi: reachable");
    }

    //@ obligation C02 C02.update_flags_2mib.shape_p2_absent.error_leaves_every_mapping tier=thorough bounded="pool of 7 tables (4 path + 3 allocatable); tree-shaped sparse pre-state (target path, one neighbour word per path table, garbage in allocatable frames); page-table indices (255,511,0,256)"
    //@ obligation C02 C02.update_flags_2mib.shape_p2_absent.documented_outcome tier=thorough bounded="pool of 7 tables (4 path + 3 allocatable); tree-shaped sparse pre-state (target path, one neighbour word per path table, garbage in allocatable frames); page-table indices (255,511,0,256)"
    //@ obligation C01 C01.update_flags_2mib.shape_p2_absent.translate_agrees_after tier=thorough bounded="pool of 7 tables (4 path + 3 allocatable); tree-shaped sparse pre-state (target path, one neighbour word per path table, garbage in allocatable frames); page-table indices (255,511,0,256)"
    //@ obligation C09 C09.update_flags_2mib.shape_p2_absent.only_dictated_slots_change tier=thorough bounded="pool of 7 tables (4 path + 3 allocatable); tree-shaped sparse pre-state (target path, one neighbour word per path table, garbage in allocatable frames); page-table indices (255,511,0,256)"
    //@ obligation C09 C09.update_flags_2mib.shape_p2_absent.no_frames_requested_or_zeroed tier=thorough bounded="pool of 7 tables (4 path + 3 allocatable); tree-shaped sparse pre-state (target path, one neighbour word per path table, garbage in allocatable frames); page-table indices (255,511,0,256)"
    //@ obligation C09 C09.update_flags_2mib.shape_p2_absent.no_dangling_table_pointer tier=thorough bounded="pool of 7 tables (4 path + 3 allocatable); tree-shaped sparse pre-state (target path, one neighbour word per path table, garbage in allocatable frames); page-table indices (255,511,0,256)"
    //@ obligation C09 C09.update_flags_2mib.shape_p2_absent.no_access_outside_page_tables tier=thorough bounded="pool of 7 tables (4 path + 3 allocatable); tree-shaped sparse pre-state (target path, one neighbour word per path table, garbage in allocatable frames); page-table indices (255,511,0,256)"
    #[kani::proof]
    #[kani::stub(PageTable::zero, zero_stub)]
    fn c01_update_flags_2mib_p2_absent_mid() {
        update_flags_step!(Size2MiB, "2mib", "p2_absent", P2_ABSENT, IDX_MID);
        kani::cover!(true, "c01_update_flags_2mib_p2_absent_mid: reachable");
    }

    //@ obligation C02 C02.update_flags_2mib.shape_p2_absent.error_leaves_every_mapping tier=thorough bounded="pool of 7 tables (4 path + 3 allocatable); tree-shaped sparse pre-state (target path, one neighbour word per path table, garbage in allocatable frames); page-table indices (256,0,510,511)"
    //@ obligation C02 C02.update_flags_2mib.shape_p2_absent.documented_outcome tier=thorough bounded="pool of 7 tables (4 path + 3 allocatable); tree-shaped sparse pre-state (target path, one neighbour word per path table, garbage in allocatable frames); page-table indices (256,0,510,511)"
    //@ obligation C01 C01.update_flags_2mib.shape_p2_absent.translate_agrees_after tier=thorough bounded="pool of 7 tables (4 path + 3 allocatable); tree-shaped sparse pre-state (target path, one neighbour word per path table, garbage in allocatable frames); page-table indices (256,0,510,511)"
    //@ obligation C09 C09.update_flags_2mib.shape_p2_absent.only_dictated_slots_change tier=thorough bounded="pool of 7 tables (4 path + 3 allocatable); tree-shaped sparse pre-state (target path, one neighbour word per path table, garbage in allocatable frames); page-table indices (256,0,510,511)"
    //@ obligation C09 C09.update_flags_2mib.shape_p2_absent.no_frames_requested_or_zeroed tier=thorough bounded="pool of 7 tables (4 path + 3 allocatable); tree-shaped sparse pre-state (target path, one neighbour word per path table, garbage in allocatable frames); page-table indices (256,0,510,511)"
    //@ obligation C09 C09.update_flags_2mib.shape_p2_absent.no_dangling_table_pointer tier=thorough bounded="pool of 7 tables (4 path + 3 allocatable); tree-shaped sparse pre-state (target path, one neighbour word per path table, garbage in allocatable frames); page-table indices (256,0,510,511)"
    //@ obligation C09 C09.update_flags_2mib.shape_p2_absent.no_access_outside_page_tables tier=thorough bounded="pool of 7 tables (4 path + 3 allocatable); tree-shaped sparse pre-state (target path, one neighbour word per path table, garbage in allocatable frames); page-table indices (256,0,510,511)"
    #[kani::proof]
    #[kani::stub(PageTable::zero, zero_stub)]
    fn c01_update_flags_2mib_p2_absent_up() {
        update_flags_step!(Size2MiB, "2mib", "p2_absent", P2_ABSENT, IDX_UP);
        kani::cover!(true, "c01_update_flags_2mib_p2_absent_up: reachable");
    }

    //@ obligation C01 C01.update_flags_2mib.shape_p2_huge.target_keeps_frame_and_size tier=thorough bounded="pool of 7 tables (4 path + 3 allocatable); tree-shaped sparse pre-state (target path, one neighbour word per path table, garbage in allocatable frames); page-table indices (0,1,511,2)"
    //@ obligation C11 C11.update_flags_2mib.shape_p2_huge.target_keeps_frame_and_size tier=thorough bounded="pool of 7 tables (4 path + 3 allocatable); tree-shaped sparse pre-state (target path, one neighbour word per path table, garbage in allocatable frames); page-table indices (0,1,511,2)"
    //@ obligation C01 C01.update_flags_2mib.shape_p2_huge.target_leaf_flags_replaced tier=thorough bounded="pool of 7 tables (4 path + 3 allocatable); tree-shaped sparse pre-state (target path, one neighbour word per path table, garbage in allocatable frames); page-table indices (0,1,511,2)"
    //@ obligation C11 C11.update_flags_2mib.shape_p2_huge.target_leaf_flags_replaced tier=thorough bounded="pool of 7 tables (4 path + 3 allocatable); tree-shaped sparse pre-state (target path, one neighbour word per path table, garbage in allocatable frames); page-table indices (0,1,511,2)"
    //@ obligation C01 C01.update_flags_2mib.shape_p2_huge.other_addresses_unchanged tier=thorough bounded="pool of 7 tables (4 path + 3 allocatable); tree-shaped sparse pre-state (target path, one neighbour word per path table, garbage in allocatable frames); page-table indices (0,1,511,2)"
    //@ obligation C11 C11.update_flags_2mib.shape_p2_huge.other_addresses_unchanged tier=thorough bounded="pool of 7 tables (4 path + 3 allocatable); tree-shaped sparse pre-state (target path, one neighbour word per path table, garbage in allocatable frames); page-table indices (0,1,511,2)"
    //@ obligation C01 C01.update_flags_2mib.shape_p2_huge.result_reports_page tier=thorough bounded="pool of 7 tables (4 path + 3 allocatable); tree-shaped sparse pre-state (target path, one neighbour word per path table, garbage in allocatable frames); page-table indices (0,1,511,2)"
    //@ obligation C11 C11.update_flags_2mib.shape_p2_huge.token_names_page tier=thorough bounded="pool of 7 tables (4 path + 3 allocatable); tree-shaped sparse pre-state (target path, one neighbour word per path table, garbage in allocatable frames); page-table indices (0,1,511,2)"
    //@ obligation C02 C02.update_flags_2mib.shape_p2_huge.documented_outcome tier=thorough bounded="pool of 7 tables (4 path + 3 allocatable); tree-shaped sparse pre-state (target path, one neighbour word per path table, garbage in allocatable frames); page-table indices (0,1,511,2)"
    //@ obligation C01 C01.update_flags_2mib.shape_p2_huge.translate_agrees_after tier=thorough bounded="pool of 7 tables (4 path + 3 allocatable); tree-shaped sparse pre-state (target path, one neighbour word per path table, garbage in allocatable frames); page-table indices (0,1,511,2)"
    //@ obligation C09 C09.update_flags_2mib.shape_p2_huge.only_dictated_slots_change tier=thorough bounded="pool of 7 tables (4 path + 3 allocatable); tree-shaped sparse pre-state (target path, one neighbour word per path table, garbage in allocatable frames); page-table indices (0,1,511,2)"
    //@ obligation C09 C09.update_flags_2mib.shape_p2_huge.no_frames_requested_or_zeroed tier=thorough bounded="pool of 7 tables (4 path + 3 allocatable); tree-shaped sparse pre-state (target path, one neighbour word per path table, garbage in allocatable frames); page-table indices (0,1,511,2)"
    //@ obligation C09 C09.update_flags_2mib.shape_p2_huge.no_dangling_table_pointer tier=thorough bounded="pool of 7 tables (4 path + 3 allocatable); tree-shaped sparse pre-state (target path, one neighbour word per path table, garbage in allocatable frames); page-table indices (0,1,511,2)"
    //@ obligation C09 C09.update_flags_2mib.shape_p2_huge.no_access_outside_page_tables tier=thorough bounded="pool of 7 tables (4 path + 3 allocatable); tree-shaped sparse pre-state (target path, one neighbour word per path table, garbage in allocatable frames); page-table indices (0,1,511,2)"
    #[kani::proof]
    #[kani::stub(PageTable::zero, zero_stub)]
    fn c01_update_flags_2mib_p2_huge_lo() {
        update_flags_step!(Size2MiB, "2mib", "p2_huge", P2_HUGE, IDX_LO);
        kani::cover!(true, "c01_update_flags_2mib_p2_huge_lo: reachable");
    }

    //@ obligation C01 C01.update_flags_2mib.shape_p2_huge.target_keeps_frame_and_size tier=thorough bounded="pool of 7 tables (4 path + 3 allocatable); tree-shaped sparse pre-state (target path, one neighbour word per path table, garbage in allocatable frames); page-table indices (511,510,1,0)"
    //@ obligation C11 C11.update_flags_2mib.shape_p2_huge.target_keeps_frame_and_size tier=thorough bounded="pool of 7 tables (4 path + 3 allocatable); tree-shaped sparse pre-state (target path, one neighbour word per path table, garbage in allocatable frames); page-table indices (511,510,1,0)"
    //@ obligation C01 C01.update_flags_2mib.shape_p2_huge.target_leaf_flags_replaced tier=thorough bounded="pool of 7 tables (4 path + 3 allocatable); tree-shaped sparse pre-state (target path, one neighbour word per path table, garbage in allocatable frames); page-table indices (511,510,1,0)"
    //@ obligation C11 C11.update_flags_2mib.shape_p2_huge.target_leaf_flags_replaced tier=thorough bounded="pool of 7 tables (4 path + 3 allocatable); tree-shaped sparse pre-state (target path, one neighbour word per path table, garbage in allocatable frames); page-table indices (511,510,1,0)"
    //@ obligation C01 C01.update_flags_2mib.shape_p2_huge.other_addresses_unchanged tier=thorough bounded="pool of 7 tables (4 path + 3 allocatable); tree-shaped sparse pre-state (target path, one neighbour word per path table, garbage in allocatable frames); page-table indices (511,510,1,0)"
    //@ obligation C11 C11.update_flags_2mib.shape_p2_huge.other_addresses_unchanged tier=thorough bounded="pool of 7 tables (4 path + 3 allocatable); tree-shaped sparse pre-state (target path, one neighbour word per path table, garbage in allocatable frames); page-table indices (511,510,1,0)"
    //@ obligation C01 C01.update_flags_2mib.shape_p2_huge.result_reports_page tier=thorough bounded="pool of 7 tables (4 path + 3 allocatable); tree-shaped sparse pre-state (target path, one neighbour word per path table, garbage in allocatable frames); page-table indices (511,510,1,0)"
    //@ obligation C11 C11.update_flags_2mib.shape_p2_huge.token_names_page tier=thorough bounded="pool of 7 tables (4 path + 3 allocatable); tree-shaped sparse pre-state (target path, one neighbour word per path table, garbage in allocatable frames); page-table indices (511,510,1,0)"
    //@ obligation C02 C02.update_flags_2mib.shape_p2_huge.documented_outcome tier=thorough bounded="pool of 7 tables (4 path + 3 allocatable); tree-shaped sparse pre-state (target path, one neighbour word per path table, garbage in allocatable frames); page-table indices (511,510,1,0)"
    //@ obligation C01 C01.update_flags_2mib.shape_p2_huge.translate_agrees_after tier=thorough bounded="pool of 7 tables (4 path + 3 allocatable); tree-shaped sparse pre-state (target path, one neighbour word per path table, garbage in allocatable frames); page-table indices (511,510,1,0)"
    //@ obligation C09 C09.update_flags_2mib.shape_p2_huge.only_dictated_slots_change tier=thorough bounded="pool of 7 tables (4 path + 3 allocatable); tree-shaped sparse pre-state (target path, one neighbour word per path table, garbage in allocatable frames); page-table indices (511,510,1,0)"
    //@ obligation C09 C09.update_flags_2mib.shape_p2_huge.no_frames_requested_or_zeroed tier=thorough bounded="pool of 7 tables (4 path + 3 allocatable); tree-shaped sparse pre-state (target path, one neighbour word per path table, garbage in allocatable frames); page-table indices (511,510,1,0)"
    //@ obligation C09 C09.update_flags_2mib.shape_p2_huge.no_dangling_table_pointer tier=thorough bounded="pool of 7 tables (4 path + 3 allocatable); tree-shaped sparse pre-state (target path, one neighbour word per path table, garbage in allocatable frames); page-table indices (511,510,1,0)"
    //@ obligation C09 C09.update_flags_2mib.shape_p2_huge.no_access_outside_page_tables tier=thorough bounded="pool of 7 tables (4 path + 3 allocatable); tree-shaped sparse pre-state (target path, one neighbour word per path table, garbage in allocatable frames); page-table indices (511,510,1,0)"
    #[kani::proof]
    #[kani::stub(PageTable::zero, zero_stub)]
    fn c01_update_flags_2mib_p2_huge_hi() {
        update_flags_step!(Size2MiB, "2mib", "p2_huge", P2_HUGE, IDX_HI);
        kani::cover!(true, "c01_update_flags_2mib_p2_huge_hi: reachable");
    }

    //@ obligation C01 C01.update_flags_2mib.shape_p2_huge.target_keeps_frame_and_size tier=thorough bounded="pool of 7 tables (4 path + 3 allocatable); tree-shaped sparse pre-state (target path, one neighbour word per path table, garbage in allocatable frames); page-table indices (255,511,0,256)"
    //@ obligation C11 C11.update_flags_2mib.shape_p2_huge.target_keeps_frame_and_size tier=thorough bounded="pool of 7 tables (4 path + 3 allocatable); tree-shaped sparse pre-state (target path, one neighbour word per path table, garbage in allocatable frames); page-table indices (255,511,0,256)"
    //@ obligation C01 C01.update_flags_2mib.shape_p2_huge.target_leaf_flags_replaced tier=thorough bounded="pool of 7 tables (4 path + 3 allocatable); tree-shaped sparse pre-state (target path, one neighbour word per path table, garbage in allocatable frames); page-table indices (255,511,0,256)"
    //@ obligation C11 C11.update_flags_2mib.shape_p2_huge.target_leaf_flags_replaced tier=thorough bounded="pool of 7 tables (4 path + 3 allocatable); tree-shaped sparse pre-state (target path, one neighbour word per path table, garbage in allocatable frames); page-table indices (255,511,0,256)"
    //@ obligation C01 C01.update_flags_2mib.shape_p2_huge.other_addresses_unchanged tier=thorough bounded="pool of 7 tables (4 path + 3 allocatable); tree-shaped sparse pre-state (target path, one neighbour word per path table, garbage in allocatable frames); page-table indices (255,511,0,256)"
    //@ obligation C11 C11.update_flags_2mib.shape_p2_huge.other_addresses_unchanged tier=thorough bounded="pool of 7 tables (4 path + 3 allocatable); tree-shaped sparse pre-state (target path, one neighbour word per path table, garbage in allocatable frames); page-table indices (255,511,0,256)"
    //@ obligation C01 C01.update_flags_2mib.shape_p2_huge.result_reports_page tier=thorough bounded="pool of 7 tables (4 path + 3 allocatable); tree-shaped sparse pre-state (target path, one neighbour word per path table, garbage in allocatable frames); page-table indices (255,511,0,256)"
    //@ obligation C11 C11.update_flags_2mib.shape_p2_huge.token_names_page tier=thorough bounded="pool of 7 tables (4 path + 3 allocatable); tree-shaped sparse pre-state (target path, one neighbour word per path table, garbage in allocatable frames); page-table indices (255,511,0,256)"
    //@ obligation C02 C02.update_flags_2mib.shape_p2_huge.documented_outcome tier=thorough bounded="pool of 7 tables (4 path + 3 allocatable); tree-shaped sparse pre-state (target path, one neighbour word per path table, garbage in allocatable frames); page-table indices (255,511,0,256)"
    //@ obligation C01 C01.update_flags_2mib.shape_p2_huge.translate_agrees_after tier=thorough bounded="pool of 7 tables (4 path + 3 allocatable); tree-shaped sparse pre-state (target path, one neighbour word per path table, garbage in allocatable frames); page-table indices (255,511,0,256)"
    //@ obligation C09 C09.update_flags_2mib.shape_p2_huge.only_dictated_slots_change tier=thorough bounded="pool of 7 tables (4 path + 3 allocatable); tree-shaped sparse pre-state (target path, one neighbour word per path table, garbage in allocatable frames); page-table indices (255,511,0,256)"
    //@ obligation C09 C09.update_flags_2mib.shape_p2_huge.no_frames_requested_or_zeroed tier=thorough bounded="pool of 7 tables (4 path + 3 allocatable); tree-shaped sparse pre-state (target path, one neighbour word per path table, garbage in allocatable frames); page-table indices (255,511,0,256)"
    //@ obligation C09 C09.update_flags_2mib.shape_p2_huge.no_dangling_table_pointer tier=thorough bounded="pool of 7 tables (4 path + 3 allocatable); tree-shaped sparse pre-state (target path, one neighbour word per path table, garbage in allocatable frames); page-table indices (255,511,0,256)"
    //@ obligation C09 C09.update_flags_2mib.shape_p2_huge.no_access_outside_page_tables tier=thorough bounded="pool of 7 tables (4 path + 3 allocatable); tree-shaped sparse pre-state (target path, one neighbour word per path table, garbage in allocatable frames); page-table indices (255,511,0,256)"
    #[kani::proof]
    #[kani::stub(PageTable::zero, zero_stub)]
    fn c01_update_flags_2mib_p2_huge_mid() {
        update_flags_step!(Size2MiB, "2mib", "p2_huge", P2_HUGE, IDX_MID);
        kani::cover!(true, "c01_update_flags_2mib_p2_huge_mid: reachable");
    }

    //@ obligation C01 C01.update_flags_2mib.shape_p2_huge.target_keeps_frame_and_size bounded="pool of 7 tables (4 path + 3 allocatable); tree-shaped sparse pre-state (target path, one neighbour word per path table, garbage in allocatable frames); page-table indices (256,0,510,511)"
    //@ obligation C11 C11.update_flags_2mib.shape_p2_huge.target_keeps_frame_and_size bounded="pool of 7 tables (4 path + 3 allocatable); tree-shaped sparse pre-state (target path, one neighbour word per path table, garbage in allocatable frames); page-table indices (256,0,510,511)"
    //@ obligation C01 C01.update_flags_2mib.shape_p2_huge.target_leaf_flags_replaced bounded="pool of 7 tables (4 path + 3 allocatable); tree-shaped sparse pre-state (target path, one neighbour word per path table, garbage in allocatable frames); page-table indices (256,0,510,511)"
    //@ obligation C11 C11.update_flags_2mib.shape_p2_huge.target_leaf_flags_replaced bounded="pool of 7 tables (4 path + 3 allocatable); tree-shaped sparse pre-state (target path, one neighbour word per path table, garbage in allocatable frames); page-table indices (256,0,510,511)"
    //@ obligation C01 C01.update_flags_2mib.shape_p2_huge.other_addresses_unchanged bounded="pool of 7 tables (4 path + 3 allocatable); tree-shaped sparse pre-state (target path, one neighbour word per path table, garbage in allocatable frames); page-table indices (256,0,510,511)"
    //@ obligation C11 C11.update_flags_2mib.shape_p2_huge.other_addresses_unchanged bounded="pool of 7 tables (4 path + 3 allocatable); tree-shaped sparse pre-state (target path, one neighbour word per path table, garbage in allocatable frames); page-table indices (256,0,510,511)"
    //@ obligation C01 C01.update_flags_2mib.shape_p2_huge.result_reports_page bounded="pool of 7 tables (4 path + 3 allocatable); tree-shaped sparse pre-state (target path, one neighbour word per path table, garbage in allocatable frames); page-table indices (256,0,510,511)"
    //@ obligation C11 C11.update_flags_2mib.shape_p2_huge.token_names_page bounded="pool of 7 tables (4 path + 3 allocatable); tree-shaped sparse pre-state (target path, one neighbour word per path table, garbage in allocatable frames); page-table indices (256,0,510,511)"
    //@ obligation C02 C02.update_flags_2mib.shape_p2_huge.documented_outcome bounded="pool of 7 tables (4 path + 3 allocatable); tree-shaped sparse pre-state (target path, one neighbour word per path table, garbage in allocatable frames); page-table indices (256,0,510,511)"
    //@ obligation C01 C01.update_flags_2mib.shape_p2_huge.translate_agrees_after bounded="pool of 7 tables (4 path + 3 allocatable); tree-shaped sparse pre-state (target path, one neighbour word per path table, garbage in allocatable frames); page-table indices (256,0,510,511)"
    //@ obligation C09 C09.update_flags_2mib.shape_p2_huge.only_dictated_slots_change bounded="pool of 7 tables (4 path + 3 allocatable); tree-shaped sparse pre-state (target path, one neighbour word per path table, garbage in allocatable frames); page-table indices (256,0,510,511)"
    //@ obligation C09 C09.update_flags_2mib.shape_p2_huge.no_frames_requested_or_zeroed bounded="pool of 7 tables (4 path + 3 allocatable); tree-shaped sparse pre-state (target path, one neighbour word per path table, garbage in allocatable frames); page-table indices (256,0,510,511)"
    //@ obligation C09 C09.update_flags_2mib.shape_p2_huge.no_dangling_table_pointer bounded="pool of 7 tables (4 path + 3 allocatable); tree-shaped sparse pre-state (target path, one neighbour word per path table, garbage in allocatable frames); page-table indices (256,0,510,511)"
    //@ obligation C09 C09.update_flags_2mib.shape_p2_huge.no_access_outside_page_tables bounded="pool of 7 tables (4 path + 3 allocatable); tree-shaped sparse pre-state (target path, one neighbour word per path table, garbage in allocatable frames); page-table indices (256,0,510,511)"
    #[kani::proof]
    #[kani::stub(PageTable::zero, zero_stub)]
    fn c01_update_flags_2mib_p2_huge_up() {
        update_flags_step!(Size2MiB, "2mib", "p2_huge", P2_HUGE, IDX_UP);
        kani::cover!(true, "c01_update_flags_2mib_p2_huge_up: reachable");
    }

    //@ obligation C02 C02.update_flags_2mib.shape_table_entry.no_success_for_nonexistent_size tier=thorough bounded="pool of 7 tables (4 path + 3 allocatable); tree-shaped sparse pre-state (target path, one neighbour word per path table, garbage in allocatable frames); page-table indices (0,1,511,2)"
    //@ obligation C02 C02.update_flags_2mib.shape_table_entry.error_leaves_every_mapping tier=thorough bounded="pool of 7 tables (4 path + 3 allocatable); tree-shaped sparse pre-state (target path, one neighbour word per path table, garbage in allocatable frames); page-table indices (0,1,511,2)"
    //@ obligation C02 C02.update_flags_2mib.shape_table_entry.documented_outcome tier=thorough bounded="pool of 7 tables (4 path + 3 allocatable); tree-shaped sparse pre-state (target path, one neighbour word per path table, garbage in allocatable frames); page-table indices (0,1,511,2)"
    //@ obligation C01 C01.update_flags_2mib.shape_table_entry.translate_agrees_after tier=thorough bounded="pool of 7 tables (4 path + 3 allocatable); tree-shaped sparse pre-state (target path, one neighbour word per path table, garbage in allocatable frames); page-table indices (0,1,511,2)"
    //@ obligation C09 C09.update_flags_2mib.shape_table_entry.only_dictated_slots_change tier=thorough bounded="pool of 7 tables (4 path + 3 allocatable); tree-shaped sparse pre-state (target path, one neighbour word per path table, garbage in allocatable frames); page-table indices (0,1,511,2)"
    //@ obligation C09 C09.update_flags_2mib.shape_table_entry.no_frames_requested_or_zeroed tier=thorough bounded="pool of 7 tables (4 path + 3 allocatable); tree-shaped sparse pre-state (target path, one neighbour word per path table, garbage in allocatable frames); page-table indices (0,1,511,2)"
    //@ obligation C09 C09.update_flags_2mib.shape_table_entry.no_dangling_table_pointer tier=thorough bounded="pool of 7 tables (4 path + 3 allocatable); tree-shaped sparse pre-state (target path, one neighbour word per path table, garbage in allocatable frames); page-table indices (0,1,511,2)"
    //@ obligation C09 C09.update_flags_2mib.shape_table_entry.no_access_outside_page_tables tier=thorough bounded="pool of 7 tables (4 path + 3 allocatable); tree-shaped sparse pre-state (target path, one neighbour word per path table, garbage in allocatable frames); page-table indices (0,1,511,2)"
    #[kani::proof]
    #[kani::stub(PageTable::zero, zero_stub)]
    fn c01_update_flags_2mib_table_entry_lo() {
        update_flags_step!(Size2MiB, "2mib", "table_entry", P2_TABLE, IDX_LO);
        kani::cover!(true, "c01_update_flags_2mib_table_entry_lo: reachable");
    }

    //@ obligation C02 C02.update_flags_2mib.shape_table_entry.no_success_for_nonexistent_size tier=thorough bounded="pool of 7 tables (4 path + 3 allocatable); tree-shaped sparse pre-state (target path, one neighbour word per path table, garbage in allocatable frames); page-table indices (511,510,1,0)"
    //@ obligation C02 C02.update_flags_2mib.shape_table_entry.error_leaves_every_mapping tier=thorough bounded="pool of 7 tables (4 path + 3 allocatable); tree-shaped sparse pre-state (target path, one neighbour word per path table, garbage in allocatable frames); page-table indices (511,510,1,0)"
    //@ obligation C02 C02.update_flags_2mib.shape_table_entry.documented_outcome tier=thorough bounded="pool of 7 tables (4 path + 3 allocatable); tree-shaped sparse pre-state (target path, one neighbour word per path table, garbage in allocatable frames); page-table indices (511,510,1,0)"
    //@ obligation C01 C01.update_flags_2mib.shape_table_entry.translate_agrees_after tier=thorough bounded="pool of 7 tables (4 path + 3 allocatable); tree-shaped sparse pre-state (target path, one neighbour word per path table, garbage in allocatable frames); page-table indices (511,510,1,0)"
    //@ obligation C09 C09.update_flags_2mib.shape_table_entry.only_dictated_slots_change tier=thorough bounded="pool of 7 tables (4 path + 3 allocatable); tree-shaped sparse pre-state (target path, one neighbour word per path table, garbage in allocatable frames); page-table indices (511,510,1,0)"
    //@ obligation C09 C09.update_flags_2mib.shape_table_entry.no_frames_requested_or_zeroed tier=thorough bounded="pool of 7 tables (4 path + 3 allocatable); tree-shaped sparse pre-state (target path, one neighbour word per path table, garbage in allocatable frames); page-table indices (511,510,1,0)"
    //@ obligation C09 C09.update_flags_2mib.shape_table_entry.no_dangling_table_pointer tier=thorough bounded="pool of 7 tables (4 path + 3 allocatable); tree-shaped sparse pre-state (target path, one neighbour word per path table, garbage in allocatable frames); page-table indices (511,510,1,0)"
    //@ obligation C09 C09.update_flags_2mib.shape_table_entry.no_access_outside_page_tables tier=thorough bounded="pool of 7 tables (4 path + 3 allocatable); tree-shaped sparse pre-state (target path, one neighbour word per path table, garbage in allocatable frames); page-table indices (511,510,1,0)"
    #[kani::proof]
    #[kani::stub(PageTable::zero, zero_stub)]
    fn c01_update_flags_2mib_table_entry_hi() {
        update_flags_step!(Size2MiB, "2mib", "table_entry", P2_TABLE, IDX_HI);
        kani::cover!(true, "c01_update_flags_2mib_table_entry_hi: reachable");
    }

    //@ obligation C02 C02.update_flags_2mib.shape_table_entry.no_success_for_nonexistent_size bounded="pool of 7 tables (4 path + 3 allocatable); tree-shaped sparse pre-state (target path, one neighbour word per path table, garbage in allocatable frames); page-table indices (255,511,0,256)"
    //@ obligation C02 C02.update_flags_2mib.shape_table_entry.error_leaves_every_mapping bounded="pool of 7 tables (4 path + 3 allocatable); tree-shaped sparse pre-state (target path, one neighbour word per path table, garbage in allocatable frames); page-table indices (255,511,0,256)"
    //@ obligation C02 C02.update_flags_2mib.shape_table_entry.documented_outcome bounded="pool of 7 tables (4 path + 3 allocatable); tree-shaped sparse pre-state (target path, one neighbour word per path table, garbage in allocatable frames); page-table indices (255,511,0,256)"
    //@ obligation C01 C01.update_flags_2mib.shape_table_entry.translate_agrees_after bounded="pool of 7 tables (4 path + 3 allocatable); tree-shaped sparse pre-state (target path, one neighbour word per path table, garbage in allocatable frames); page-table indices (255,511,0,256)"
    //@ obligation C09 C09.update_flags_2mib.shape_table_entry.only_dictated_slots_change bounded="pool of 7 tables (4 path + 3 allocatable); tree-shaped sparse pre-state (target path, one neighbour word per path table, garbage in allocatable frames); page-table indices (255,511,0,256)"
    //@ obligation C09 C09.update_flags_2mib.shape_table_entry.no_frames_requested_or_zeroed bounded="pool of 7 tables (4 path + 3 allocatable); tree-shaped sparse pre-state (target path, one neighbour word per path table, garbage in allocatable frames); page-table indices (255,511,0,256)"
    //@ obligation C09 C09.update_flags_2mib.shape_table_entry.no_dangling_table_pointer bounded="pool of 7 tables (4 path + 3 allocatable); tree-shaped sparse pre-state (target path, one neighbour word per path table, garbage in allocatable frames); page-table indices (255,511,0,256)"
    //@ obligation C09 C09.update_flags_2mib.shape_table_entry.no_access_outside_page_tables bounded="pool of 7 tables (4 path + 3 allocatable); tree-shaped sparse pre-state (target path, one neighbour word per path table, garbage in allocatable frames); page-table indices (255,511,0,256)"
    #[kani::proof]
    #[kani::stub(PageTable::zero, zero_stub)]
    fn c01_update_flags_2mib_table_entry_mid() {
        update_flags_step!(Size2MiB, "2mib", "table_entry", P2_TABLE, IDX_MID);
        kani::cover!(true, "c01_update_flags_2mib_table_entry_mid: reachable");
    }

    //@ obligation C02 C02.update_flags_2mib.shape_table_entry.no_success_for_nonexistent_size tier=thorough bounded="pool of 7 tables (4 path + 3 allocatable); tree-shaped sparse pre-state (target path, one neighbour word per path table, garbage in allocatable frames); page-table indices (256,0,510,511)"
    //@ obligation C02 C02.update_flags_2mib.shape_table_entry.error_leaves_every_mapping tier=thorough bounded="pool of 7 tables (4 path + 3 allocatable); tree-shaped sparse pre-state (target path, one neighbour word per path table, garbage in allocatable frames); page-table indices (256,0,510,511)"
    //@ obligation C02 C02.update_flags_2mib.shape_table_entry.documented_outcome tier=thorough bounded="pool of 7 tables (4 path + 3 allocatable); tree-shaped sparse pre-state (target path, one neighbour word per path table, garbage in allocatable frames); page-table indices (256,0,510,511)"
    //@ obligation C01 C01.update_flags_2mib.shape_table_entry.translate_agrees_after tier=thorough bounded="pool of 7 tables (4 path + 3 allocatable); tree-shaped sparse pre-state (target path, one neighbour word per path table, garbage in allocatable frames); page-table indices (256,0,510,511)"
    //@ obligation C09 C09.update_flags_2mib.shape_table_entry.only_dictated_slots_change tier=thorough bounded="pool of 7 tables (4 path + 3 allocatable); tree-shaped sparse pre-state (target path, one neighbour word per path table, garbage in allocatable frames); page-table indices (256,0,510,511)"
    //@ obligation C09 C09.update_flags_2mib.shape_table_entry.no_frames_requested_or_zeroed tier=thorough bounded="pool of 7 tables (4 path + 3 allocatable); tree-shaped sparse pre-state (target path, one neighbour word per path table, garbage in allocatable frames); page-table indices (256,0,510,511)"
    //@ obligation C09 C09.update_flags_2mib.shape_table_entry.no_dangling_table_pointer tier=thorough bounded="pool of 7 tables (4 path + 3 allocatable); tree-shaped sparse pre-state (target path, one neighbour word per path table, garbage in allocatable frames); page-table indices (256,0,510,511)"
    //@ obligation C09 C09.update_flags_2mib.shape_table_entry.no_access_outside_page_tables tier=thorough bounded="pool of 7 tables (4 path + 3 allocatable); tree-shaped sparse pre-state (target path, one neighbour word per path table, garbage in allocatable frames); page-table indices (256,0,510,511)"
    #[kani::proof]
    #[kani::stub(PageTable::zero, zero_stub)]
    fn c01_update_flags_2mib_table_entry_up() {
        update_flags_step!(Size2MiB, "2mib", "table_entry", P2_TABLE, IDX_UP);
        kani::cover!(true, "c01_update_flags_2mib_table_entry_up: reachable");
    }

    //@ obligation C01 C01.update_flags_2mib.shape_sym.target_keeps_frame_and_size tier=thorough bounded="pool of 7 tables (4 path + 3 allocatable); tree-shaped sparse pre-state (target path, one neighbour word per path table, garbage in allocatable frames); page-table indices (0,1,511,2)"
    //@ obligation C11 C11.update_flags_2mib.shape_sym.target_keeps_frame_and_size tier=thorough bounded="pool of 7 tables (4 path + 3 allocatable); tree-shaped sparse pre-state (target path, one neighbour word per path table, garbage in allocatable frames); page-table indices (0,1,511,2)"
    //@ obligation C01 C01.update_flags_2mib.shape_sym.target_leaf_flags_replaced tier=thorough bounded="pool of 7 tables (4 path + 3 allocatable); tree-shaped sparse pre-state (target path, one neighbour word per path table, garbage in allocatable frames); page-table indices (0,1,511,2)"
    //@ obligation C11 C11.update_flags_2mib.shape_sym.target_leaf_flags_replaced tier=thorough bounded="pool of 7 tables (4 path + 3 allocatable); tree-shaped sparse pre-state (target path, one neighbour word per path table, garbage in allocatable frames); page-table indices (0,1,511,2)"
    //@ obligation C01 C01.update_flags_2mib.shape_sym.other_addresses_unchanged tier=thorough bounded="pool of 7 tables (4 path + 3 allocatable); tree-shaped sparse pre-state (target path, one neighbour word per path table, garbage in allocatable frames); page-table indices (0,1,511,2)"
    //@ obligation C11 C11.update_flags_2mib.shape_sym.other_addresses_unchanged tier=thorough bounded="pool of 7 tables (4 path + 3 allocatable); tree-shaped sparse pre-state (target path, one neighbour word per path table, garbage in allocatable frames); page-table indices (0,1,511,2)"
    //@ obligation C01 C01.update_flags_2mib.shape_sym.result_reports_page tier=thorough bounded="pool of 7 tables (4 path + 3 allocatable); tree-shaped sparse pre-state (target path, one neighbour word per path table, garbage in allocatable frames); page-table indices (0,1,511,2)"
    //@ obligation C11 C11.update_flags_2mib.shape_sym.token_names_page tier=thorough bounded="pool of 7 tables (4 path + 3 allocatable); tree-shaped sparse pre-state (target path, one neighbour word per path table, garbage in allocatable frames); page-table indices (0,1,511,2)"
    //@ obligation C02 C02.update_flags_2mib.shape_sym.documented_outcome tier=thorough bounded="pool of 7 tables (4 path + 3 allocatable); tree-shaped sparse pre-state (target path, one neighbour word per path table, garbage in allocatable frames); page-table indices (0,1,511,2)"
    //@ obligation C01 C01.update_flags_2mib.shape_sym.translate_agrees_after tier=thorough bounded="pool of 7 tables (4 path + 3 allocatable); tree-shaped sparse pre-state (target path, one neighbour word per path table, garbage in allocatable frames); page-table indices (0,1,511,2)"
    //@ obligation C09 C09.update_flags_2mib.shape_sym.only_dictated_slots_change tier=thorough bounded="pool of 7 tables (4 path + 3 allocatable); tree-shaped sparse pre-state (target path, one neighbour word per path table, garbage in allocatable frames); page-table indices (0,1,511,2)"
    //@ obligation C09 C09.update_flags_2mib.shape_sym.no_frames_requested_or_zeroed tier=thorough bounded="pool of 7 tables (4 path + 3 allocatable); tree-shaped sparse pre-state (target path, one neighbour word per path table, garbage in allocatable frames); page-table indices (0,1,511,2)"
    //@ obligation C09 C09.update_flags_2mib.shape_sym.no_dangling_table_pointer tier=thorough bounded="pool of 7 tables (4 path + 3 allocatable); tree-shaped sparse pre-state (target path, one neighbour word per path table, garbage in allocatable frames); page-table indices (0,1,511,2)"
    //@ obligation C09 C09.update_flags_2mib.shape_sym.no_access_outside_page_tables tier=thorough bounded="pool of 7 tables (4 path + 3 allocatable); tree-shaped sparse pre-state (target path, one neighbour word per path table, garbage in allocatable frames); page-table indices (0,1,511,2)"
    //@ obligation C02 C02.update_flags_2mib.shape_sym.error_leaves_every_mapping tier=thorough bounded="pool of 7 tables (4 path + 3 allocatable); tree-shaped sparse pre-state (target path, one neighbour word per path table, garbage in allocatable frames); page-table indices (0,1,511,2)"
    #[kani::proof]
    #[kani::stub(PageTable::zero, zero_stub)]
    fn c01_update_flags_2mib_sym_lo() {
        update_flags_step!(Size2MiB, "2mib", "sym", P2_SYM, IDX_LO);
        kani::cover!(true, "c01_update_flags_2mib_sym_lo: reachable");
    }

    //@ obligation C01 C01.update_flags_2mib.shape_sym.target_keeps_frame_and_size tier=thorough bounded="pool of 7 tables (4 path + 3 allocatable); tree-shaped sparse pre-state (target path, one neighbour word per path table, garbage in allocatable frames); page-table indices (511,510,1,0)"
    //@ obligation C11 C11.update_flags_2mib.shape_sym.target_keeps_frame_and_size tier=thorough bounded="pool of 7 tables (4 path + 3 allocatable); tree-shaped sparse pre-state (target path, one neighbour word per path table, garbage in allocatable frames); page-table indices (511,510,1,0)"
    //@ obligation C01 C01.update_flags_2mib.shape_sym.target_leaf_flags_replaced tier=thorough bounded="pool of 7 tables (4 path + 3 allocatable); tree-shaped sparse pre-state (target path, one neighbour word per path table, garbage in allocatable frames); page-table indices (511,510,1,0)"
    //@ obligation C11 C11.update_flags_2mib.shape_sym.target_leaf_flags_replaced tier=thorough bounded="pool of 7 tables (4 path + 3 allocatable); tree-shaped sparse pre-state (target path, one neighbour word per path table, garbage in allocatable frames); page-table indices (511,510,1,0)"
    //@ obligation C01 C01.update_flags_2mib.shape_sym.other_addresses_unchanged tier=thorough bounded="pool of 7 tables (4 path + 3 allocatable); tree-shaped sparse pre-state (target path, one neighbour word per path table, garbage in allocatable frames); page-table indices (511,510,1,0)"
    //@ obligation C11 C11.update_flags_2mib.shape_sym.other_addresses_unchanged tier=thorough bounded="pool of 7 tables (4 path + 3 allocatable); tree-shaped sparse pre-state (target path, one neighbour word per path table, garbage in allocatable frames); page-table indices (511,510,1,0)"
    //@ obligation C01 C01.update_flags_2mib.shape_sym.result_reports_page tier=thorough bounded="pool of 7 tables (4 path + 3 allocatable); tree-shaped sparse pre-state (target path, one neighbour word per path table, garbage in allocatable frames); page-table indices (511,510,1,0)"
    //@ obligation C11 C11.update_flags_2mib.shape_sym.token_names_page tier=thorough bounded="pool of 7 tables (4 path + 3 allocatable); tree-shaped sparse pre-state (target path, one neighbour word per path table, garbage in allocatable frames); page-table indices (511,510,1,0)"
    //@ obligation C02 C02.update_flags_2mib.shape_sym.documented_outcome tier=thorough bounded="pool of 7 tables (4 path + 3 allocatable); tree-shaped sparse pre-state (target path, one neighbour word per path table, garbage in allocatable frames); page-table indices (511,510,1,0)"
    //@ obligation C01 C01.update_flags_2mib.shape_sym.translate_agrees_after tier=thorough bounded="pool of 7 tables (4 path + 3 allocatable); tree-shaped sparse pre-state (target path, one neighbour word per path table, garbage in allocatable frames); page-table indices (511,510,1,0)"
    //@ obligation C09 C09.update_flags_2mib.shape_sym.only_dictated_slots_change tier=thorough bounded="pool of 7 tables (4 path + 3 allocatable); tree-shaped sparse pre-state (target path, one neighbour word per path table, garbage in allocatable frames); page-table indices (511,510,1,0)"
    //@ obligation C09 C09.update_flags_2mib.shape_sym.no_frames_requested_or_zeroed tier=thorough bounded="pool of 7 tables (4 path + 3 allocatable); tree-shaped sparse pre-state (target path, one neighbour word per path table, garbage in allocatable frames); page-table indices (511,510,1,0)"
    //@ obligation C09 C09.update_flags_2mib.shape_sym.no_dangling_table_pointer tier=thorough bounded="pool of 7 tables (4 path + 3 allocatable); tree-shaped sparse pre-state (target path, one neighbour word per path table, garbage in allocatable frames); page-table indices (511,510,1,0)"
    //@ obligation C09 C09.update_flags_2mib.shape_sym.no_access_outside_page_tables tier=thorough bounded="pool of 7 tables (4 path + 3 allocatable); tree-shaped sparse pre-state (target path, one neighbour word per path table, garbage in allocatable frames); page-table indices (511,510,1,0)"
    //@ obligation C02 C02.update_flags_2mib.shape_sym.error_leaves_every_mapping tier=thorough bounded="pool of 7 tables (4 path + 3 allocatable); tree-shaped sparse pre-state (target path, one neighbour word per path table, garbage in allocatable frames); page-table indices (511,510,1,0)"
    #[kani::proof]
    #[kani::stub(PageTable::zero, zero_stub)]
    fn c01_update_flags_2mib_sym_hi() {
        update_flags_step!(Size2MiB, "2mib", "sym", P2_SYM, IDX_HI);
        kani::cover!(true, "c01_update_flags_2mib_sym_hi: reachable");
    }

    //@ obligation C01 C01.update_flags_2mib.shape_sym.target_keeps_frame_and_size tier=thorough bounded="pool of 7 tables (4 path + 3 allocatable); tree-shaped sparse pre-state (target path, one neighbour word per path table, garbage in allocatable frames); page-table indices (255,511,0,256)"
    //@ obligation C11 C11.update_flags_2mib.shape_sym.target_keeps_frame_and_size tier=thorough bounded="pool of 7 tables (4 path + 3 allocatable); tree-shaped sparse pre-state (target path, one neighbour word per path table, garbage in allocatable frames); page-table indices (255,511,0,256)"
    //@ obligation C01 C01.update_flags_2mib.shape_sym.target_leaf_flags_replaced tier=thorough bounded="pool of 7 tables (4 path + 3 allocatable); tree-shaped sparse pre-state (target path, one neighbour word per path table, garbage in allocatable frames); page-table indices (255,511,0,256)"
    //@ obligation C11 C11.update_flags_2mib.shape_sym.target_leaf_flags_replaced tier=thorough bounded="pool of 7 tables (4 path + 3 allocatable); tree-shaped sparse pre-state (target path, one neighbour word per path table, garbage in allocatable frames); page-table indices (255,511,0,256)"
    //@ obligation C01 C01.update_flags_2mib.shape_sym.other_addresses_unchanged tier=thorough bounded="pool of 7 tables (4 path + 3 allocatable); tree-shaped sparse pre-state (target path, one neighbour word per path table, garbage in allocatable frames); page-table indices (255,511,0,256)"
    //@ obligation C11 C11.update_flags_2mib.shape_sym.other_addresses_unchanged tier=thorough bounded="pool of 7 tables (4 path + 3 allocatable); tree-shaped sparse pre-state (target path, one neighbour word per path table, garbage in allocatable frames); page-table indices (255,511,0,256)"
    //@ obligation C01 C01.update_flags_2mib.shape_sym.result_reports_page tier=thorough bounded="pool of 7 tables (4 path + 3 allocatable); tree-shaped sparse pre-state (target path, one neighbour word per path table, garbage in allocatable frames); page-table indices (255,511,0,256)"
    //@ obligation C11 C11.update_flags_2mib.shape_sym.token_names_page tier=thorough bounded="pool of 7 tables (4 path + 3 allocatable); tree-shaped sparse pre-state (target path, one neighbour word per path table, garbage in allocatable frames); page-table indices (255,511,0,256)"
    //@ obligation C02 C02.update_flags_2mib.shape_sym.documented_outcome tier=thorough bounded="pool of 7 tables (4 path + 3 allocatable); tree-shaped sparse pre-state (target path, one neighbour word per path table, garbage in allocatable frames); page-table indices (255,511,0,256)"
    //@ obligation C01 C01.update_flags_2mib.shape_sym.translate_agrees_after tier=thorough bounded="pool of 7 tables (4 path + 3 allocatable); tree-shaped sparse pre-state (target path, one neighbour word per path table, garbage in allocatable frames); page-table indices (255,511,0,256)"
    //@ obligation C09 C09.update_flags_2mib.shape_sym.only_dictated_slots_change tier=thorough bounded="pool of 7 tables (4 path + 3 allocatable); tree-shaped sparse pre-state (target path, one neighbour word per path table, garbage in allocatable frames); page-table indices (255,511,0,256)"
    //@ obligation C09 C09.update_flags_2mib.shape_sym.no_frames_requested_or_zeroed tier=thorough bounded="pool of 7 tables (4 path + 3 allocatable); tree-shaped sparse pre-state (target path, one neighbour word per path table, garbage in allocatable frames); page-table indices (255,511,0,256)"
    //@ obligation C09 C09.update_flags_2mib.shape_sym.no_dangling_table_pointer tier=thorough bounded="pool of 7 tables (4 path + 3 allocatable); tree-shaped sparse pre-state (target path, one neighbour word per path table, garbage in allocatable frames); page-table indices (255,511,0,256)"
    //@ obligation C09 C09.update_flags_2mib.shape_sym.no_access_outside_page_tables tier=thorough bounded="pool of 7 tables (4 path + 3 allocatable); tree-shaped sparse pre-state (target path, one neighbour word per path table, garbage in allocatable frames); page-table indices (255,511,0,256)"
    //@ obligation C02 C02.update_flags_2mib.shape_sym.error_leaves_every_mapping tier=thorough bounded="pool of 7 tables (4 path + 3 allocatable); tree-shaped sparse pre-state (target path, one neighbour word per path table, garbage in allocatable frames); page-table indices (255,511,0,256)"
    #[kani::proof]
    #[kani::stub(PageTable::zero, zero_stub)]
    fn c01_update_flags_2mib_sym_mid() {
        update_flags_step!(Size2MiB, "2mib", "sym", P2_SYM, IDX_MID);
        kani::cover!(true, "c01_update_flags_2mib_sym_mid: reachable");
    }

    //@ obligation C01 C01.update_flags_2mib.shape_sym.target_keeps_frame_and_size bounded="pool of 7 tables (4 path + 3 allocatable); tree-shaped sparse pre-state (target path, one neighbour word per path table, garbage in allocatable frames); page-table indices (256,0,510,511)"
    //@ obligation C11 C11.update_flags_2mib.shape_sym.target_keeps_frame_and_size bounded="pool of 7 tables (4 path + 3 allocatable); tree-shaped sparse pre-state (target path, one neighbour word per path table, garbage in allocatable frames); page-table indices (256,0,510,511)"
    //@ obligation C01 C01.update_flags_2mib.shape_sym.target_leaf_flags_replaced bounded="pool of 7 tables (4 path + 3 allocatable); tree-shaped sparse pre-state (target path, one neighbour word per path table, garbage in allocatable frames); page-table indices (256,0,510,511)"
    //@ obligation C11 C11.update_flags_2mib.shape_sym.target_leaf_flags_replaced bounded="pool of 7 tables (4 path + 3 allocatable); tree-shaped sparse pre-state (target path, one neighbour word per path table, garbage in allocatable frames); page-table indices (256,0,510,511)"
    //@ obligation C01 C01.update_flags_2mib.shape_sym.other_addresses_unchanged bounded="pool of 7 tables (4 path + 3 allocatable); tree-shaped sparse pre-state (target path, one neighbour word per path table, garbage in allocatable frames); page-table indices (256,0,510,511)"
    //@ obligation C11 C11.update_flags_2mib.shape_sym.other_addresses_unchanged bounded="pool of 7 tables (4 path + 3 allocatable); tree-shaped sparse pre-state (target path, one neighbour word per path table, garbage in allocatable frames); page-table indices (256,0,510,511)"
    //@ obligation C01 C01.update_flags_2mib.shape_sym.result_reports_page bounded="pool of 7 tables (4 path + 3 allocatable); tree-shaped sparse pre-state (target path, one neighbour word per path table, garbage in allocatable frames); page-table indices (256,0,510,511)"
    //@ obligation C11 C11.update_flags_2mib.shape_sym.token_names_page bounded="pool of 7 tables (4 path + 3 allocatable); tree-shaped sparse pre-state (target path, one neighbour word per path table, garbage in allocatable frames); page-table indices (256,0,510,511)"
    //@ obligation C02 C02.update_flags_2mib.shape_sym.documented_outcome bounded="pool of 7 tables (4 path + 3 allocatable); tree-shaped sparse pre-state (target path, one neighbour word per path table, garbage in allocatable frames); page-table indices (256,0,510,511)"
    //@ obligation C01 C01.update_flags_2mib.shape_sym.translate_agrees_after bounded="pool of 7 tables (4 path + 3 allocatable); tree-shaped sparse pre-state (target path, one neighbour word per path table, garbage in allocatable frames); page-table indices (256,0,510,511)"
    //@ obligation C09 C09.update_flags_2mib.shape_sym.only_dictated_slots_change bounded="pool of 7 tables (4 path + 3 allocatable); tree-shaped sparse pre-state (target path, one neighbour word per path table, garbage in allocatable frames); page-table indices (256,0,510,511)"
    //@ obligation C09 C09.update_flags_2mib.shape_sym.no_frames_requested_or_zeroed bounded="pool of 7 tables (4 path + 3 allocatable); tree-shaped sparse pre-state (target path, one neighbour word per path table, garbage in allocatable frames); page-table indices (256,0,510,511)"
    //@ obligation C09 C09.update_flags_2mib.shape_sym.no_dangling_table_pointer bounded="pool of 7 tables (4 path + 3 allocatable); tree-shaped sparse pre-state (target path, one neighbour word per path table, garbage in allocatable frames); page-table indices (256,0,510,511)"
    //@ obligation C09 C09.update_flags_2mib.shape_sym.no_access_outside_page_tables bounded="pool of 7 tables (4 path + 3 allocatable); tree-shaped sparse pre-state (target path, one neighbour word per path table, garbage in allocatable frames); page-table indices (256,0,510,511)"
    //@ obligation C02 C02.update_flags_2mib.shape_sym.error_leaves_every_mapping bounded="pool of 7 tables (4 path + 3 allocatable); tree-shaped sparse pre-state (target path, one neighbour word per path table, garbage in allocatable frames); page-table indices (256,0,510,511)"
    #[kani::proof]
    #[kani::stub(PageTable::zero, zero_stub)]
    fn c01_update_flags_2mib_sym_up() {
        update_flags_step!(Size2MiB, "2mib", "sym", P2_SYM, IDX_UP);
        kani::cover!(true, "c01_update_flags_2mib_sym_up: reachable");
    }

    //@ obligation C02 C02.update_flags_1gib.shape_p4_absent.error_leaves_every_mapping tier=thorough bounded="pool of 7 tables (4 path + 3 allocatable); tree-shaped sparse pre-state (target path, one neighbour word per path table, garbage in allocatable frames); page-table indices (0,1,511,2)"
    //@ obligation C02 C02.update_flags_1gib.shape_p4_absent.documented_outcome tier=thorough bounded="pool of 7 tables (4 path + 3 allocatable); tree-shaped sparse pre-state (target path, one neighbour word per path table, garbage in allocatable frames); page-table indices (0,1,511,2)"
    //@ obligation C01 C01.update_flags_1gib.shape_p4_absent.translate_agrees_after tier=thorough bounded="pool of 7 tables (4 path + 3 allocatable); tree-shaped sparse pre-state (target path, one neighbour word per path table, garbage in allocatable frames); page-table indices (0,1,511,2)"
    //@ obligation C09 C09.update_flags_1gib.shape_p4_absent.only_dictated_slots_change tier=thorough bounded="pool of 7 tables (4 path + 3 allocatable); tree-shaped sparse pre-state (target path, one neighbour word per path table, garbage in allocatable frames); page-table indices (0,1,511,2)"
    //@ obligation C09 C09.update_flags_1gib.shape_p4_absent.no_frames_requested_or_zeroed tier=thorough bounded="pool of 7 tables (4 path + 3 allocatable); tree-shaped sparse pre-state (target path, one neighbour word per path table, garbage in allocatable frames); page-table indices (0,1,511,2)"
    //@ obligation C09 C09.update_flags_1gib.shape_p4_absent.no_dangling_table_pointer tier=thorough bounded="pool of 7 tables (4 path + 3 allocatable); tree-shaped sparse pre-state (target path, one neighbour word per path table, garbage in allocatable frames); page-table indices (0,1,511,2)"
    //@ obligation C09 C09.update_flags_1gib.shape_p4_absent.no_access_outside_page_tables tier=thorough bounded="pool of 7 tables (4 path + 3 allocatable); tree-shaped sparse pre-state (target path, one neighbour word per path table, garbage in allocatable frames); page-table indices (0,1,511,2)"
    #[kani::proof]
    #[kani::stub(PageTable::zero, zero_stub)]
    fn c01_update_flags_1gib_p4_absent_lo() {
        update_flags_step!(Size1GiB, "1gib", "p4_absent", P4_ABSENT, IDX_LO);
        kani::cover!(true, "c01_update_flags_1gib_p4_absent_lo: reachable");
    }

    //@ obligation C02 C02.update_flags_1gib.shape_p4_absent.error_leaves_every_mapping bounded="pool of 7 tables (4 path + 3 allocatable); tree-shaped sparse pre-state (target path, one neighbour word per path table, garbage in allocatable frames); page-table indices (511,510,1,0)"
    //@ obligation C02 C02.update_flags_1gib.shape_p4_absent.documented_outcome bounded="pool of 7 tables (4 path + 3 allocatable); tree-shaped sparse pre-state (target path, one neighbour word per path table, garbage in allocatable frames); page-table indices (511,510,1,0)"
    //@ obligation C01 C01.update_flags_1gib.shape_p4_absent.translate_agrees_after bounded="pool of 7 tables (4 path + 3 allocatable); tree-shaped sparse pre-state (target path, one neighbour word per path table, garbage in allocatable frames); page-table indices (511,510,1,0)"
    //@ obligation C09 C09.update_flags_1gib.shape_p4_absent.only_dictated_slots_change bounded="pool of 7 tables (4 path + 3 allocatable); tree-shaped sparse pre-state (target path, one neighbour word per path table, garbage in allocatable frames); page-table indices (511,510,1,0)"
    //@ obligation C09 C09.update_flags_1gib.shape_p4_absent.no_frames_requested_or_zeroed bounded="pool of 7 tables (4 path + 3 allocatable); tree-shaped sparse pre-state (target path, one neighbour word per path table, garbage in allocatable frames); page-table indices (511,510,1,0)"
    //@ obligation C09 C09.update_flags_1gib.shape_p4_absent.no_dangling_table_pointer bounded="pool of 7 tables (4 path + 3 allocatable); tree-shaped sparse pre-state (target path, one neighbour word per path table, garbage in allocatable frames); page-table indices (511,510,1,0)"
    //@ obligation C09 C09.update_flags_1gib.shape_p4_absent.no_access_outside_page_tables bounded="pool of 7 tables (4 path + 3 allocatable); tree-shaped sparse pre-state (target path, one neighbour word per path table, garbage in allocatable frames); page-table indices (511,510,1,0)"
    #[kani::proof]
    #[kani::stub(PageTable::zero, zero_stub)]
    fn c01_update_flags_1gib_p4_absent_hi() {
        update_flags_step!(Size1GiB, "1gib", "p4_absent", P4_ABSENT, IDX_HI);
        kani::cover!(true, "c01_update_flags_1gib_p4_absent_hi: reachable");
    }

    //@ obligation C02 C02.update_flags_1gib.shape_p4_absent.error_leaves_every_mapping tier=thorough bounded="pool of 7 tables (4 path + 3 allocatable); tree-shaped sparse pre-state (target path, one neighbour word per path table, garbage in allocatable frames); page-table indices (255,511,0,256)"
    //@ obligation C02 C02.update_flags_1gib.shape_p4_absent.documented_outcome tier=thorough bounded="pool of 7 tables (4 path + 3 allocatable); tree-shaped sparse pre-state (target path, one neighbour word per path table, garbage in allocatable frames); page-table indices (255,511,0,256)"
    //@ obligation C01 C01.update_flags_1gib.shape_p4_absent.translate_agrees_after tier=thorough bounded="pool of 7 tables (4 path + 3 allocatable); tree-shaped sparse pre-state (target path, one neighbour word per path table, garbage in allocatable frames); page-table indices (255,511,0,256)"
    //@ obligation C09 C09.update_flags_1gib.shape_p4_absent.only_dictated_slots_change tier=thorough bounded="pool of 7 tables (4 path + 3 allocatable); tree-shaped sparse pre-state (target path, one neighbour word per path table, garbage in allocatable frames); page-table indices (255,511,0,256)"
    //@ obligation C09 C09.update_flags_1gib.shape_p4_absent.no_frames_requested_or_zeroed tier=thorough bounded="pool of 7 tables (4 path + 3 allocatable); tree-shaped sparse pre-state (target path, one neighbour word per path table, garbage in allocatable frames); page-table indices (255,511,0,256)"
    //@ obligation C09 C09.update_flags_1gib.shape_p4_absent.no_dangling_table_pointer tier=thorough bounded="pool of 7 tables (4 path + 3 allocatable); tree-shaped sparse pre-state (target path, one neighbour word per path table, garbage in allocatable frames); page-table indices (255,511,0,256)"
    //@ obligation C09 C09.update_flags_1gib.shape_p4_absent.no_access_outside_page_tables tier=thorough bounded="pool of 7 tables (4 path + 3 allocatable); tree-shaped sparse pre-state (target path, one neighbour word per path table, garbage in allocatable frames); page-table indices (255,511,0,256)"
    #[kani::proof]
    #[kani::stub(PageTable::zero, zero_stub)]
    fn c01_update_flags_1gib_p4_absent_mid() {
        update_flags_step!(Size1GiB, "1gib", "p4_absent", P4_ABSENT, IDX_MID);
        kani::cover!(true, "c01_update_flags_1gib_p4_absent_mid: reachable");
    }

    //@ obligation C02 C02.update_flags_1gib.shape_p4_absent.error_leaves_every_mapping tier=thorough bounded="pool of 7 tables (4 path + 3 allocatable); tree-shaped sparse pre-state (target path, one neighbour word per path table, garbage in allocatable frames); page-table indices (256,0,510,511)"
    //@ obligation C02 C02.update_flags_1gib.shape_p4_absent.documented_outcome tier=thorough bounded="pool of 7 tables (4 path + 3 allocatable); tree-shaped sparse pre-state (target path, one neighbour word per path table, garbage in allocatable frames); page-table indices (256,0,510,511)"
    //@ obligation C01 C01.update_flags_1gib.shape_p4_absent.translate_agrees_after tier=thorough bounded="pool of 7 tables (4 path + 3 allocatable); tree-shaped sparse pre-state (target path, one neighbour word per path table, garbage in allocatable frames); page-table indices (256,0,510,511)"
    //@ obligation C09 C09.update_flags_1gib.shape_p4_absent.only_dictated_slots_change tier=thorough bounded="pool of 7 tables (4 path + 3 allocatable); tree-shaped sparse pre-state (target path, one neighbour word per path table, garbage in allocatable frames); page-table indices (256,0,510,511)"
    //@ obligation C09 C09.update_flags_1gib.shape_p4_absent.no_frames_requested_or_zeroed tier=thorough bounded="pool of 7 tables (4 path + 3 allocatable); tree-shaped sparse pre-state (target path, one neighbour word per path table, garbage in allocatable frames); page-table indices (256,0,510,511)"
    //@ obligation C09 C09.update_flags_1gib.shape_p4_absent.no_dangling_table_pointer tier=thorough bounded="pool of 7 tables (4 path + 3 allocatable); tree-shaped sparse pre-state (target path, one neighbour word per path table, garbage in allocatable frames); page-table indices (256,0,510,511)"
    //@ obligation C09 C09.update_flags_1gib.shape_p4_absent.no_access_outside_page_tables tier=thorough bounded="pool of 7 tables (4 path + 3 allocatable); tree-shaped sparse pre-state (target path, one neighbour word per path table, garbage in allocatable frames); page-table indices (256,0,510,511)"
    #[kani::proof]
    #[kani::stub(PageTable::zero, zero_stub)]
    fn c01_update_flags_1gib_p4_absent_up() {
        update_flags_step!(Size1GiB, "1gib", "p4_absent", P4_ABSENT, IDX_UP);
        kani::cover!(true, "c01_update_flags_1gib_p4_absent_up: reachable");
    }

    //@ obligation C02 C02.update_flags_1gib.shape_p3_absent.error_leaves_every_mapping tier=thorough bounded="pool of 7 tables (4 path + 3 allocatable); tree-shaped sparse pre-state (target path, one neighbour word per path table, garbage in allocatable frames); page-table indices (0,1,511,2)"
    //@ obligation C02 C02.update_flags_1gib.shape_p3_absent.documented_outcome tier=thorough bounded="pool of 7 tables (4 path + 3 allocatable); tree-shaped sparse pre-state (target path, one neighbour word per path table, garbage in allocatable frames); page-table indices (0,1,511,2)"
    //@ obligation C01 C01.update_flags_1gib.shape_p3_absent.translate_agrees_after tier=thorough bounded="pool of 7 tables (4 path + 3 allocatable); tree-shaped sparse pre-state (target path, one neighbour word per path table, garbage in allocatable frames); page-table indices (0,1,511,2)"
    //@ obligation C09 C09.update_flags_1gib.shape_p3_absent.only_dictated_slots_change tier=thorough bounded="pool of 7 tables (4 path + 3 allocatable); tree-shaped sparse pre-state (target path, one neighbour word per path table, garbage in allocatable frames); page-table indices (0,1,511,2)"
    //@ obligation C09 C09.update_flags_1gib.shape_p3_absent.no_frames_requested_or_zeroed tier=thorough bounded="pool of 7 tables (4 path + 3 allocatable); tree-shaped sparse pre-state (target path, one neighbour word per path table, garbage in allocatable frames); page-table indices (0,1,511,2)"
    //@ obligation C09 C09.update_flags_1gib.shape_p3_absent.no_dangling_table_pointer tier=thorough bounded="pool of 7 tables (4 path + 3 allocatable); tree-shaped sparse pre-state (target path, one neighbour word per path table, garbage in allocatable frames); page-table indices (0,1,511,2)"
    //@ obligation C09 C09.update_flags_1gib.shape_p3_absent.no_access_outside_page_tables tier=thorough bounded="pool of 7 tables (4 path + 3 allocatable); tree-shaped sparse pre-state (target path, one neighbour word per path table, garbage in allocatable frames); page-table indices (0,1,511,2)"
    #[kani::proof]
    #[kani::stub(PageTable::zero, zero_stub)]
    fn c01_update_flags_1gib_p3_absent_lo() {
        update_flags_step!(Size1GiB, "1gib", "p3_absent", P3_ABSENT, IDX_LO);
        kani::cover!(true, "c01_update_flags_1gib_p3_absent_lo: reachable");
    }

    //@ obligation C02 C02.update_flags_1gib.shape_p3_absent.error_leaves_every_mapping tier=thorough bounded="pool of 7 tables (4 path + 3 allocatable); tree-shaped sparse pre-state (target path, one neighbour word per path table, garbage in allocatable frames); page-table indices (511,510,1,0)"
    //@ obligation C02 C02.update_flags_1gib.shape_p3_absent.documented_outcome tier=thorough bounded="pool of 7 tables (4 path + 3 allocatable); tree-shaped sparse pre-state (target path, one neighbour word per path table, garbage in allocatable frames); page-table indices (511,510,1,0)"
    //@ obligation C01 C01.update_flags_1gib.shape_p3_absent.translate_agrees_after tier=thorough bounded="pool of 7 tables (4 path + 3 allocatable); tree-shaped sparse pre-state (target path, one neighbour word per path table, garbage in allocatable frames); page-table indices (511,510,1,0)"
    //@ obligation C09 C09.update_flags_1gib.shape_p3_absent.only_dictated_slots_change tier=thorough bounded="pool of 7 tables (4 path + 3 allocatable); tree-shaped sparse pre-state (target path, one neighbour word per path table, garbage in allocatable frames); page-table indices (511,510,1,0)"
    //@ obligation C09 C09.update_flags_1gib.shape_p3_absent.no_frames_requested_or_zeroed tier=thorough bounded="pool of 7 tables (4 path + 3 allocatable); tree-shaped sparse pre-state (target path, one neighbour word per path table, garbage in allocatable frames); page-table indices (511,510,1,0)"
    //@ obligation C09 C09.update_flags_1gib.shape_p3_absent.no_dangling_table_pointer tier=thorough bounded="pool of 7 tables (4 path + 3 allocatable); tree-shaped sparse pre-state (target path, one neighbour word per path table, garbage in allocatable frames); page-table indices (511,510,1,0)"
    //@ obligation C09 C09.update_flags_1gib.shape_p3_absent.no_access_outside_page_tables tier=thorough bounded="pool of 7 tables (4 path + 3 allocatable); tree-shaped sparse pre-state (target path, one neighbour word per path table, garbage in allocatable frames); page-table indices (511,510,1,0)"
    #[kani::proof]
    #[kani::stub(PageTable::zero, zero_stub)]
    fn c01_update_flags_1gib_p3_absent_hi() {
        update_flags_step!(Size1GiB, "1gib", "p3_absent", P3_ABSENT, IDX_HI);
        kani::cover!(true, "c01_update_flags_1gib_p3_absent_hi: reachable");
    }

    //@ obligation C02 C02.update_flags_1gib.shape_p3_absent.error_leaves_every_mapping bounded="pool of 7 tables (4 path + 3 allocatable); tree-shaped sparse pre-state (target path, one neighbour word per path table, garbage in allocatable frames); page-table indices (255,511,0,256)"
    //@ obligation C02 C02.update_flags_1gib.shape_p3_absent.documented_outcome bounded="pool of 7 tables (4 path + 3 allocatable); tree-shaped sparse pre-state (target path, one neighbour word per path table, garbage in allocatable frames); page-table indices (255,511,0,256)"
    //@ obligation C01 C01.update_flags_1gib.shape_p3_absent.translate_agrees_after bounded="pool of 7 tables (4 path + 3 allocatable); tree-shaped sparse pre-state (target path, one neighbour word per path table, garbage in allocatable frames); page-table indices (255,511,0,256)"
    //@ obligation C09 C09.update_flags_1gib.shape_p3_absent.only_dictated_slots_change bounded="pool of 7 tables (4 path + 3 allocatable); tree-shaped sparse pre-state (target path, one neighbour word per path table, garbage in allocatable frames); page-table indices (255,511,0,256)"
    //@ obligation C09 C09.update_flags_1gib.shape_p3_absent.no_frames_requested_or_zeroed bounded="pool of 7 tables (4 path + 3 allocatable); tree-shaped sparse pre-state (target path, one neighbour word per path table, garbage in allocatable frames); page-table indices (255,511,0,256)"
    //@ obligation C09 C09.update_flags_1gib.shape_p3_absent.no_dangling_table_pointer bounded="pool of 7 tables (4 path + 3 allocatable); tree-shaped sparse pre-state (target path, one neighbour word per path table, garbage in allocatable frames); page-table indices (255,511,0,256)"
    //@ obligation C09 C09.update_flags_1gib.shape_p3_absent.no_access_outside_page_tables bounded="pool of 7 tables (4 path + 3 allocatable); tree-shaped sparse pre-state (target path, one neighbour word per path table, garbage in allocatable frames); page-table indices (255,511,0,256)"
    #[kani::proof]
    #[kani::stub(PageTable::zero, zero_stub)]
    fn c01_update_flags_1gib_p3_absent_mid() {
        update_flags_step!(Size1GiB, "1gib", "p3_absent", P3_ABSENT, IDX_MID);
        kani::cover!(true, "c01_update_flags_1gib_p3_absent_mid: reachable");
    }

    //@ obligation C02 C02.update_flags_1gib.shape_p3_absent.error_leaves_every_mapping tier=thorough bounded="pool of 7 tables (4 path + 3 allocatable); tree-shaped sparse pre-state (target path, one neighbour word per path table, garbage in allocatable frames); page-table indices (256,0,510,511)"
    //@ obligation C02 C02.update_flags_1gib.shape_p3_absent.documented_outcome tier=thorough bounded="pool of 7 tables (4 path + 3 allocatable); tree-shaped sparse pre-state (target path, one neighbour word per path table, garbage in allocatable frames); page-table indices (256,0,510,511)"
    //@ obligation C01 C01.update_flags_1gib.shape_p3_absent.translate_agrees_after tier=thorough bounded="pool of 7 tables (4 path + 3 allocatable); tree-shaped sparse pre-state (target path, one neighbour word per path table, garbage in allocatable frames); page-table indices (256,0,510,511)"
    //@ obligation C09 C09.update_flags_1gib.shape_p3_absent.only_dictated_slots_change tier=thorough bounded="pool of 7 tables (4 path + 3 allocatable); tree-shaped sparse pre-state (target path, one neighbour word per path table, garbage in allocatable frames); page-table indices (256,0,510,511)"
    //@ obligation C09 C09.update_flags_1gib.shape_p3_absent.no_frames_requested_or_zeroed tier=thorough bounded="pool of 7 tables (4 path + 3 allocatable); tree-shaped sparse pre-state (target path, one neighbour word per path table, garbage in allocatable frames); page-table indices (256,0,510,511)"
    //@ obligation C09 C09.update_flags_1gib.shape_p3_absent.no_dangling_table_pointer tier=thorough bounded="pool of 7 tables (4 path + 3 allocatable); tree-shaped sparse pre-state (target path, one neighbour word per path table, garbage in allocatable frames); page-table indices (256,0,510,511)"
    //@ obligation C09 C09.update_flags_1gib.shape_p3_absent.no_access_outside_page_tables tier=thorough bounded="pool of 7 tables (4 path + 3 allocatable); tree-shaped sparse pre-state (target path, one neighbour word per path table, garbage in allocatable frames); page-table indices (256,0,510,511)"
    #[kani::proof]
    #[kani::stub(PageTable::zero, zero_stub)]
    fn c01_update_flags_1gib_p3_absent_up() {
        update_flags_step!(Size1GiB, "1gib", "p3_absent", P3_ABSENT, IDX_UP);
        kani::cover!(true, "c01_update_flags_1gib_p3_absent_up: reachable");
    }

    //@ obligation C01 C01.update_flags_1gib.shape_p3_huge.target_keeps_frame_and_size tier=thorough bounded="pool of 7 tables (4 path + 3 allocatable); tree-shaped sparse pre-state (target path, one neighbour word per path table, garbage in allocatable frames); page-table indices (0,1,511,2)"
    //@ obligation C11 C11.update_flags_1gib.shape_p3_huge.target_keeps_frame_and_size tier=thorough bounded="pool of 7 tables (4 path + 3 allocatable); tree-shaped sparse pre-state (target path, one neighbour word per path table, garbage in allocatable frames); page-table indices (0,1,511,2)"
    //@ obligation C01 C01.update_flags_1gib.shape_p3_huge.target_leaf_flags_replaced tier=thorough bounded="pool of 7 tables (4 path + 3 allocatable); tree-shaped sparse pre-state (target path, one neighbour word per path table, garbage in allocatable frames); page-table indices (0,1,511,2)"
    //@ obligation C11 C11.update_flags_1gib.shape_p3_huge.target_leaf_flags_replaced tier=thorough bounded="pool of 7 tables (4 path + 3 allocatable); tree-shaped sparse pre-state (target path, one neighbour word per path table, garbage in allocatable frames); page-table indices (0,1,511,2)"
    //@ obligation C01 C01.update_flags_1gib.shape_p3_huge.other_addresses_unchanged tier=thorough bounded="pool of 7 tables (4 path + 3 allocatable); tree-shaped sparse pre-state (target path, one neighbour word per path table, garbage in allocatable frames); page-table indices (0,1,511,2)"
    //@ obligation C11 C11.update_flags_1gib.shape_p3_huge.other_addresses_unchanged tier=thorough bounded="pool of 7 tables (4 path + 3 allocatable); tree-shaped sparse pre-state (target path, one neighbour word per path table, garbage in allocatable frames); page-table indices (0,1,511,2)"
    //@ obligation C01 C01.update_flags_1gib.shape_p3_huge.result_reports_page tier=thorough bounded="pool of 7 tables (4 path + 3 allocatable); tree-shaped sparse pre-state (target path, one neighbour word per path table, garbage in allocatable frames); page-table indices (0,1,511,2)"
    //@ obligation C11 C11.update_flags_1gib.shape_p3_huge.token_names_page tier=thorough bounded="pool of 7 tables (4 path + 3 allocatable); tree-shaped sparse pre-state (target path, one neighbour word per path table, garbage in allocatable frames); page-table indices (0,1,511,2)"
    //@ obligation C02 C02.update_flags_1gib.shape_p3_huge.documented_outcome tier=thorough bounded="pool of 7 tables (4 path + 3 allocatable); tree-shaped sparse pre-state (target path, one neighbour word per path table, garbage in allocatable frames); page-table indices (0,1,511,2)"
    //@ obligation C01 C01.update_flags_1gib.shape_p3_huge.translate_agrees_after tier=thorough bounded="pool of 7 tables (4 path + 3 allocatable); tree-shaped sparse pre-state (target path, one neighbour word per path table, garbage in allocatable frames); page-table indices (0,1,511,2)"
    //@ obligation C09 C09.update_flags_1gib.shape_p3_huge.only_dictated_slots_change tier=thorough bounded="pool of 7 tables (4 path + 3 allocatable); tree-shaped sparse pre-state (target path, one neighbour word per path table, garbage in allocatable frames); page-table indices (0,1,511,2)"
    //@ obligation C09 C09.update_flags_1gib.shape_p3_huge.no_frames_requested_or_zeroed tier=thorough bounded="pool of 7 tables (4 path + 3 allocatable); tree-shaped sparse pre-state (target path, one neighbour word per path table, garbage in allocatable frames); page-table indices (0,1,511,2)"
    //@ obligation C09 C09.update_flags_1gib.shape_p3_huge.no_dangling_table_pointer tier=thorough bounded="pool of 7 tables (4 path + 3 allocatable); tree-shaped sparse pre-state (target path, one neighbour word per path table, garbage in allocatable frames); page-table indices (0,1,511,2)"
    //@ obligation C09 C09.update_flags_1gib.shape_p3_huge.no_access_outside_page_tables tier=thorough bounded="pool of 7 tables (4 path + 3 allocatable); tree-shaped sparse pre-state (target path, one neighbour word per path table, garbage in allocatable frames); page-table indices (0,1,511,2)"
    #[kani::proof]
    #[kani::stub(PageTable::zero, zero_stub)]
    fn c01_update_flags_1gib_p3_huge_lo() {
        update_flags_step!(Size1GiB, "1gib", "p3_huge", P3_HUGE, IDX_LO);
        kani::cover!(true, "c01_update_flags_1gib_p3_huge_lo: reachable");
    }

    //@ obligation C01 C01.update_flags_1gib.shape_p3_huge.target_keeps_frame_and_size tier=thorough bounded="pool of 7 tables (4 path + 3 allocatable); tree-shaped sparse pre-state (target path, one neighbour word per path table, garbage in allocatable frames); page-table indices (511,510,1,0)"
    //@ obligation C11 C11.update_flags_1gib.shape_p3_huge.target_keeps_frame_and_size tier=thorough bounded="pool of 7 tables (4 path + 3 allocatable); tree-shaped sparse pre-state (target path, one neighbour word per path table, garbage in allocatable frames); page-table indices (511,510,1,0)"
    //@ obligation C01 C01.update_flags_1gib.shape_p3_huge.target_leaf_flags_replaced tier=thorough bounded="pool of 7 tables (4 path + 3 allocatable); tree-shaped sparse pre-state (target path, one neighbour word per path table, garbage in allocatable frames); page-table indices (511,510,1,0)"
    //@ obligation C11 C11.update_flags_1gib.shape_p3_huge.target_leaf_flags_replaced tier=thorough bounded="pool of 7 tables (4 path + 3 allocatable); tree-shaped sparse pre-state (target path, one neighbour word per path table, garbage in allocatable frames); page-table indices (511,510,1,0)"
    //@ obligation C01 C01.update_flags_1gib.shape_p3_huge.other_addresses_unchanged tier=thorough bounded="pool of 7 tables (4 path + 3 allocatable); tree-shaped sparse pre-state (target path, one neighbour word per path table, garbage in allocatable frames); page-table indices (511,510,1,0)"
    //@ obligation C11 C11.update_flags_1gib.shape_p3_huge.other_addresses_unchanged tier=thorough bounded="pool of 7 tables (4 path + 3 allocatable); tree-shaped sparse pre-state (target path, one neighbour word per path table, garbage in allocatable frames); page-table indices (511,510,1,0)"
    //@ obligation C01 C01.update_flags_1gib.shape_p3_huge.result_reports_page tier=thorough bounded="pool of 7 tables (4 path + 3 allocatable); tree-shaped sparse pre-state (target path, one neighbour word per path table, garbage in allocatable frames); page-table indices (511,510,1,0)"
    //@ obligation C11 C11.update_flags_1gib.shape_p3_huge.token_names_page tier=thorough bounded="pool of 7 tables (4 path + 3 allocatable); tree-shaped sparse pre-state (target path, one neighbour word per path table, garbage in allocatable frames); page-table indices (511,510,1,0)"
    //@ obligation C02 C02.update_flags_1gib.shape_p3_huge.documented_outcome tier=thorough bounded="pool of 7 tables (4 path + 3 allocatable); tree-shaped sparse pre-state (target path, one neighbour word per path table, garbage in allocatable frames); page-table indices (511,510,1,0)"
    //@ obligation C01 C01.update_flags_1gib.shape_p3_huge.translate_agrees_after tier=thorough bounded="pool of 7 tables (4 path + 3 allocatable); tree-shaped sparse pre-state (target path, one neighbour word per path table, garbage in allocatable frames); page-table indices (511,510,1,0)"
    //@ obligation C09 C09.update_flags_1gib.shape_p3_huge.only_dictated_slots_change tier=thorough bounded="pool of 7 tables (4 path + 3 allocatable); tree-shaped sparse pre-state (target path, one neighbour word per path table, garbage in allocatable frames); page-table indices (511,510,1,0)"
    //@ obligation C09 C09.update_flags_1gib.shape_p3_huge.no_frames_requested_or_zeroed tier=thorough bounded="pool of 7 tables (4 path + 3 allocatable); tree-shaped sparse pre-state (target path, one neighbour word per path table, garbage in allocatable frames); page-table indices (511,510,1,0)"
    //@ obligation C09 C09.update_flags_1gib.shape_p3_huge.no_dangling_table_pointer tier=thorough bounded="pool of 7 tables (4 path + 3 allocatable); tree-shaped sparse pre-state (target path, one neighbour word per path table, garbage in allocatable frames); page-table indices (511,510,1,0)"
    //@ obligation C09 C09.update_flags_1gib.shape_p3_huge.no_access_outside_page_tables tier=thorough bounded="pool of 7 tables (4 path + 3 allocatable); tree-shaped sparse pre-state (target path, one neighbour word per path table, garbage in allocatable frames); page-table indices (511,510,1,0)"
    #[kani::proof]
    #[kani::stub(PageTable::zero, zero_stub)]
    fn c01_update_flags_1gib_p3_huge_hi() {
        update_flags_step!(Size1GiB, "1gib", "p3_huge", P3_HUGE, IDX_HI);
        kani::cover!(true, "c01_update_flags_1gib_p3_huge_hi: reachable");
    }

    //@ obligation C01 C01.update_flags_1gib.shape_p3_huge.target_keeps_frame_and_size bounded="pool of 7 tables (4 path + 3 allocatable); tree-shaped sparse pre-state (target path, one neighbour word per path table, garbage in allocatable frames); page-table indices (255,511,0,256)"
    //@ obligation C11 C11.update_flags_1gib.shape_p3_huge.target_keeps_frame_and_size bounded="pool of 7 tables (4 path + 3 allocatable); tree-shaped sparse pre-state (target path, one neighbour word per path table, garbage in allocatable frames); page-table indices (255,511,0,256)"
    //@ obligation C01 C01.update_flags_1gib.shape_p3_huge.target_leaf_flags_replaced bounded="pool of 7 tables (4 path + 3 allocatable); tree-shaped sparse pre-state (target path, one neighbour word per path table, garbage in allocatable frames); page-table indices (255,511,0,256)"
    //@ obligation C11 C11.update_flags_1gib.shape_p3_huge.target_leaf_flags_replaced bounded="pool of 7 tables (4 path + 3 allocatable); tree-shaped sparse pre-state (target path, one neighbour word per path table, garbage in allocatable frames); page-table indices (255,511,0,256)"
    //@ obligation C01 C01.update_flags_1gib.shape_p3_huge.other_addresses_unchanged bounded="pool of 7 tables (4 path + 3 allocatable); tree-shaped sparse pre-state (target path, one neighbour word per path table, garbage in allocatable frames); page-table indices (255,511,0,256)"
    //@ obligation C11 C11.update_flags_1gib.shape_p3_huge.other_addresses_unchanged bounded="pool of 7 tables (4 path + 3 allocatable); tree-shaped sparse pre-state (target path, one neighbour word per path table, garbage in allocatable frames); page-table indices (255,511,0,256)"
    //@ obligation C01 C01.update_flags_1gib.shape_p3_huge.result_reports_page bounded="pool of 7 tables (4 path + 3 allocatable); tree-shaped sparse pre-state (target path, one neighbour word per path table, garbage in allocatable frames); page-table indices (255,511,0,256)"
    //@ obligation C11 C11.update_flags_1gib.shape_p3_huge.token_names_page bounded="pool of 7 tables (4 path + 3 allocatable); tree-shaped sparse pre-state (target path, one neighbour word per path table, garbage in allocatable frames); page-table indices (255,511,0,256)"
    //@ obligation C02 C02.update_flags_1gib.shape_p3_huge.documented_outcome bounded="pool of 7 tables (4 path + 3 allocatable); tree-shaped sparse pre-state (target path, one neighbour word per path table, garbage in allocatable frames); page-table indices (255,511,0,256)"
    //@ obligation C01 C01.update_flags_1gib.shape_p3_huge.translate_agrees_after bounded="pool of 7 tables (4 path + 3 allocatable); tree-shaped sparse pre-state (target path, one neighbour word per path table, garbage in allocatable frames); page-table indices (255,511,0,256)"
    //@ obligation C09 C09.update_flags_1gib.shape_p3_huge.only_dictated_slots_change bounded="pool of 7 tables (4 path + 3 allocatable); tree-shaped sparse pre-state (target path, one neighbour word per path table, garbage in allocatable frames); page-table indices (255,511,0,256)"
    //@ obligation C09 C09.update_flags_1gib.shape_p3_huge.no_frames_requested_or_zeroed bounded="pool of 7 tables (4 path + 3 allocatable); tree-shaped sparse pre-state (target path, one neighbour word per path table, garbage in allocatable frames); page-table indices (255,511,0,256)"
    //@ obligation C09 C09.update_flags_1gib.shape_p3_huge.no_dangling_table_pointer bounded="pool of 7 tables (4 path + 3 allocatable); tree-shaped sparse pre-state (target path, one neighbour word per path table, garbage in allocatable frames); page-table indices (255,511,0,256)"
    //@ obligation C09 C09.update_flags_1gib.shape_p3_huge.no_access_outside_page_tables bounded="pool of 7 tables (4 path + 3 allocatable); tree-shaped sparse pre-state (target path, one neighbour word per path table, garbage in allocatable frames); page-table indices (255,511,0,256)"
    #[kani::proof]
    #[kani::stub(PageTable::zero, zero_stub)]
    fn c01_update_flags_1gib_p3_huge_mid() {
        update_flags_step!(Size1GiB, "1gib", "p3_huge", P3_HUGE, IDX_MID);
        kani::cover!(true, "c01_update_flags_1gib_p3_huge_mid: reachable");
    }

    //@ obligation C01 C01.update_flags_1gib.shape_p3_huge.target_keeps_frame_and_size tier=thorough bounded="pool of 7 tables (4 path + 3 allocatable); tree-shaped sparse pre-state (target path, one neighbour word per path table, garbage in allocatable frames); page-table indices (256,0,510,511)"
    //@ obligation C11 C11.update_flags_1gib.shape_p3_huge.target_keeps_frame_and_size tier=thorough bounded="pool of 7 tables (4 path + 3 allocatable); tree-shaped sparse pre-state (target path, one neighbour word per path table, garbage in allocatable frames); page-table indices (256,0,510,511)"
    //@ obligation C01 C01.update_flags_1gib.shape_p3_huge.target_leaf_flags_replaced tier=thorough bounded="pool of 7 tables (4 path + 3 allocatable); tree-shaped sparse pre-state (target path, one neighbour word per path table, garbage in allocatable frames); page-table indices (256,0,510,511)"
    //@ obligation C11 C11.update_flags_1gib.shape_p3_huge.target_leaf_flags_replaced tier=thorough bounded="pool of 7 tables (4 path + 3 allocatable); tree-shaped sparse pre-state (target path, one neighbour word per path table, garbage in allocatable frames); page-table indices (256,0,510,511)"
    //@ obligation C01 C01.update_flags_1gib.shape_p3_huge.other_addresses_unchanged tier=thorough bounded="pool of 7 tables (4 path + 3 allocatable); tree-shaped sparse pre-state (target path, one neighbour word per path table, garbage in allocatable frames); page-table indices (256,0,510,511)"
    //@ obligation C11 C11.update_flags_1gib.shape_p3_huge.other_addresses_unchanged tier=thorough bounded="pool of 7 tables (4 path + 3 allocatable); tree-shaped sparse pre-state (target path, one neighbour word per path table, garbage in allocatable frames); page-table indices (256,0,510,511)"
    //@ obligation C01 C01.update_flags_1gib.shape_p3_huge.result_reports_page tier=thorough bounded="pool of 7 tables (4 path + 3 allocatable); tree-shaped sparse pre-state (target path, one neighbour word per path table, garbage in allocatable frames); page-table indices (256,0,510,511)"
    //@ obligation C11 C11.update_flags_1gib.shape_p3_huge.token_names_page tier=thorough bounded="pool of 7 tables (4 path + 3 allocatable); tree-shaped sparse pre-state (target path, one neighbour word per path table, garbage in allocatable frames); page-table indices (256,0,510,511)"
    //@ obligation C02 C02.update_flags_1gib.shape_p3_huge.documented_outcome tier=thorough bounded="pool of 7 tables (4 path + 3 allocatable); tree-shaped sparse pre-state (target path, one neighbour word per path table, garbage in allocatable frames); page-table indices (256,0,510,511)"
    //@ obligation C01 C01.update_flags_1gib.shape_p3_huge.translate_agrees_after tier=thorough bounded="pool of 7 tables (4 path + 3 allocatable); tree-shaped sparse pre-state (target path, one neighbour word per path table, garbage in allocatable frames); page-table indices (256,0,510,511)"
    //@ obligation C09 C09.update_flags_1gib.shape_p3_huge.only_dictated_slots_change tier=thorough bounded="pool of 7 tables (4 path + 3 allocatable); tree-shaped sparse pre-state (target path, one neighbour word per path table, garbage in allocatable frames); page-table indices (256,0,510,511)"
    //@ obligation C09 C09.update_flags_1gib.shape_p3_huge.no_frames_requested_or_zeroed tier=thorough bounded="pool of 7 tables (4 path + 3 allocatable); tree-shaped sparse pre-state (target path, one neighbour word per path table, garbage in allocatable frames); page-table indices (256,0,510,511)"
    //@ obligation C09 C09.update_flags_1gib.shape_p3_huge.no_dangling_table_pointer tier=thorough bounded="pool of 7 tables (4 path + 3 allocatable); tree-shaped sparse pre-state (target path, one neighbour word per path table, garbage in allocatable frames); page-table indices (256,0,510,511)"
    //@ obligation C09 C09.update_flags_1gib.shape_p3_huge.no_access_outside_page_tables tier=thorough bounded="pool of 7 tables (4 path + 3 allocatable); tree-shaped sparse pre-state (target path, one neighbour word per path table, garbage in allocatable frames); page-table indices (256,0,510,511)"
    #[kani::proof]
    #[kani::stub(PageTable::zero, zero_stub)]
    fn c01_update_flags_1gib_p3_huge_up() {
        update_flags_step!(Size1GiB, "1gib", "p3_huge", P3_HUGE, IDX_UP);
        kani::cover!(true, "c01_update_flags_1gib_p3_huge_up: reachable");
    }

    //@ obligation C02 C02.update_flags_1gib.shape_table_entry.no_success_for_nonexistent_size tier=thorough bounded="pool of 7 tables (4 path + 3 allocatable); tree-shaped sparse pre-state (target path, one neighbour word per path table, garbage in allocatable frames); page-table indices (0,1,511,2)"
    //@ obligation C02 C02.update_flags_1gib.shape_table_entry.error_leaves_every_mapping tier=thorough bounded="pool of 7 tables (4 path + 3 allocatable); tree-shaped sparse pre-state (target path, one neighbour word per path table, garbage in allocatable frames); page-table indices (0,1,511,2)"
    //@ obligation C02 C02.update_flags_1gib.shape_table_entry.documented_outcome tier=thorough bounded="pool of 7 tables (4 path + 3 allocatable); tree-shaped sparse pre-state (target path, one neighbour word per path table, garbage in allocatable frames); page-table indices (0,1,511,2)"
    //@ obligation C01 C01.update_flags_1gib.shape_table_entry.translate_agrees_after tier=thorough bounded="pool of 7 tables (4 path + 3 allocatable); tree-shaped sparse pre-state (target path, one neighbour word per path table, garbage in allocatable frames); page-table indices (0,1,511,2)"
    //@ obligation C09 C09.update_flags_1gib.shape_table_entry.only_dictated_slots_change tier=thorough bounded="pool of 7 tables (4 path + 3 allocatable); tree-shaped sparse pre-state (target path, one neighbour word per path table, garbage in allocatable frames); page-table indices (0,1,511,2)"
    //@ obligation C09 C09.update_flags_1gib.shape_table_entry.no_frames_requested_or_zeroed tier=thorough bounded="pool of 7 tables (4 path + 3 allocatable); tree-shaped sparse pre-state (target path, one neighbour word per path table, garbage in allocatable frames); page-table indices (0,1,511,2)"
    //@ obligation C09 C09.update_flags_1gib.shape_table_entry.no_dangling_table_pointer tier=thorough bounded="pool of 7 tables (4 path + 3 allocatable); tree-shaped sparse pre-state (target path, one neighbour word per path table, garbage in allocatable frames); page-table indices (0,1,511,2)"
    //@ obligation C09 C09.update_flags_1gib.shape_table_entry.no_access_outside_page_tables tier=thorough bounded="pool of 7 tables (4 path + 3 allocatable); tree-shaped sparse pre-state (target path, one neighbour word per path table, garbage in allocatable frames); page-table indices (0,1,511,2)"
    #[kani::proof]
    #[kani::stub(PageTable::zero, zero_stub)]
    fn c01_update_flags_1gib_table_entry_lo() {
        update_flags_step!(Size1GiB, "1gib", "table_entry", P3_TABLE, IDX_LO);
        kani::cover!(true, "c01_update_flags_1gib_table_entry_lo: reachable");
    }

    //@ obligation C02 C02.update_flags_1gib.shape_table_entry.no_success_for_nonexistent_size tier=thorough bounded="pool of 7 tables (4 path + 3 allocatable); tree-shaped sparse pre-state (target path, one neighbour word per path table, garbage in allocatable frames); page-table indices (511,510,1,0)"
    //@ obligation C02 C02.update_flags_1gib.shape_table_entry.error_leaves_every_mapping tier=thorough bounded="pool of 7 tables (4 path + 3 allocatable); tree-shaped sparse pre-state (target path, one neighbour word per path table, garbage in allocatable frames); page-table indices (511,510,1,0)"
    //@ obligation C02 C02.update_flags_1gib.shape_table_entry.documented_outcome tier=thorough bounded="pool of 7 tables (4 path + 3 allocatable); tree-shaped sparse pre-state (target path, one neighbour word per path table, garbage in allocatable frames); page-table indices (511,510,1,0)"
    //@ obligation C01 C01.update_flags_1gib.shape_table_entry.translate_agrees_after tier=thorough bounded="pool of 7 tables (4 path + 3 allocatable); tree-shaped sparse pre-state (target path, one neighbour word per path table, garbage in allocatable frames); page-table indices (511,510,1,0)"
    //@ obligation C09 C09.update_flags_1gib.shape_table_entry.only_dictated_slots_change tier=thorough bounded="pool of 7 tables (4 path + 3 allocatable); tree-shaped sparse pre-state (target path, one neighbour word per path table, garbage in allocatable frames); page-table indices (511,510,1,0)"
    //@ obligation C09 C09.update_flags_1gib.shape_table_entry.no_frames_requested_or_zeroed tier=thorough bounded="pool of 7 tables (4 path + 3 allocatable); tree-shaped sparse pre-state (target path, one neighbour word per path table, garbage in allocatable frames); page-table indices (511,510,1,0)"
    //@ obligation C09 C09.update_flags_1gib.shape_table_entry.no_dangling_table_pointer tier=thorough bounded="pool of 7 tables (4 path + 3 allocatable); tree-shaped sparse pre-state (target path, one neighbour word per path table, garbage in allocatable frames); page-table indices (511,510,1,0)"
    //@ obligation C09 C09.update_flags_1gib.shape_table_entry.no_access_outside_page_tables tier=thorough bounded="pool of 7 tables (4 path + 3 allocatable); tree-shaped sparse pre-state (target path, one neighbour word per path table, garbage in allocatable frames); page-table indices (511,510,1,0)"
    #[kani::proof]
    #[kani::stub(PageTable::zero, zero_stub)]
    fn c01_update_flags_1gib_table_entry_hi() {
        update_flags_step!(Size1GiB, "1gib", "table_entry", P3_TABLE, IDX_HI);
        kani::cover!(true, "c01_update_flags_1gib_table_entry_hi: reachable");
    }

    //@ obligation C02 C02.update_flags_1gib.shape_table_entry.no_success_for_nonexistent_size tier=thorough bounded="pool of 7 tables (4 path + 3 allocatable); tree-shaped sparse pre-state (target path, one neighbour word per path table, garbage in allocatable frames); page-table indices (255,511,0,256)"
    //@ obligation C02 C02.update_flags_1gib.shape_table_entry.error_leaves_every_mapping tier=thorough bounded="pool of 7 tables (4 path + 3 allocatable); tree-shaped sparse pre-state (target path, one neighbour word per path table, garbage in allocatable frames); page-table indices (255,511,0,256)"
    //@ obligation C02 C02.update_flags_1gib.shape_table_entry.documented_outcome tier=thorough bounded="pool of 7 tables (4 path + 3 allocatable); tree-shaped sparse pre-state (target path, one neighbour word per path table, garbage in allocatable frames); page-table indices (255,511,0,256)"
    //@ obligation C01 C01.update_flags_1gib.shape_table_entry.translate_agrees_after tier=thorough bounded="pool of 7 tables (4 path + 3 allocatable); tree-shaped sparse pre-state (target path, one neighbour word per path table, garbage in allocatable frames); page-table indices (255,511,0,256)"
    //@ obligation C09 C09.update_flags_1gib.shape_table_entry.only_dictated_slots_change tier=thorough bounded="pool of 7 tables (4 path + 3 allocatable); tree-shaped sparse pre-state (target path, one neighbour word per path table, garbage in allocatable frames); page-table indices (255,511,0,256)"
    //@ obligation C09 C09.update_flags_1gib.shape_table_entry.no_frames_requested_or_zeroed tier=thorough bounded="pool of 7 tables (4 path + 3 allocatable); tree-shaped sparse pre-state (target path, one neighbour word per path table, garbage in allocatable frames); page-table indices (255,511,0,256)"
    //@ obligation C09 C09.update_flags_1gib.shape_table_entry.no_dangling_table_pointer tier=thorough bounded="pool of 7 tables (4 path + 3 allocatable); tree-shaped sparse pre-state (target path, one neighbour word per path table, garbage in allocatable frames); page-table indices (255,511,0,256)"
    //@ obligation C09 C09.update_flags_1gib.shape_table_entry.no_access_outside_page_tables tier=thorough bounded="pool of 7 tables (4 path + 3 allocatable); tree-shaped sparse pre-state (target path, one neighbour word per path table, garbage in allocatable frames); page-table indices (255,511,0,256)"
    #[kani::proof]
    #[kani::stub(PageTable::zero, zero_stub)]
    fn c01_update_flags_1gib_table_entry_mid() {
        update_flags_step!(Size1GiB, "1gib", "table_entry", P3_TABLE, IDX_MID);
        kani::cover!(true, "c01_update_flags_1gib_table_entry_mid: reachable");
    }

    //@ obligation C02 C02.update_flags_1gib.shape_table_entry.no_success_for_nonexistent_size bounded="pool of 7 tables (4 path + 3 allocatable); tree-shaped sparse pre-state (target path, one neighbour word per path table, garbage in allocatable frames); page-table indices (256,0,510,511)"
    //@ obligation C02 C02.update_flags_1gib.shape_table_entry.error_leaves_every_mapping bounded="pool of 7 tables (4 path + 3 allocatable); tree-shaped sparse pre-state (target path, one neighbour word per path table, garbage in allocatable frames); page-table indices (256,0,510,511)"
    //@ obligation C02 C02.update_flags_1gib.shape_table_entry.documented_outcome bounded="pool of 7 tables (4 path + 3 allocatable); tree-shaped sparse pre-state (target path, one neighbour word per path table, garbage in allocatable frames); page-table indices (256,0,510,511)"
    //@ obligation C01 C01.update_flags_1gib.shape_table_entry.translate_agrees_after bounded="pool of 7 tables (4 path + 3 allocatable); tree-shaped sparse pre-state (target path, one neighbour word per path table, garbage in allocatable frames); page-table indices (256,0,510,511)"
    //@ obligation C09 C09.update_flags_1gib.shape_table_entry.only_dictated_slots_change bounded="pool of 7 tables (4 path + 3 allocatable); tree-shaped sparse pre-state (target path, one neighbour word per path table, garbage in allocatable frames); page-table indices (256,0,510,511)"
    //@ obligation C09 C09.update_flags_1gib.shape_table_entry.no_frames_requested_or_zeroed bounded="pool of 7 tables (4 path + 3 allocatable); tree-shaped sparse pre-state (target path, one neighbour word per path table, garbage in allocatable frames); page-table indices (256,0,510,511)"
    //@ obligation C09 C09.update_flags_1gib.shape_table_entry.no_dangling_table_pointer bounded="pool of 7 tables (4 path + 3 allocatable); tree-shaped sparse pre-state (target path, one neighbour word per path table, garbage in allocatable frames); page-table indices (256,0,510,511)"
    //@ obligation C09 C09.update_flags_1gib.shape_table_entry.no_access_outside_page_tables bounded="pool of 7 tables (4 path + 3 allocatable); tree-shaped sparse pre-state (target path, one neighbour word per path table, garbage in allocatable frames); page-table indices (256,0,510,511)"
    #[kani::proof]
    #[kani::stub(PageTable::zero, zero_stub)]
    fn c01_update_flags_1gib_table_entry_up() {
        update_flags_step!(Size1GiB, "1gib", "table_entry", P3_TABLE, IDX_UP);
        kani::cover!(true, "c01_update_flags_1gib_table_entry_up: reachable");
    }

    //@ obligation C01 C01.update_flags_1gib.shape_sym.target_keeps_frame_and_size tier=thorough bounded="pool of 7 tables (4 path + 3 allocatable); tree-shaped sparse pre-state (target path, one neighbour word per path table, garbage in allocatable frames); page-table indices (0,1,511,2)"
    //@ obligation C11 C11.update_flags_1gib.shape_sym.target_keeps_frame_and_size tier=thorough bounded="pool of 7 tables (4 path + 3 allocatable); tree-shaped sparse pre-state (target path, one neighbour word per path table, garbage in allocatable frames); page-table indices (0,1,511,2)"
    //@ obligation C01 C01.update_flags_1gib.shape_sym.target_leaf_flags_replaced tier=thorough bounded="pool of 7 tables (4 path + 3 allocatable); tree-shaped sparse pre-state (target path, one neighbour word per path table, garbage in allocatable frames); page-table indices (0,1,511,2)"
    //@ obligation C11 C11.update_flags_1gib.shape_sym.target_leaf_flags_replaced tier=thorough bounded="pool of 7 tables (4 path + 3 allocatable); tree-shaped sparse pre-state (target path, one neighbour word per path table, garbage in allocatable frames); page-table indices (0,1,511,2)"
    //@ obligation C01 C01.update_flags_1gib.shape_sym.other_addresses_unchanged tier=thorough bounded="pool of 7 tables (4 path + 3 allocatable); tree-shaped sparse pre-state (target path, one neighbour word per path table, garbage in allocatable frames); page-table indices (0,1,511,2)"
    //@ obligation C11 C11.update_flags_1gib.shape_sym.other_addresses_unchanged tier=thorough bounded="pool of 7 tables (4 path + 3 allocatable); tree-shaped sparse pre-state (target path, one neighbour word per path table, garbage in allocatable frames); page-table indices (0,1,511,2)"
    //@ obligation C01 C01.update_flags_1gib.shape_sym.result_reports_page tier=thorough bounded="pool of 7 tables (4 path + 3 allocatable); tree-shaped sparse pre-state (target path, one neighbour word per path table, garbage in allocatable frames); page-table indices (0,1,511,2)"
    //@ obligation C11 C11.update_flags_1gib.shape_sym.token_names_page tier=thorough bounded="pool of 7 tables (4 path + 3 allocatable); tree-shaped sparse pre-state (target path, one neighbour word per path table, garbage in allocatable frames); page-table indices (0,1,511,2)"
    //@ obligation C02 C02.update_flags_1gib.shape_sym.documented_outcome tier=thorough bounded="pool of 7 tables (4 path + 3 allocatable); tree-shaped sparse pre-state (target path, one neighbour word per path table, garbage in allocatable frames); page-table indices (0,1,511,2)"
    //@ obligation C01 C01.update_flags_1gib.shape_sym.translate_agrees_after tier=thorough bounded="pool of 7 tables (4 path + 3 allocatable); tree-shaped sparse pre-state (target path, one neighbour word per path table, garbage in allocatable frames); page-table indices (0,1,511,2)"
    //@ obligation C09 C09.update_flags_1gib.shape_sym.only_dictated_slots_change tier=thorough bounded="pool of 7 tables (4 path + 3 allocatable); tree-shaped sparse pre-state (target path, one neighbour word per path table, garbage in allocatable frames); page-table indices (0,1,511,2)"
    //@ obligation C09 C09.update_flags_1gib.shape_sym.no_frames_requested_or_zeroed tier=thorough bounded="pool of 7 tables (4 path + 3 allocatable); tree-shaped sparse pre-state (target path, one neighbour word per path table, garbage in allocatable frames); page-table indices (0,1,511,2)"
    //@ obligation C09 C09.update_flags_1gib.shape_sym.no_dangling_table_pointer tier=thorough bounded="pool of 7 tables (4 path + 3 allocatable); tree-shaped sparse pre-state (target path, one neighbour word per path table, garbage in allocatable frames); page-table indices (0,1,511,2)"
    //@ obligation C09 C09.update_flags_1gib.shape_sym.no_access_outside_page_tables tier=thorough bounded="pool of 7 tables (4 path + 3 allocatable); tree-shaped sparse pre-state (target path, one neighbour word per path table, garbage in allocatable frames); page-table indices (0,1,511,2)"
    //@ obligation C02 C02.update_flags_1gib.shape_sym.error_leaves_every_mapping tier=thorough bounded="pool of 7 tables (4 path + 3 allocatable); tree-shaped sparse pre-state (target path, one neighbour word per path table, garbage in allocatable frames); page-table indices (0,1,511,2)"
    #[kani::proof]
    #[kani::stub(PageTable::zero, zero_stub)]
    fn c01_update_flags_1gib_sym_lo() {
        update_flags_step!(Size1GiB, "1gib", "sym", P3_SYM, IDX_LO);
        kani::cover!(true, "c01_update_flags_1gib_sym_lo: reachable");
    }

    //@ obligation C01 C01.update_flags_1gib.shape_sym.target_keeps_frame_and_size bounded="pool of 7 tables (4 path + 3 allocatable); tree-shaped sparse pre-state (target path, one neighbour word per path table, garbage in allocatable frames); page-table indices (511,510,1,0)"
    //@ obligation C11 C11.update_flags_1gib.shape_sym.target_keeps_frame_and_size bounded="pool of 7 tables (4 path + 3 allocatable); tree-shaped sparse pre-state (target path, one neighbour word per path table, garbage in allocatable frames); page-table indices (511,510,1,0)"
    //@ obligation C01 C01.update_flags_1gib.shape_sym.target_leaf_flags_replaced bounded="pool of 7 tables (4 path + 3 allocatable); tree-shaped sparse pre-state (target path, one neighbour word per path table, garbage in allocatable frames); page-table indices (511,510,1,0)"
    //@ obligation C11 C11.update_flags_1gib.shape_sym.target_leaf_flags_replaced bounded="pool of 7 tables (4 path + 3 allocatable); tree-shaped sparse pre-state (target path, one neighbour word per path table, garbage in allocatable frames); page-table indices (511,510,1,0)"
    //@ obligation C01 C01.update_flags_1gib.shape_sym.other_addresses_unchanged bounded="pool of 7 tables (4 path + 3 allocatable); tree-shaped sparse pre-state (target path, one neighbour word per path table, garbage in allocatable frames); page-table indices (511,510,1,0)"
    //@ obligation C11 C11.update_flags_1gib.shape_sym.other_addresses_unchanged bounded="pool of 7 tables (4 path + 3 allocatable); tree-shaped sparse pre-state (target path, one neighbour word per path table, garbage in allocatable frames); page-table indices (511,510,1,0)"
    //@ obligation C01 C01.update_flags_1gib.shape_sym.result_reports_page bounded="pool of 7 tables (4 path + 3 allocatable); tree-shaped sparse pre-state (target path, one neighbour word per path table, garbage in allocatable frames); page-table indices (511,510,1,0)"
    //@ obligation C11 C11.update_flags_1gib.shape_sym.token_names_page bounded="pool of 7 tables (4 path + 3 allocatable); tree-shaped sparse pre-state (target path, one neighbour word per path table, garbage in allocatable frames); page-table indices (511,510,1,0)"
    //@ obligation C02 C02.update_flags_1gib.shape_sym.documented_outcome bounded="pool of 7 tables (4 path + 3 allocatable); tree-shaped sparse pre-state (target path, one neighbour word per path table, garbage in allocatable frames); page-table indices (511,510,1,0)"
    //@ obligation C01 C01.update_flags_1gib.shape_sym.translate_agrees_after bounded="pool of 7 tables (4 path + 3 allocatable); tree-shaped sparse pre-state (target path, one neighbour word per path table, garbage in allocatable frames); page-table indices (511,510,1,0)"
    //@ obligation C09 C09.update_flags_1gib.shape_sym.only_dictated_slots_change bounded="pool of 7 tables (4 path + 3 allocatable); tree-shaped sparse pre-state (target path, one neighbour word per path table, garbage in allocatable frames); page-table indices (511,510,1,0)"
    //@ obligation C09 C09.update_flags_1gib.shape_sym.no_frames_requested_or_zeroed bounded="pool of 7 tables (4 path + 3 allocatable); tree-shaped sparse pre-state (target path, one neighbour word per path table, garbage in allocatable frames); page-table indices (511,510,1,0)"
    //@ obligation C09 C09.update_flags_1gib.shape_sym.no_dangling_table_pointer bounded="pool of 7 tables (4 path + 3 allocatable); tree-shaped sparse pre-state (target path, one neighbour word per path table, garbage in allocatable frames); page-table indices (511,510,1,0)"
    //@ obligation C09 C09.update_flags_1gib.shape_sym.no_access_outside_page_tables bounded="pool of 7 tables (4 path + 3 allocatable); tree-shaped sparse pre-state (target path, one neighbour word per path table, garbage in allocatable frames); page-table indices (511,510,1,0)"
    //@ obligation C02 C02.update_flags_1gib.shape_sym.error_leaves_every_mapping bounded="pool of 7 tables (4 path + 3 allocatable); tree-shaped sparse pre-state (target path, one neighbour word per path table, garbage in allocatable frames); page-table indices (511,510,1,0)"
    #[kani::proof]
    #[kani::stub(PageTable::zero, zero_stub)]
    fn c01_update_flags_1gib_sym_hi() {
        update_flags_step!(Size1GiB, "1gib", "sym", P3_SYM, IDX_HI);
        kani::cover!(true, "c01_update_flags_1gib_sym_hi: reachable");
    }

    //@ obligation C01 C01.update_flags_1gib.shape_sym.target_keeps_frame_and_size tier=thorough bounded="pool of 7 tables (4 path + 3 allocatable); tree-shaped sparse pre-state (target path, one neighbour word per path table, garbage in allocatable frames); page-table indices (255,511,0,256)"
    //@ obligation C11 C11.update_flags_1gib.shape_sym.target_keeps_frame_and_size tier=thorough bounded="pool of 7 tables (4 path + 3 allocatable); tree-shaped sparse pre-state (target path, one neighbour word per path table, garbage in allocatable frames); page-table indices (255,511,0,256)"
    //@ obligation C01 C01.update_flags_1gib.shape_sym.target_leaf_flags_replaced tier=thorough bounded="pool of 7 tables (4 path + 3 allocatable); tree-shaped sparse pre-state (target path, one neighbour word per path table, garbage in allocatable frames); page-table indices (255,511,0,256)"
    //@ obligation C11 C11.update_flags_1gib.shape_sym.target_leaf_flags_replaced tier=thorough bounded="pool of 7 tables (4 path + 3 allocatable); tree-shaped sparse pre-state (target path, one neighbour word per path table, garbage in allocatable frames); page-table indices (255,511,0,256)"
    //@ obligation C01 C01.update_flags_1gib.shape_sym.other_addresses_unchanged tier=thorough bounded="pool of 7 tables (4 path + 3 allocatable); tree-shaped sparse pre-state (target path, one neighbour word per path table, garbage in allocatable frames); page-table indices (255,511,0,256)"
    //@ obligation C11 C11.update_flags_1gib.shape_sym.other_addresses_unchanged tier=thorough bounded="pool of 7 tables (4 path + 3 allocatable); tree-shaped sparse pre-state (target path, one neighbour word per path table, garbage in allocatable frames); page-table indices (255,511,0,256)"
    //@ obligation C01 C01.update_flags_1gib.shape_sym.result_reports_page tier=thorough bounded="pool of 7 tables (4 path + 3 allocatable); tree-shaped sparse pre-state (target path, one neighbour word per path table, garbage in allocatable frames); page-table indices (255,511,0,256)"
    //@ obligation C11 C11.update_flags_1gib.shape_sym.token_names_page tier=thorough bounded="pool of 7 tables (4 path + 3 allocatable); tree-shaped sparse pre-state (target path, one neighbour word per path table, garbage in allocatable frames); page-table indices (255,511,0,256)"
    //@ obligation C02 C02.update_flags_1gib.shape_sym.documented_outcome tier=thorough bounded="pool of 7 tables (4 path + 3 allocatable); tree-shaped sparse pre-state (target path, one neighbour word per path table, garbage in allocatable frames); page-table indices (255,511,0,256)"
    //@ obligation C01 C01.update_flags_1gib.shape_sym.translate_agrees_after tier=thorough bounded="pool of 7 tables (4 path + 3 allocatable); tree-shaped sparse pre-state (target path, one neighbour word per path table, garbage in allocatable frames); page-table indices (255,511,0,256)"
    //@ obligation C09 C09.update_flags_1gib.shape_sym.only_dictated_slots_change tier=thorough bounded="pool of 7 tables (4 path + 3 allocatable); tree-shaped sparse pre-state (target path, one neighbour word per path table, garbage in allocatable frames); page-table indices (255,511,0,256)"
    //@ obligation C09 C09.update_flags_1gib.shape_sym.no_frames_requested_or_zeroed tier=thorough bounded="pool of 7 tables (4 path + 3 allocatable); tree-shaped sparse pre-state (target path, one neighbour word per path table, garbage in allocatable frames); page-table indices (255,511,0,256)"
    //@ obligation C09 C09.update_flags_1gib.shape_sym.no_dangling_table_pointer tier=thorough bounded="pool of 7 tables (4 path + 3 allocatable); tree-shaped sparse pre-state (target path, one neighbour word per path table, garbage in allocatable frames); page-table indices (255,511,0,256)"
    //@ obligation C09 C09.update_flags_1gib.shape_sym.no_access_outside_page_tables tier=thorough bounded="pool of 7 tables (4 path + 3 allocatable); tree-shaped sparse pre-state (target path, one neighbour word per path table, garbage in allocatable frames); page-table indices (255,511,0,256)"
    //@ obligation C02 C02.update_flags_1gib.shape_sym.error_leaves_every_mapping tier=thorough bounded="pool of 7 tables (4 path + 3 allocatable); tree-shaped sparse pre-state (target path, one neighbour word per path table, garbage in allocatable frames); page-table indices (255,511,0,256)"
    #[kani::proof]
    #[kani::stub(PageTable::zero, zero_stub)]
    fn c01_update_flags_1gib_sym_mid() {
        update_flags_step!(Size1GiB, "1gib", "sym", P3_SYM, IDX_MID);
        kani::cover!(true, "c01_update_flags_1gib_sym_mid: reachable");
    }

    //@ obligation C01 C01.update_flags_1gib.shape_sym.target_keeps_frame_and_size tier=thorough bounded="pool of 7 tables (4 path + 3 allocatable); tree-shaped sparse pre-state (target path, one neighbour word per path table, garbage in allocatable frames); page-table indices (256,0,510,511)"
    //@ obligation C11 C11.update_flags_1gib.shape_sym.target_keeps_frame_and_size tier=thorough bounded="pool of 7 tables (4 path + 3 allocatable); tree-shaped sparse pre-state (target path, one neighbour word per path table, garbage in allocatable frames); page-table indices (256,0,510,511)"
    //@ obligation C01 C01.update_flags_1gib.shape_sym.target_leaf_flags_replaced tier=thorough bounded="pool of 7 tables (4 path + 3 allocatable); tree-shaped sparse pre-state (target path, one neighbour word per path table, garbage in allocatable frames); page-table indices (256,0,510,511)"
    //@ obligation C11 C11.update_flags_1gib.shape_sym.target_leaf_flags_replaced tier=thorough bounded="pool of 7 tables (4 path + 3 allocatable); tree-shaped sparse pre-state (target path, one neighbour word per path table, garbage in allocatable frames); page-table indices (256,0,510,511)"
    //@ obligation C01 C01.update_flags_1gib.shape_sym.other_addresses_unchanged tier=thorough bounded="pool of 7 tables (4 path + 3 allocatable); tree-shaped sparse pre-state (target path, one neighbour word per path table, garbage in allocatable frames); page-table indices (256,0,510,511)"
    //@ obligation C11 C11.update_flags_1gib.shape_sym.other_addresses_unchanged tier=thorough bounded="pool of 7 tables (4 path + 3 allocatable); tree-shaped sparse pre-state (target path, one neighbour word per path table, garbage in allocatable frames); page-table indices (256,0,510,511)"
    //@ obligation C01 C01.update_flags_1gib.shape_sym.result_reports_page tier=thorough bounded="pool of 7 tables (4 path + 3 allocatable); tree-shaped sparse pre-state (target path, one neighbour word per path table, garbage in allocatable frames); page-table indices (256,0,510,511)"
    //@ obligation C11 C11.update_flags_1gib.shape_sym.token_names_page tier=thorough bounded="pool of 7 tables (4 path + 3 allocatable); tree-shaped sparse pre-state (target path, one neighbour word per path table, garbage in allocatable frames); page-table indices (256,0,510,511)"
    //@ obligation C02 C02.update_flags_1gib.shape_sym.documented_outcome tier=thorough bounded="pool of 7 tables (4 path + 3 allocatable); tree-shaped sparse pre-state (target path, one neighbour word per path table, garbage in allocatable frames); page-table indices (256,0,510,511)"
    //@ obligation C01 C01.update_flags_1gib.shape_sym.translate_agrees_after tier=thorough bounded="pool of 7 tables (4 path + 3 allocatable); tree-shaped sparse pre-state (target path, one neighbour word per path table, garbage in allocatable frames); page-table indices (256,0,510,511)"
    //@ obligation C09 C09.update_flags_1gib.shape_sym.only_dictated_slots_change tier=thorough bounded="pool of 7 tables (4 path + 3 allocatable); tree-shaped sparse pre-state (target path, one neighbour word per path table, garbage in allocatable frames); page-table indices (256,0,510,511)"
    //@ obligation C09 C09.update_flags_1gib.shape_sym.no_frames_requested_or_zeroed tier=thorough bounded="pool of 7 tables (4 path + 3 allocatable); tree-shaped sparse pre-state (target path, one neighbour word per path table, garbage in allocatable frames); page-table indices (256,0,510,511)"
    //@ obligation C09 C09.update_flags_1gib.shape_sym.no_dangling_table_pointer tier=thorough bounded="pool of 7 tables (4 path + 3 allocatable); tree-shaped sparse pre-state (target path, one neighbour word per path table, garbage in allocatable frames); page-table indices (256,0,510,511)"
    //@ obligation C09 C09.update_flags_1gib.shape_sym.no_access_outside_page_tables tier=thorough bounded="pool of 7 tables (4 path + 3 allocatable); tree-shaped sparse pre-state (target path, one neighbour word per path table, garbage in allocatable frames); page-table indices (256,0,510,511)"
    //@ obligation C02 C02.update_flags_1gib.shape_sym.error_leaves_every_mapping tier=thorough bounded="pool of 7 tables (4 path + 3 allocatable); tree-shaped sparse pre-state (target path, one neighbour word per path table, garbage in allocatable frames); page-table indices (256,0,510,511)"
    #[kani::proof]
    #[kani::stub(PageTable::zero, zero_stub)]
    fn c01_update_flags_1gib_sym_up() {
        update_flags_step!(Size1GiB, "1gib", "sym", P3_SYM, IDX_UP);
        kani::cover!(true, "c01_update_flags_1gib_sym_up: reachable");
    }
}
