//@ include-into src/structures/paging/mapper/mapped_page_table.rs
//
// Shared machinery of the C01 / C02 / C09 STEP harnesses (PART B of lib/C01_NOTES.md); the
// harnesses themselves are in c01_step_*.rs, which `use super::verif_c01_pool::*`.
//
//   Pool      7 SEPARATE PageTable objects + an injective map from 7 pairwise distinct symbolic
//             4 KiB-aligned frame addresses to them. Every other frame maps to the null pointer,
//             so any access to a frame that is not a page table of the hierarchy (a data frame,
//             a huge-page frame, arbitrary physical memory) is a Kani pointer-check failure.
//             Roles: 0 = level-4 table, 1..3 = the P3 / P2 / P1 tables of the target path,
//             4..6 = the frames the allocator hands out (pre-filled with garbage).
//   hw_walk   the oracle: a hardware-style 4-level walk over the RAW words (SDM vol. 3A 4.5,
//             figure 4-8 .. 4-11), which finds tables by looking the frame address up in the pool.
//   Pre-state one path for the target page, described by a SHAPE (how many table-pointing entries
//             lead down from P4, and what the entry after them is: absent / huge leaf / P1 leaf),
//             every word on it symbolic within its shape; all other slots zero, except one
//             neighbour word next to the path slot in each of the path tables 1..3 and garbage
//             words in the frames the allocator may hand out.
//             (Measured: a table write at a SYMBOLIC slot index costs 100-200 s of solver time
//             per harness, a read 5-10 s; so pre-state words sit at concrete slots and only the
//             probe address and the frame-check slot are symbolic.)
//   Dict      the post-state the call DICTATES, as a short list of (table, slot, value) plus the
//             set of tables that must have been zeroed; compared with the real post-state through
//             one symbolic (table, slot) pair, i.e. for all 7 x 512 words.
//   Ghost     order stamps of allocator requests and PageTable::zero calls.
//
// PageTable::zero is replaced in every step harness by `zero_stub` (= its contract, proved on the
// real loop by c09_page_table_zero_contract in c01_walker.rs, and by the C08 obligations).
// Nothing here has a `//@ obligation`: this file contains no harness.

#[cfg(kani)]
#[allow(dead_code)]
pub(in crate::structures::paging::mapper) mod verif_c01_pool {
    use super::*;

    // ---- architecture constants, written from the SDM, not taken from the crate
    pub(in crate::structures::paging::mapper) const P: u64 = 1; // present
    pub(in crate::structures::paging::mapper) const RW: u64 = 1 << 1; // writable
    pub(in crate::structures::paging::mapper) const US: u64 = 1 << 2; // user
    pub(in crate::structures::paging::mapper) const PS: u64 = 1 << 7; // page size (huge) at PDPTE / PDE; PAT at PTE
    pub(in crate::structures::paging::mapper) const PAT_HUGE: u64 = 1 << 12; // PAT at PDPTE / PDE that map a page
    pub(in crate::structures::paging::mapper) const ADDR: u64 = 0x000f_ffff_ffff_f000; // bits 12..51
    pub(in crate::structures::paging::mapper) const ADDR_2M: u64 = 0x000f_ffff_ffe0_0000; // bits 21..51
    pub(in crate::structures::paging::mapper) const ADDR_1G: u64 = 0x000f_ffff_c000_0000; // bits 30..51
    pub(in crate::structures::paging::mapper) const SZ_4K: u64 = 1 << 12;
    pub(in crate::structures::paging::mapper) const SZ_2M: u64 = 1 << 21;
    pub(in crate::structures::paging::mapper) const SZ_1G: u64 = 1 << 30;
    /// bits of a leaf word that are flags: everything outside the frame address of that size
    pub(in crate::structures::paging::mapper) const fn leaf_flag_mask(size: u64) -> u64 {
        if size == SZ_4K {
            !ADDR
        } else if size == SZ_2M {
            !ADDR_2M
        } else {
            !ADDR_1G
        }
    }
    /// the flag domain of the properties (C08): bits 0..11 and 52..63. Bit 12 (PAT of a huge-page
    /// entry, an address bit everywhere else) is outside it: flags given to the mapper and huge
    /// leaf words of the pre-state never have it (see the observation in lib/C01_NOTES.md).
    pub(in crate::structures::paging::mapper) const FLAG_DOMAIN: u64 = 0xfff0_0000_0000_0fff;

    pub(in crate::structures::paging::mapper) const NT: usize = 7;
    pub(in crate::structures::paging::mapper) const NONE: usize = 7;

    pub(in crate::structures::paging::mapper) fn entry_from(w: u64) -> PageTableEntry {
        unsafe { core::mem::transmute::<u64, PageTableEntry>(w) }
    }
    pub(in crate::structures::paging::mapper) fn raw(e: &PageTableEntry) -> u64 {
        unsafe { *(e as *const PageTableEntry as *const u64) }
    }

    // ------------------------------------------------------------------ pool

    #[derive(Clone, Copy, Debug)]
    pub(in crate::structures::paging::mapper) struct Pool {
        pub f: [u64; NT],
        pub p: [*mut PageTable; NT],
    }

    unsafe impl PageTableFrameMapping for Pool {
        fn frame_to_pointer(&self, frame: PhysFrame) -> *mut PageTable {
            let a = frame.start_address().as_u64();
            let k = self.lookup(a);
            if k == NONE {
                // the mapper asks for a frame that is not a page table of the hierarchy: recorded
                // (named obligation `no_access_outside_page_tables`), and answered with the null
                // pointer so that a dereference is also a Kani pointer-check failure
                ghost().outside += 1;
                core::ptr::null_mut()
            } else {
                self.p[k]
            }
        }
    }

    impl Pool {
        /// index of the pool table whose frame address is `a`, NONE if `a` is not a page-table frame
        pub fn lookup(&self, a: u64) -> usize {
            if a == self.f[0] {
                0
            } else if a == self.f[1] {
                1
            } else if a == self.f[2] {
                2
            } else if a == self.f[3] {
                3
            } else if a == self.f[4] {
                4
            } else if a == self.f[5] {
                5
            } else if a == self.f[6] {
                6
            } else {
                NONE
            }
        }
        /// raw word `i` of table `k` (typed slot access, raw word read; see c01_walker.rs)
        pub fn rd(&self, k: usize, i: usize) -> u64 {
            assert!(k < NT && i < 512);
            raw(unsafe { &(&*self.p[k])[i] })
        }
        pub fn wr(&self, k: usize, i: usize, w: u64) {
            assert!(k < NT && i < 512);
            unsafe { (&mut *self.p[k])[i] = entry_from(w) }
        }
    }

    /// 7 pairwise distinct, 4 KiB-aligned, 52-bit frame addresses.
    pub(in crate::structures::paging::mapper) fn any_pool_frames() -> [u64; NT] {
        let f: [u64; NT] = kani::any();
        let mut i = 0;
        while i < NT {
            kani::assume(f[i] & !ADDR == 0);
            let mut j = 0;
            while j < i {
                kani::assume(f[i] != f[j]);
                j += 1;
            }
            i += 1;
        }
        f
    }

    /// Declares the 7 table objects as separate locals of the calling block and binds `$pool`.
    macro_rules! mk_pool {
        ($pool:ident) => {
            let mut t0 = PageTable::new();
            let mut t1 = PageTable::new();
            let mut t2 = PageTable::new();
            let mut t3 = PageTable::new();
            let mut t4 = PageTable::new();
            let mut t5 = PageTable::new();
            let mut t6 = PageTable::new();
            let $pool = Pool {
                f: any_pool_frames(),
                p: [
                    &mut t0 as *mut PageTable,
                    &mut t1 as *mut PageTable,
                    &mut t2 as *mut PageTable,
                    &mut t3 as *mut PageTable,
                    &mut t4 as *mut PageTable,
                    &mut t5 as *mut PageTable,
                    &mut t6 as *mut PageTable,
                ],
            };
            ghost_reset(&$pool);
        };
    }
    pub(in crate::structures::paging::mapper) use mk_pool;

    /// Checks every listed clause on its own path. `kani::assert` also ASSUMES its condition
    /// afterwards, so in a plain sequence a failing earlier clause would hide a failing later one
    /// (and with it the later obligation). All clause values are computed before this is called.
    macro_rules! each {
        ($( $c:expr => $m:expr ),+ $(,)?) => {{
            let pick: u8 = kani::any();
            let mut k: u8 = 0;
            $(
                if pick == k {
                    kani::assert($c, $m);
                }
                k += 1;
            )+
            let _ = k;
        }};
    }
    pub(in crate::structures::paging::mapper) use each;

    // ------------------------------------------------------------------ indices and addresses

    #[derive(Clone, Copy)]
    pub(in crate::structures::paging::mapper) struct Idx(pub [usize; 4]); // [p4, p3, p2, p1]

    // The four enumerated index tuples. Within a tuple the indices are pairwise distinct (so using
    // the index of one level at another level is visible); across the tuples every level sees its
    // first and its last slot, and P4 sees both sides of the canonical-half boundary (255 | 256).
    pub(in crate::structures::paging::mapper) const IDX_LO: Idx = Idx([0, 1, 511, 2]); // lower half, first P4 slot
    pub(in crate::structures::paging::mapper) const IDX_HI: Idx = Idx([511, 510, 1, 0]); // upper half, last P4 slot
    pub(in crate::structures::paging::mapper) const IDX_MID: Idx = Idx([255, 511, 0, 256]); // last P4 slot of the lower half
    pub(in crate::structures::paging::mapper) const IDX_UP: Idx = Idx([256, 0, 510, 511]); // first P4 slot of the upper half

    /// One of the four enumerated tuples, chosen by the solver (quick tier).
    pub(in crate::structures::paging::mapper) fn enumerated_idx() -> Idx {
        let c: u8 = kani::any();
        kani::assume(c < 4);
        match c {
            0 => IDX_LO,
            1 => IDX_HI,
            2 => IDX_MID,
            _ => IDX_UP,
        }
    }

    /// All four indices symbolic (thorough tier).
    pub(in crate::structures::paging::mapper) fn symbolic_idx() -> Idx {
        let i: [usize; 4] = kani::any();
        kani::assume(i[0] < 512 && i[1] < 512 && i[2] < 512 && i[3] < 512);
        Idx(i)
    }

    /// canonical virtual address with these indices and this offset (bit 47 sign-extended)
    pub(in crate::structures::paging::mapper) fn va_of(ix: &Idx, offset: u64) -> u64 {
        let low = ((ix.0[0] as u64) << 39) | ((ix.0[1] as u64) << 30) | ((ix.0[2] as u64) << 21) | ((ix.0[3] as u64) << 12) | (offset & 0xfff);
        if low & (1 << 47) != 0 {
            low | 0xffff_0000_0000_0000
        } else {
            low
        }
    }
    pub(in crate::structures::paging::mapper) fn canonical(a: u64) -> bool {
        let top = a >> 47;
        top == 0 || top == 0x1_ffff
    }
    pub(in crate::structures::paging::mapper) fn any_canonical() -> u64 {
        let a: u64 = kani::any();
        kani::assume(canonical(a));
        a
    }
    pub(in crate::structures::paging::mapper) fn idx_of(v: u64) -> Idx {
        Idx([((v >> 39) & 511) as usize, ((v >> 30) & 511) as usize, ((v >> 21) & 511) as usize, ((v >> 12) & 511) as usize])
    }

    // ------------------------------------------------------------------ the oracle

    pub(in crate::structures::paging::mapper) const NOT_MAPPED: u8 = 0;
    pub(in crate::structures::paging::mapper) const MAPPED: u8 = 1;
    /// the walk reached a present non-leaf entry whose frame is not a table of the pool, or a
    /// PML4E with bit 7: never in a well-formed state
    pub(in crate::structures::paging::mapper) const MALFORMED: u8 = 2;

    #[derive(Clone, Copy, PartialEq, Eq)]
    pub(in crate::structures::paging::mapper) struct Walk {
        pub kind: u8,
        pub phys: u64,  // physical address the virtual address translates to
        pub size: u64,  // page size
        pub leaf: u64,  // flag bits of the leaf word (leaf word minus the frame address of that size)
        pub pw: bool,   // every non-leaf entry on the walk has R/W
        pub pu: bool,   // every non-leaf entry on the walk has U/S
        pub w: bool,    // effective writable = pw && leaf R/W
        pub u: bool,    // effective user = pu && leaf U/S
    }
    const NM: Walk = Walk { kind: NOT_MAPPED, phys: 0, size: 0, leaf: 0, pw: false, pu: false, w: false, u: false };
    const BAD: Walk = Walk { kind: MALFORMED, phys: 0, size: 0, leaf: 0, pw: false, pu: false, w: false, u: false };

    fn leaf_walk(word: u64, v: u64, size: u64, pw: bool, pu: bool) -> Walk {
        let fm = leaf_flag_mask(size);
        Walk {
            kind: MAPPED,
            phys: (word & !fm) | (v & (size - 1)),
            size,
            leaf: word & fm,
            pw,
            pu,
            w: pw && word & RW != 0,
            u: pu && word & US != 0,
        }
    }

    /// What an MMU with CR3 = frame of table 0 does with virtual address `v`.
    pub(in crate::structures::paging::mapper) fn hw_walk(pool: &Pool, v: u64) -> Walk {
        hw_walk_ix(pool, &idx_of(v), v)
    }
    /// the same walk with the four indices given separately (so that concrete indices stay
    /// concrete for CBMC when only the page offset of `v` is symbolic); `ix` must be `idx_of(v)`
    pub(in crate::structures::paging::mapper) fn hw_walk_ix(pool: &Pool, ix: &Idx, v: u64) -> Walk {
        let e4 = pool.rd(0, ix.0[0]);
        if e4 & P == 0 {
            return NM;
        }
        if e4 & PS != 0 {
            return BAD; // reserved bit in a PML4E
        }
        let k3 = pool.lookup(e4 & ADDR);
        if k3 == NONE {
            return BAD;
        }
        let (pw, pu) = (e4 & RW != 0, e4 & US != 0);
        let e3 = pool.rd(k3, ix.0[1]);
        if e3 & P == 0 {
            return NM;
        }
        if e3 & PS != 0 {
            return leaf_walk(e3, v, SZ_1G, pw, pu);
        }
        let k2 = pool.lookup(e3 & ADDR);
        if k2 == NONE {
            return BAD;
        }
        let (pw, pu) = (pw && e3 & RW != 0, pu && e3 & US != 0);
        let e2 = pool.rd(k2, ix.0[2]);
        if e2 & P == 0 {
            return NM;
        }
        if e2 & PS != 0 {
            return leaf_walk(e2, v, SZ_2M, pw, pu);
        }
        let k1 = pool.lookup(e2 & ADDR);
        if k1 == NONE {
            return BAD;
        }
        let (pw, pu) = (pw && e2 & RW != 0, pu && e2 & US != 0);
        let e1 = pool.rd(k1, ix.0[3]);
        if e1 & P == 0 {
            return NM;
        }
        leaf_walk(e1, v, SZ_4K, pw, pu)
    }

    /// frame, size and leaf flags agree (the "mapping" of C02)
    pub(in crate::structures::paging::mapper) fn same_mapping(a: &Walk, b: &Walk) -> bool {
        a.kind == b.kind && (a.kind != MAPPED || (a.phys == b.phys && a.size == b.size && a.leaf == b.leaf))
    }
    /// parent rights of `after` are those of `before`, except that bits of `pf` may have been added
    pub(in crate::structures::paging::mapper) fn rights_only_added(before: &Walk, after: &Walk, pf: u64) -> bool {
        if before.kind != MAPPED || after.kind != MAPPED {
            return true;
        }
        (after.pw == before.pw || (!before.pw && after.pw && pf & RW != 0)) && (after.pu == before.pu || (!before.pu && after.pu && pf & US != 0))
    }

    // ------------------------------------------------------------------ shapes and the pre-state

    pub(in crate::structures::paging::mapper) const ABSENT: u8 = 0; // the entry is 0
    pub(in crate::structures::paging::mapper) const HUGE: u8 = 1; // P | PS leaf (only at P3, P2)
    pub(in crate::structures::paging::mapper) const LEAF: u8 = 2; // present P1 entry
    pub(in crate::structures::paging::mapper) const ANY: u8 = 3; // 0 or a leaf of that level (used below a table entry whose content is irrelevant)
    /// 0, or ANY present word of the leaf class of that level: at P3 / P2 a word with P and PS whose
    /// address bits are arbitrary (also misaligned for the page size), at P1 any present word
    pub(in crate::structures::paging::mapper) const SYM: u8 = 4;

    /// `d` table-pointing entries lead down from P4 (level j -> pool table j+1); the entry at
    /// level `d` (0 = P4 .. 3 = P1) is `end`.
    #[derive(Clone, Copy)]
    pub(in crate::structures::paging::mapper) struct Shape {
        pub d: usize,
        pub end: u8,
    }
    pub(in crate::structures::paging::mapper) const P4_ABSENT: Shape = Shape { d: 0, end: ABSENT };
    pub(in crate::structures::paging::mapper) const P3_ABSENT: Shape = Shape { d: 1, end: ABSENT };
    pub(in crate::structures::paging::mapper) const P3_HUGE: Shape = Shape { d: 1, end: HUGE };
    pub(in crate::structures::paging::mapper) const P3_TABLE: Shape = Shape { d: 2, end: ANY }; // for 1 GiB operations
    pub(in crate::structures::paging::mapper) const P2_ABSENT: Shape = Shape { d: 2, end: ABSENT };
    pub(in crate::structures::paging::mapper) const P2_HUGE: Shape = Shape { d: 2, end: HUGE };
    pub(in crate::structures::paging::mapper) const P2_TABLE: Shape = Shape { d: 3, end: ANY }; // for 2 MiB operations
    pub(in crate::structures::paging::mapper) const P1_ABSENT: Shape = Shape { d: 3, end: ABSENT };
    pub(in crate::structures::paging::mapper) const P1_LEAF: Shape = Shape { d: 3, end: LEAF };
    pub(in crate::structures::paging::mapper) const P3_SYM: Shape = Shape { d: 1, end: SYM };
    pub(in crate::structures::paging::mapper) const P2_SYM: Shape = Shape { d: 2, end: SYM };
    pub(in crate::structures::paging::mapper) const P1_SYM: Shape = Shape { d: 3, end: SYM };

    /// symbolic word that points to pool table `k`: P, not PS, address = f[k], other bits free
    pub(in crate::structures::paging::mapper) fn any_table_word(pool: &Pool, k: usize) -> u64 {
        let w: u64 = kani::any();
        kani::assume(w & P != 0 && w & PS == 0 && w & ADDR == pool.f[k]);
        w
    }
    /// symbolic huge leaf at `level` (1 = P3: 1 GiB, 2 = P2: 2 MiB): P, PS, aligned frame
    /// (address bits below the page size zero), all bits of the flag domain free
    pub(in crate::structures::paging::mapper) fn any_huge_word(level: usize) -> u64 {
        let w: u64 = kani::any();
        let reserved = if level == 1 { ADDR & !ADDR_1G } else { ADDR & !ADDR_2M };
        kani::assume(w & P != 0 && w & PS != 0 && w & reserved == 0);
        w
    }
    /// symbolic present P1 entry: any frame, any flags (bit 7 is PAT there)
    pub(in crate::structures::paging::mapper) fn any_leaf_word() -> u64 {
        let w: u64 = kani::any();
        kani::assume(w & P != 0);
        w
    }
    fn any_end_word(level: usize, end: u8) -> u64 {
        match end {
            ABSENT => 0,
            HUGE => any_huge_word(level),
            LEAF => any_leaf_word(),
            SYM => {
                let w: u64 = kani::any();
                kani::assume(w == 0 || (w & P != 0 && (level == 3 || w & PS != 0)));
                w
            }
            _ => {
                if kani::any() {
                    0
                } else if level == 3 {
                    any_leaf_word()
                } else {
                    any_huge_word(level)
                }
            }
        }
    }

    /// words of the target path in the pre-state: e[j] is the entry at level j (table j, slot ix[j])
    /// for j <= d; 0 beyond
    #[derive(Clone, Copy)]
    pub(in crate::structures::paging::mapper) struct Pre {
        pub e: [u64; 4],
    }

    pub(in crate::structures::paging::mapper) fn build_path(pool: &Pool, ix: &Idx, sh: Shape) -> Pre {
        let mut e = [0u64; 4];
        let mut j = 0;
        while j < 4 {
            if j < sh.d {
                e[j] = any_table_word(pool, j + 1);
                pool.wr(j, ix.0[j], e[j]);
            } else if j == sh.d {
                e[j] = any_end_word(j, sh.end);
                pool.wr(j, ix.0[j], e[j]);
            }
            j += 1;
        }
        Pre { e }
    }

    /// One extra word in each of the path tables 1..3, in the slot after the path slot: zero, or a
    /// leaf of that level (huge at P3 / P2, present entry at P1). They give the probe address
    /// something to find and expose stray writes to a neighbour. (Table-pointing background words
    /// would make two slots share a table; the hierarchy is kept a tree.)
    pub(in crate::structures::paging::mapper) fn add_background(pool: &Pool, ix: &Idx) -> (usize, usize, u64) {
        let mut k = 1;
        while k <= 3 {
            let s = (ix.0[k] + 1) % 512;
            pool.wr(k, s, any_end_word(k, ANY));
            k += 1;
        }
        (0, 0, 0)
    }

    /// symbolic old data in each frame the allocator may hand out: in the slots the call may write
    /// and in their neighbours
    pub(in crate::structures::paging::mapper) fn add_garbage(pool: &Pool, ix: &Idx) {
        let mut k = 4;
        while k <= 6 {
            let mut l = 1;
            while l <= 3 {
                pool.wr(k, ix.0[l], kani::any());
                pool.wr(k, (ix.0[l] + 1) % 512, kani::any());
                l += 1;
            }
            k += 1;
        }
    }

    // ------------------------------------------------------------------ ghost: allocator and zero()

    pub(in crate::structures::paging::mapper) struct Ghost {
        pub ptrs: [*const PageTable; NT],
        /// the pool's frame addresses (for `mmu_resolve`)
        pub f: [u64; NT],
        pub seq: u32,
        pub alloc_seq: [u32; 3],
        pub zero_seq: [u32; NT],
        pub zero_calls: [u32; NT],
        pub zero_elsewhere: u32,
        /// number of frame_to_pointer requests for a frame outside the pool
        pub outside: u32,
    }
    pub(in crate::structures::paging::mapper) static mut GHOST: Ghost = Ghost {
        ptrs: [core::ptr::null(); NT],
        f: [0; NT],
        seq: 0,
        alloc_seq: [0; 3],
        zero_seq: [0; NT],
        zero_calls: [0; NT],
        zero_elsewhere: 0,
        outside: 0,
    };
    #[allow(static_mut_refs)]
    pub(in crate::structures::paging::mapper) fn ghost() -> &'static mut Ghost {
        unsafe { &mut *core::ptr::addr_of_mut!(GHOST) }
    }
    pub(in crate::structures::paging::mapper) fn ghost_reset(pool: &Pool) {
        let g = ghost();
        let mut k = 0;
        while k < NT {
            g.ptrs[k] = pool.p[k] as *const PageTable;
            g.f[k] = pool.f[k];
            k += 1;
        }
    }

    /// Contract of PageTable::zero (see header) + a record of which table it ran on and when.
    pub(in crate::structures::paging::mapper) fn zero_stub(t: &mut PageTable) {
        let g = ghost();
        g.seq += 1;
        let tp = t as *const PageTable;
        let mut k = 0;
        let mut found = false;
        while k < NT {
            if g.ptrs[k] == tp {
                g.zero_calls[k] += 1;
                g.zero_seq[k] = g.seq;
                found = true;
            }
            k += 1;
        }
        if !found {
            g.zero_elsewhere += 1;
        }
        *t = PageTable::new();
    }

    /// The n-th request is answered with pool frame 4+n if `ok[n]`, with None otherwise.
    pub(in crate::structures::paging::mapper) struct SchedAlloc {
        pub frames: [u64; 3],
        pub ok: [bool; 3],
        pub calls: usize,
    }
    unsafe impl FrameAllocator<Size4KiB> for SchedAlloc {
        fn allocate_frame(&mut self) -> Option<PhysFrame<Size4KiB>> {
            let n = self.calls;
            self.calls += 1;
            let g = ghost();
            g.seq += 1;
            if n < 3 {
                g.alloc_seq[n] = g.seq;
            }
            if n < 3 && self.ok[n] {
                Some(PhysFrame::from_start_address(PhysAddr::new(self.frames[n])).unwrap())
            } else {
                None
            }
        }
    }
    pub(in crate::structures::paging::mapper) fn any_sched(pool: &Pool) -> SchedAlloc {
        SchedAlloc { frames: [pool.f[4], pool.f[5], pool.f[6]], ok: kani::any(), calls: 0 }
    }

    // ------------------------------------------------------------------ the dictated post-state

    /// Slot (k[j], s[j]) must hold v[j], except that the bits in may[j] are free ("at most the
    /// requested parent flags may be added"); tables in `zeroed` must be all zero except for the
    /// listed slots; every other word of every table must be unchanged.
    #[derive(Clone, Copy)]
    pub(in crate::structures::paging::mapper) struct Dict {
        pub n: usize,
        pub k: [usize; 5],
        pub s: [usize; 5],
        pub v: [u64; 5],
        pub may: [u64; 5],
        pub zeroed: [bool; NT],
    }
    impl Dict {
        pub fn new() -> Dict {
            Dict { n: 0, k: [NONE; 5], s: [0; 5], v: [0; 5], may: [0; 5], zeroed: [false; NT] }
        }
        pub fn set(&mut self, k: usize, s: usize, v: u64, may: u64) {
            assert!(self.n < 5);
            self.k[self.n] = k;
            self.s[self.n] = s;
            self.v[self.n] = v;
            self.may[self.n] = may;
            self.n += 1;
        }
        /// does word `post` at (k, s), which held `pre` before the call, agree with what is dictated?
        pub fn agrees(&self, k: usize, s: usize, pre: u64, post: u64) -> bool {
            let mut want = if self.zeroed[k] { 0 } else { pre };
            let mut may = 0u64;
            let mut j = 0;
            while j < 5 {
                if j < self.n && self.k[j] == k && self.s[j] == s {
                    want = self.v[j];
                    may = self.may[j];
                }
                j += 1;
            }
            post & !may == want & !may && post & want == want
        }
    }

    /// a symbolic (table, slot) pair of the pool and the word it holds now
    pub(in crate::structures::paging::mapper) fn any_slot(pool: &Pool) -> (usize, usize, u64) {
        let k: usize = kani::any();
        let s: usize = kani::any();
        kani::assume(k < NT && s < 512);
        (k, s, pool.rd(k, s))
    }

    // ------------------------------------------------------------------ page sizes, arguments

    pub(in crate::structures::paging::mapper) trait Sz: PageSize {
        /// level index of the leaf entry (0 = P4 .. 3 = P1) = number of parent levels: 3 / 2 / 1
        const L: usize;
        const BYTES: u64;
        /// bit the mapper must add to the leaf entry: PS for huge pages
        const LEAF_EXTRA: u64;
        /// frame address bits of a leaf entry of this size
        const LEAF_ADDR: u64;
    }
    impl Sz for Size4KiB {
        const L: usize = 3;
        const BYTES: u64 = SZ_4K;
        const LEAF_EXTRA: u64 = 0;
        const LEAF_ADDR: u64 = ADDR;
    }
    impl Sz for Size2MiB {
        const L: usize = 2;
        const BYTES: u64 = SZ_2M;
        const LEAF_EXTRA: u64 = PS;
        const LEAF_ADDR: u64 = ADDR_2M;
    }
    impl Sz for Size1GiB {
        const L: usize = 1;
        const BYTES: u64 = SZ_1G;
        const LEAF_EXTRA: u64 = PS;
        const LEAF_ADDR: u64 = ADDR_1G;
    }

    /// leaf flags of the C01 quantifier: any bits of the flag domain, containing PRESENT
    pub(in crate::structures::paging::mapper) fn any_leaf_flags() -> PageTableFlags {
        let f = PageTableFlags::from_bits_truncate(kani::any::<u64>() & FLAG_DOMAIN);
        kani::assume(f.bits() & P != 0);
        f
    }
    /// parent flags of the C01 quantifier: containing PRESENT, not HUGE_PAGE
    pub(in crate::structures::paging::mapper) fn any_parent_flags() -> PageTableFlags {
        let f = PageTableFlags::from_bits_truncate(kani::any::<u64>() & FLAG_DOMAIN);
        kani::assume(f.bits() & P != 0 && f.bits() & PS == 0);
        f
    }
    pub(in crate::structures::paging::mapper) fn any_frame<S: Sz>() -> PhysFrame<S> {
        let a: u64 = kani::any();
        kani::assume(a & !S::LEAF_ADDR == 0);
        PhysFrame::from_start_address(PhysAddr::new(a)).unwrap()
    }
    pub(in crate::structures::paging::mapper) fn page_of<S: Sz>(ix: &Idx) -> Page<S> {
        Page::from_start_address(VirtAddr::new(va_of(ix, 0) & !(S::BYTES - 1))).unwrap()
    }
    /// an address inside the target page: the page's indices, lower indices and offset symbolic.
    /// Returns (address, its four indices) with the indices above the page size concrete.
    pub(in crate::structures::paging::mapper) fn any_inside<S: Sz>(ix: &Idx) -> (u64, Idx) {
        let mut jx = *ix;
        let mut l = S::L + 1;
        while l < 4 {
            let i: usize = kani::any();
            kani::assume(i < 512);
            jx.0[l] = i;
            l += 1;
        }
        let off: u64 = kani::any();
        (va_of(&jx, off & 0xfff), jx)
    }

    /// does the crate's TranslateResult for `v` say what the hardware walk says?
    pub(in crate::structures::paging::mapper) fn translate_agrees(r: &TranslateResult, w: &Walk, v: u64) -> bool {
        match r {
            TranslateResult::NotMapped => w.kind == NOT_MAPPED,
            TranslateResult::InvalidFrameAddress(_) => false,
            TranslateResult::Mapped { frame, offset, flags } => {
                // PageTableEntry::flags() also reports address bit 12 of a 4 KiB entry (C08 note)
                let strip = if frame.size() == SZ_4K { PAT_HUGE } else { 0 };
                w.kind == MAPPED
                    && frame.size() == w.size
                    && *offset == v & (w.size - 1)
                    && frame.start_address().as_u64() == w.phys & !(w.size - 1)
                    && flags.bits() & !strip == w.leaf
            }
        }
    }
    pub(in crate::structures::paging::mapper) fn translate_addr_agrees(r: &Option<PhysAddr>, w: &Walk) -> bool {
        match r {
            None => w.kind == NOT_MAPPED,
            Some(pa) => w.kind == MAPPED && pa.as_u64() == w.phys,
        }
    }

    // ------------------------------------------------------------------ reaching an entry

    pub(in crate::structures::paging::mapper) const REACHED: u8 = 0;
    pub(in crate::structures::paging::mapper) const NOT_MAPPED_ABOVE: u8 = 1; // an entry above level n is absent
    pub(in crate::structures::paging::mapper) const HUGE_ABOVE: u8 = 2; // an entry above level n is the leaf of a larger page

    /// Follow the table-pointing entries of the target path down to level `n`.
    pub(in crate::structures::paging::mapper) fn model_reach(sh: Shape, pre: &Pre, n: usize) -> u8 {
        let mut lvl = 0;
        while lvl < n {
            if lvl >= sh.d {
                // lvl == sh.d: the path ends here, above level n
                return if pre.e[lvl] == 0 { NOT_MAPPED_ABOVE } else { HUGE_ABOVE };
            }
            lvl += 1;
        }
        REACHED
    }

    pub(in crate::structures::paging::mapper) const E_ABSENT: u8 = 0;
    pub(in crate::structures::paging::mapper) const E_LEAF: u8 = 1; // a leaf entry of exactly this level's page size
    pub(in crate::structures::paging::mapper) const E_TABLE: u8 = 2; // points to a lower table
    pub(in crate::structures::paging::mapper) const E_MISALIGNED: u8 = 3; // P | PS with address bits below the page size set
    /// what the entry at level `n` is (valid when model_reach == REACHED, n <= sh.d)
    pub(in crate::structures::paging::mapper) fn entry_kind(sh: Shape, pre: &Pre, n: usize) -> u8 {
        if n < sh.d {
            E_TABLE
        } else if pre.e[n] == 0 {
            E_ABSENT
        } else if (n == 1 && pre.e[n] & ADDR & !ADDR_1G != 0) || (n == 2 && pre.e[n] & ADDR & !ADDR_2M != 0) {
            E_MISALIGNED
        } else {
            E_LEAF
        }
    }

    /// Frame check of a call that must not change anything.
    pub(in crate::structures::paging::mapper) fn unchanged(pre: u64, post: u64) -> bool {
        pre == post
    }

    // ------------------------------------------------------------------ software MMU (RecursivePageTable)

    /// What dereferencing virtual address `v` reaches, with CR3 = frame of pool table 0: the MMU
    /// walk is `hw_walk`; the result is a pointer into the pool table that backs the physical
    /// page, or - page fault, or a physical page that is not a page table of the hierarchy - the
    /// NULL pointer, counted in `ghost().outside`. Used as the stub of `VirtAddr::as_mut_ptr` in
    /// the RecursivePageTable harnesses (the four recursive-address-to-pointer sites of
    /// recursive_page_table.rs are the only callers there).
    pub(in crate::structures::paging::mapper) fn mmu_resolve(v: u64) -> *mut PageTable {
        let g = ghost();
        let pool = Pool {
            f: g.f,
            p: [
                g.ptrs[0] as *mut PageTable,
                g.ptrs[1] as *mut PageTable,
                g.ptrs[2] as *mut PageTable,
                g.ptrs[3] as *mut PageTable,
                g.ptrs[4] as *mut PageTable,
                g.ptrs[5] as *mut PageTable,
                g.ptrs[6] as *mut PageTable,
            ],
        };
        let w = hw_walk(&pool, v);
        let k = if w.kind == MAPPED && w.phys & 0xfff == 0 { pool.lookup(w.phys) } else { NONE };
        if k == NONE {
            g.outside += 1;
            core::ptr::null_mut()
        } else {
            pool.p[k]
        }
    }
    pub(in crate::structures::paging::mapper) fn mmu_as_mut_ptr<T>(this: VirtAddr) -> *mut T {
        mmu_resolve(this.as_u64()) as *mut T
    }

    // ------------------------------------------------------------------ model of map_to

    pub(in crate::structures::paging::mapper) const M_OK: u8 = 0;
    pub(in crate::structures::paging::mapper) const M_ERR_ALLOC: u8 = 1;
    pub(in crate::structures::paging::mapper) const M_ERR_HUGE: u8 = 2;
    pub(in crate::structures::paging::mapper) const M_ERR_ALREADY: u8 = 3;

    pub(in crate::structures::paging::mapper) struct MapModel {
        pub outcome: u8,
        pub requests: usize,
        pub created: usize,
        pub dict: Dict,
        /// slot of the huge leaf that stopped the call (M_ERR_HUGE), else NONE
        pub huge_k: usize,
        pub huge_s: usize,
    }

    /// What the documentation of `map_to_with_table_flags` dictates for this pre-state: walk the
    /// `levels` parent entries from P4; an existing table entry gets the parent flags added; an
    /// absent one is filled with a fresh zeroed frame (one allocator request each, failing the
    /// call if refused) and `pf | forced` (`forced` = PRESENT | WRITABLE for RecursivePageTable,
    /// whose documentation says so; 0 otherwise); a huge leaf on the way fails the call; then the
    /// leaf slot must be unused and receives frame | flags.
    pub(in crate::structures::paging::mapper) fn model_map_to(
        pool: &Pool,
        ix: &Idx,
        sh: Shape,
        pre: &Pre,
        levels: usize,
        leaf_word: u64,
        pf: u64,
        forced: u64,
        ok: &[bool; 3],
    ) -> MapModel {
        let mut m = MapModel { outcome: M_OK, requests: 0, created: 0, dict: Dict::new(), huge_k: NONE, huge_s: 0 };
        let mut cur = 0usize;
        let mut lvl = 0usize;
        while lvl < levels {
            if lvl < sh.d {
                // existing table entry: flags added, never replaced
                m.dict.set(cur, ix.0[lvl], pre.e[lvl] | pf, 0);
                cur = lvl + 1;
            } else if lvl == sh.d && pre.e[lvl] != 0 {
                // the leaf of a larger page
                m.outcome = M_ERR_HUGE;
                m.huge_k = cur;
                m.huge_s = ix.0[lvl];
                return m;
            } else {
                m.requests += 1;
                if !ok[m.created] {
                    m.outcome = M_ERR_ALLOC;
                    return m;
                }
                let new = 4 + m.created;
                m.dict.set(cur, ix.0[lvl], pool.f[new] | pf | forced, 0);
                m.dict.zeroed[new] = true;
                cur = new;
                m.created += 1;
            }
            lvl += 1;
        }
        let old = if levels <= sh.d { pre.e[levels] } else { 0 };
        if old != 0 {
            m.outcome = M_ERR_ALREADY;
            return m;
        }
        m.dict.set(cur, ix.0[levels], leaf_word, 0);
        m
    }

    /// On an error an existing parent entry may or may not have received the parent flags
    /// ("at most the requested parent flags may be added to existing parent-table entries").
    pub(in crate::structures::paging::mapper) fn relax_for_error(d: &mut Dict, pre: &Pre, sh: Shape, pf: u64) {
        let mut j = 0;
        while j < 5 {
            if j < d.n && j < sh.d {
                // the first sh.d dictated slots are the existing table entries, in order
                d.v[j] = pre.e[j];
                d.may[j] = pf & !pre.e[j];
            }
            j += 1;
        }
    }
}
