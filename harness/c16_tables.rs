//@ include-into src/instructions/tables.rs
//
// C16: load_tss (ltr with the selector) and lgdt / lidt / sgdt / sidt (the
// 10-byte pseudo-descriptor is passed through by pointer) against the
// abstract machine.

#[cfg(kani)]
mod verif_c16_tables {
    use super::*;
    use crate::verif_hw::{self, field, Kind};

    fn any_dtp() -> DescriptorTablePointer {
        DescriptorTablePointer {
            limit: kani::any(),
            // GDTR / IDTR bases are linear addresses: all canonical addresses
            base: VirtAddr::new_truncate(kani::any()),
        }
    }

    //@ obligation C16 C16.load_tss.ltr_with_selector
    #[kani::proof]
    fn c16_load_tss_ltr_with_selector() {
        verif_hw::reset_symbolic();
        let before = *verif_hw::m();
        let sel = SegmentSelector(kani::any());
        kani::cover!(true, "c16_load_tss_ltr_with_selector: reachable");
        unsafe { load_tss(sel) };
        let m = verif_hw::m();
        assert!(m.tr == sel.0, "C16.load_tss.ltr_with_selector: TR == selector, all 16 bits");
        assert!(
            m.only_event_is(Kind::Ltr, sel.0 as u64, 0, 0),
            "C16.load_tss.ltr_with_selector: exactly one ltr with the selector"
        );
        assert!(
            m.regs_same_except(&before, field::TR),
            "C16.load_tss.ltr_with_selector: no other register changes"
        );
    }

    //@ obligation C16 C16.lgdt.loads_pointer_operand
    #[kani::proof]
    fn c16_lgdt_loads_pointer_operand() {
        verif_hw::reset_symbolic();
        let before = *verif_hw::m();
        let p = any_dtp();
        let (limit, base) = (p.limit, p.base.as_u64());
        kani::cover!(true, "c16_lgdt_loads_pointer_operand: reachable");
        unsafe { lgdt(&p) };
        {
            let m = verif_hw::m();
            assert!(
                m.gdtr_base == base && m.gdtr_limit == limit,
                "C16.lgdt.loads_pointer_operand: GDTR == (base, limit) of the descriptor"
            );
            assert!(
                m.only_event_is(Kind::Lgdt, base, limit as u64, &p as *const _ as usize as u64),
                "C16.lgdt.loads_pointer_operand: exactly one lgdt whose memory operand is the argument itself"
            );
            assert!(
                m.regs_same_except(&before, field::GDTR),
                "C16.lgdt.loads_pointer_operand: no other register changes (IDTR stays)"
            );
        }
        let back = sgdt();
        assert!(
            back.limit == limit && back.base.as_u64() == base,
            "C16.lgdt.loads_pointer_operand: sgdt returns what was loaded"
        );
    }

    //@ obligation C16 C16.lidt.loads_pointer_operand
    #[kani::proof]
    fn c16_lidt_loads_pointer_operand() {
        verif_hw::reset_symbolic();
        let before = *verif_hw::m();
        let p = any_dtp();
        let (limit, base) = (p.limit, p.base.as_u64());
        kani::cover!(true, "c16_lidt_loads_pointer_operand: reachable");
        unsafe { lidt(&p) };
        {
            let m = verif_hw::m();
            assert!(
                m.idtr_base == base && m.idtr_limit == limit,
                "C16.lidt.loads_pointer_operand: IDTR == (base, limit) of the descriptor"
            );
            assert!(
                m.only_event_is(Kind::Lidt, base, limit as u64, &p as *const _ as usize as u64),
                "C16.lidt.loads_pointer_operand: exactly one lidt whose memory operand is the argument itself"
            );
            assert!(
                m.regs_same_except(&before, field::IDTR),
                "C16.lidt.loads_pointer_operand: no other register changes (GDTR stays)"
            );
        }
        let back = sidt();
        assert!(
            back.limit == limit && back.base.as_u64() == base,
            "C16.lidt.loads_pointer_operand: sidt returns what was loaded"
        );
    }

    //@ obligation C16 C16.sgdt.stores_gdtr
    #[kani::proof]
    fn c16_sgdt_stores_gdtr() {
        verif_hw::reset_symbolic();
        let before = *verif_hw::m();
        kani::cover!(true, "c16_sgdt_stores_gdtr: reachable");
        let p = sgdt();
        let m = verif_hw::m();
        let (limit, base) = (p.limit, p.base.as_u64());
        assert!(
            limit == before.gdtr_limit && base == before.gdtr_base,
            "C16.sgdt.stores_gdtr: returns (GDTR.limit, GDTR.base), all 16 + 64 bits"
        );
        assert!(
            m.log_len == 1
                && !m.log_overflow
                && !m.unknown_asm_hit
                && m.event(0).kind == Kind::Sgdt
                && m.event(0).a == before.gdtr_base
                && m.event(0).b == before.gdtr_limit as u64,
            "C16.sgdt.stores_gdtr: exactly one sgdt"
        );
        assert!(
            m.regs_same_except(&before, field::NONE),
            "C16.sgdt.stores_gdtr: no register changes"
        );
    }

    //@ obligation C16 C16.sidt.stores_idtr
    #[kani::proof]
    fn c16_sidt_stores_idtr() {
        verif_hw::reset_symbolic();
        let before = *verif_hw::m();
        kani::cover!(true, "c16_sidt_stores_idtr: reachable");
        let p = sidt();
        let m = verif_hw::m();
        let (limit, base) = (p.limit, p.base.as_u64());
        assert!(
            limit == before.idtr_limit && base == before.idtr_base,
            "C16.sidt.stores_idtr: returns (IDTR.limit, IDTR.base), all 16 + 64 bits"
        );
        assert!(
            m.log_len == 1
                && !m.log_overflow
                && !m.unknown_asm_hit
                && m.event(0).kind == Kind::Sidt
                && m.event(0).a == before.idtr_base
                && m.event(0).b == before.idtr_limit as u64,
            "C16.sidt.stores_idtr: exactly one sidt"
        );
        assert!(
            m.regs_same_except(&before, field::NONE),
            "C16.sidt.stores_idtr: no register changes"
        );
    }
}
