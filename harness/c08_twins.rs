//@ include-into src/structures/paging/page_table.rs
//
// E1 TWINS of the C08 `PageTableEntry` / `PageTable` obligations of
// /verif/spec/pte.spec.rs and /verif/spec/recursive.spec.rs, under the SAME
// obligation names, so the driver pairs the two engines (DESIGN 2, twin rule).
// harness/c08_entries.rs and c08_table.rs prove the same facts (and more) under
// their own names; the harnesses here are thin restatements of the Verus
// contracts, clause by clause, over
//   - an arbitrary prior raw word of the entry (private field `entry`),
//   - every `PageTableFlags` value that can exist: `from_bits_retain(x)` for
//     all u64 x (the Verus contracts quantify over all `flags.bits`),
//   - every 4 KiB-aligned physical address below 2^52.
// Masks are literals (SDM vol. 3A fig. 4-11), not the crate's constants; the one
// exception is the first clause of `flags()`, which the Verus contract states
// against the crate's own `PageTableFlags::all()` (from_bits_truncate).
#[cfg(kani)]
#[allow(unused_imports, clippy::all)]
mod verif_c08_twins {
    use super::*;

    /// Checks every listed clause on its own path: Kani's `assert!` also ASSUMES its condition afterwards, so in a
    /// plain sequence a failing earlier clause would hide a failing later one (and with it the later obligation).
    macro_rules! check_each {
        ($( $c:expr => $m:literal ),+ $(,)?) => {{
            let pick: u8 = kani::any();
            let mut k: u8 = 0;
            $(
                if pick == k {
                    assert!($c, $m);
                }
                k += 1;
            )+
            let _ = k;
        }};
    }

    /// bits 12..51
    const ADDR_MASK: u64 = 0x000f_ffff_ffff_f000;
    /// bits 0..11 and 52..63: the flag domain of the property
    const DOMAIN: u64 = 0xfff0_0000_0000_0fff;
    const TWO52: u64 = 0x0010_0000_0000_0000;

    /// "the call returned although the input is invalid": see lib/C19_NOTES.md.
    #[inline(never)]
    fn returned_on_invalid_input() {
        unsafe { core::hint::unreachable_unchecked() }
    }

    fn entry_of(raw: u64) -> PageTableEntry {
        PageTableEntry { entry: raw }
    }

    fn any_flags() -> (u64, PageTableFlags) {
        let x: u64 = kani::any();
        (x, PageTableFlags::from_bits_retain(x))
    }

    /// the conditional clause shared by set_addr / set_frame / set_flags:
    /// flags inside the domain ==> address field and flag field read back exactly
    fn fields_read_back(fin: u64, addr: u64, x: u64) -> bool {
        x & DOMAIN != x || (fin & ADDR_MASK == addr && fin & DOMAIN == x)
    }

    //@ obligation C08 C08.PageTableEntry_new.all_zero
    #[kani::proof]
    fn c08_twin_entry_new() {
        kani::cover!(true, "c08_twin_entry_new: reachable");
        check_each! {
            PageTableEntry::new().entry == 0
                => "C08.PageTableEntry_new.all_zero: a new entry is the zero word",
        }
    }

    //@ obligation C08 C08.PageTableEntry_flags.returns_stored_flag_bits
    #[kani::proof]
    fn c08_twin_entry_flags() {
        let raw: u64 = kani::any();
        kani::cover!(true, "c08_twin_entry_flags: reachable");
        let f = entry_of(raw).flags().bits();
        check_each! {
            f == raw & PageTableFlags::all().bits()
                => "C08.PageTableEntry_flags.returns_stored_flag_bits: the raw word restricted to the defined flags",
            f & DOMAIN == raw & DOMAIN
                => "C08.PageTableEntry_flags.returns_stored_flag_bits: bits 0-11 and 52-63 are returned as stored",
        }
    }

    //@ obligation C08 C08.PageTableEntry_addr.returns_stored_address
    #[kani::proof]
    fn c08_twin_entry_addr() {
        let raw: u64 = kani::any();
        kani::cover!(true, "c08_twin_entry_addr: reachable");
        let a = entry_of(raw).addr().as_u64();
        check_each! {
            a == raw & ADDR_MASK && a < TWO52 && a % 4096 == 0
                => "C08.PageTableEntry_addr.returns_stored_address: bits 12-51 of the raw word, a 4 KiB-aligned address below 2^52",
        }
    }

    // mode A: requires wf_p(addr) && 4 KiB aligned
    //@ obligation C08 C08.PageTableEntry_set_addr.stores_exactly_both_or_panics
    #[kani::proof]
    fn c08_twin_entry_set_addr_exact() {
        let prior: u64 = kani::any();
        let a: u64 = kani::any();
        kani::assume(a < TWO52 && a % 4096 == 0);
        let (x, flags) = any_flags();
        kani::cover!(true, "c08_twin_entry_set_addr_exact: reachable");
        let mut e = entry_of(prior);
        e.set_addr(PhysAddr::new(a), flags);
        check_each! {
            e.entry == a | x
                => "C08.PageTableEntry_set_addr.stores_exactly_both_or_panics: the entry becomes addr | flags",
            fields_read_back(e.entry, a, x)
                => "C08.PageTableEntry_set_addr.stores_exactly_both_or_panics: address and domain flags are stored independently",
        }
    }

    // mode B: requires wf_p(addr) only; returning implies 4 KiB aligned
    //@ obligation C08 C08.PageTableEntry_set_addr.stores_exactly_both_or_panics
    #[kani::proof]
    #[kani::should_panic]
    fn c08_twin_entry_set_addr_panics() {
        let prior: u64 = kani::any();
        let a: u64 = kani::any();
        kani::assume(a < TWO52 && a % 4096 != 0);
        let (_x, flags) = any_flags();
        let addr = PhysAddr::new(a);
        let mut e = entry_of(prior);
        kani::cover!(true, "c08_twin_entry_set_addr_panics: reachable");
        e.set_addr(addr, flags);
        returned_on_invalid_input();
    }

    // requires wf_frame(frame)
    //@ obligation C08 C08.PageTableEntry_set_frame.stores_exactly_both
    #[kani::proof]
    fn c08_twin_entry_set_frame() {
        let prior: u64 = kani::any();
        let a: u64 = kani::any();
        kani::assume(a < TWO52 && a % 4096 == 0);
        let (x, flags) = any_flags();
        let frame: PhysFrame<Size4KiB> = PhysFrame::from_start_address(PhysAddr::new(a)).unwrap();
        kani::cover!(true, "c08_twin_entry_set_frame: reachable");
        let mut e = entry_of(prior);
        e.set_frame(frame, flags);
        check_each! {
            e.entry == a | x
                => "C08.PageTableEntry_set_frame.stores_exactly_both: the entry becomes frame start | flags",
            fields_read_back(e.entry, a, x)
                => "C08.PageTableEntry_set_frame.stores_exactly_both: address and domain flags are stored independently",
        }
    }

    //@ obligation C08 C08.PageTableEntry_set_flags.keeps_address_sets_flags
    #[kani::proof]
    fn c08_twin_entry_set_flags() {
        let prior: u64 = kani::any();
        let (x, flags) = any_flags();
        kani::cover!(true, "c08_twin_entry_set_flags: reachable");
        let mut e = entry_of(prior);
        e.set_flags(flags);
        check_each! {
            e.entry == (prior & ADDR_MASK) | x
                => "C08.PageTableEntry_set_flags.keeps_address_sets_flags: the entry becomes (old address bits) | flags",
            fields_read_back(e.entry, prior & ADDR_MASK, x)
                => "C08.PageTableEntry_set_flags.keeps_address_sets_flags: the address is kept and the domain flags are stored",
        }
    }

    // Index<PageTableIndex>: requires wf_idx(index); ensures *r == self.entries[index.0].
    // Stated as reference identity (the returned reference IS slot i), which implies equal contents
    // for every table; storing a symbolic word first made the harness 100x slower (5.8 s) for no gain.
    //@ obligation C08 C08.PageTable_index_by_table_index.same_slot
    #[kani::proof]
    fn c08_twin_table_index_by_table_index() {
        let t = PageTable::new();
        let i: u16 = kani::any();
        kani::assume(i < 512);
        kani::cover!(true, "c08_twin_table_index_by_table_index: reachable");
        let idx = PageTableIndex(i);
        let r: &PageTableEntry = &t[idx];
        check_each! {
            core::ptr::eq(r, &t.entries[i as usize])
                => "C08.PageTable_index_by_table_index.same_slot: table[PageTableIndex(i)] is slot i of the entry array",
        }
    }
}
