//@ include-into src/structures/paging/mapper/recursive_page_table.rs
//
// C01 / C02 / C09 / C11 step harnesses for RecursivePageTable (4 KiB operations and `translate`),
// over the same 7-table pool, oracle walker, shapes and dictated post-state as the
// MappedPageTable steps (c01_pool.rs, c01_step_*.rs; read their headers first).
//
// How the recursive addresses get a target: `#[kani::stub(VirtAddr::as_mut_ptr, mmu_trap_as_mut_ptr)]`.
// In recursive_page_table.rs `as_mut_ptr` is called at exactly four places, all of the form
// `<recursive page>.start_address().as_mut_ptr()`; the stub resolves the address with a SOFTWARE
// MMU: the hardware-style walk `hw_walk` from CR3 = pool frame 0, whose result must be a page
// table of the pool (else: the TRAP TABLE + `ghost().outside`, i.e. a page fault or an access to a
// frame that is not a page table - the C09 trap). Level-4 slot R = 300 holds the recursive entry
// `frame 0 | PRESENT | WRITABLE`. So the mapper's own accesses go through the same raw-memory
// semantics the oracle uses, and a walk that the mapper takes through a huge parent ends in a data
// frame exactly as it would on hardware.
//
// Differences of the documented behaviour from MappedPageTable: a newly created parent entry gets
// `PRESENT | WRITABLE | parent flags` ("always set ... because the design of the recursive page
// table requires it").
// Probe addresses whose level-4 index is R are excluded: that window shows the page tables
// themselves and legitimately changes when tables are created.
// `translate(probe)` after a mutating call is not repeated here (every access costs a software
// MMU walk); the translate harnesses below cover it for arbitrary states.

#[cfg(kani)]
mod verif_c01_recursive_step {
    use super::super::mapped_page_table::verif_c01_pool::*;
    use super::*;

    /// the recursive level-4 index used by all harnesses (not part of any index tuple, not a
    /// neighbour slot)
    const R: usize = 300;

    fn install_recursive_entry(pool: &Pool) {
        pool.wr(0, R, pool.f[0] | P | RW);
    }
    fn any_probe() -> u64 {
        let v = any_canonical();
        kani::assume(idx_of(v).0[0] != R);
        v
    }

    // ---- the trap table (same device as in c01_recursive_step_huge.rs, see the comment there):
    // an address that does not resolve to a page table is answered with an eighth table object
    // standing for "the data frame / whatever the address reached" (symbolic words at the slots of
    // the index tuple, zero elsewhere) instead of NULL. With NULL Kani cuts the path at its unnamed
    // check "null reference produced", and the NAMED clauses are reached only on the paths where
    // the huge leaf's data frame happens to alias a page table of the pool.
    static mut TRAP_TABLE: *mut PageTable = core::ptr::null_mut();

    fn install_trap(t: *mut PageTable, ix: &Idx) {
        let mut l = 0;
        while l < 4 {
            unsafe { (&mut *t)[ix.0[l]] = entry_from(kani::any()) };
            l += 1;
        }
        unsafe { TRAP_TABLE = t };
    }
    macro_rules! mk_trap {
        ($ix:expr) => {
            let mut trap_table = PageTable::new();
            install_trap(&mut trap_table as *mut PageTable, $ix);
        };
    }
    /// stub of `VirtAddr::as_mut_ptr` in every harness of this file
    fn mmu_trap_as_mut_ptr<T>(this: VirtAddr) -> *mut T {
        let p = mmu_resolve(this.as_u64());
        if p.is_null() {
            (unsafe { TRAP_TABLE }) as *mut T
        } else {
            p as *mut T
        }
    }

    const E_NOT_MAPPED: u8 = 1;
    const E_PARENT_HUGE: u8 = 2;
    fn model_outcome(sh: Shape, pre: &Pre, l: usize) -> u8 {
        match model_reach(sh, pre, l) {
            NOT_MAPPED_ABOVE => E_NOT_MAPPED,
            HUGE_ABOVE => E_PARENT_HUGE,
            _ => match entry_kind(sh, pre, l) {
                E_ABSENT => E_NOT_MAPPED,
                _ => M_OK,
            },
        }
    }

    macro_rules! ob {
        ($prop:literal, $op:literal, $shape:literal, $clause:literal) => {
            concat!($prop, ".recursive_", $op, "_4kib.shape_", $shape, ".", $clause)
        };
    }

    macro_rules! rec_map_to_step {
        ($shape:literal, $SH:expr, $ix:expr) => {{
            let ix: Idx = $ix;
            let sh: Shape = $SH;
            mk_pool!(pool);
            install_recursive_entry(&pool);
            mk_trap!(&ix);
            let pre = build_path(&pool, &ix, sh);
            add_background(&pool, &ix);
            add_garbage(&pool, &ix);
            let page: Page<Size4KiB> = page_of::<Size4KiB>(&ix);
            let frame: PhysFrame<Size4KiB> = any_frame::<Size4KiB>();
            let flags = any_leaf_flags();
            let pf = any_parent_flags();
            let mut alloc = any_sched(&pool);
            let sched = alloc.ok;
            let (inside, jx) = any_inside::<Size4KiB>(&ix);
            let probe = any_probe();
            let probe_in_page = probe & !0xfff == page.start_address().as_u64();
            let w_in_pre = hw_walk_ix(&pool, &jx, inside);
            let w_pr_pre = hw_walk(&pool, probe);
            kani::assume(w_in_pre.kind != MALFORMED && w_pr_pre.kind != MALFORMED);
            let (fk, fs, f_pre) = any_slot(&pool);

            let mut mapper = unsafe { RecursivePageTable::new_unchecked(&mut *pool.p[0], PageTableIndex::new(R as u16)) };
            let res = unsafe { Mapper::<Size4KiB>::map_to_with_table_flags(&mut mapper, page, frame, flags, pf, &mut alloc) };

            let leaf_word = frame.start_address().as_u64() | flags.bits();
            let mut m = model_map_to(&pool, &ix, sh, &pre, 3, leaf_word, pf.bits(), P | RW, &sched);
            let w_in = hw_walk_ix(&pool, &jx, inside);
            let w_pr = hw_walk(&pool, probe);
            let f_post = pool.rd(fk, fs);

            let ok = res.is_ok();
            let outcome_ok = match &res {
                Ok(_) => m.outcome == M_OK,
                Err(MapToError::FrameAllocationFailed) => m.outcome == M_ERR_ALLOC,
                Err(MapToError::ParentEntryHugePage) => m.outcome == M_ERR_HUGE,
                Err(MapToError::PageAlreadyMapped(_)) => m.outcome == M_ERR_ALREADY,
            };
            let token_ok = match &res {
                Ok(token) => token.page() == page,
                _ => true,
            };
            let payload_ok = match &res {
                Err(MapToError::PageAlreadyMapped(f)) => *f == frame,
                _ => true,
            };
            let c_target = !ok || (w_in.kind == MAPPED && w_in.size == SZ_4K && w_in.phys == frame.start_address().as_u64() + (inside & 0xfff));
            let c_leaf = !ok || w_in.leaf == flags.bits();
            let c_rights = !ok || ((pf.bits() & RW == 0 || w_in.pw) && (pf.bits() & US == 0 || w_in.pu));
            let c_other = !ok || probe_in_page || (same_mapping(&w_pr_pre, &w_pr) && rights_only_added(&w_pr_pre, &w_pr, pf.bits()));
            let c_err_same = ok || (same_mapping(&w_in_pre, &w_in) && same_mapping(&w_pr_pre, &w_pr));
            let c_err_rights = ok || (rights_only_added(&w_in_pre, &w_in, pf.bits()) && rights_only_added(&w_pr_pre, &w_pr, pf.bits()));
            if !ok {
                relax_for_error(&mut m.dict, &pre, sh, pf.bits());
            }
            let c_huge = ok || m.huge_k == NONE || pool.rd(m.huge_k, m.huge_s) == pre.e[sh.d];
            let c_wf = w_in.kind != MALFORMED && w_pr.kind != MALFORMED;
            let on_huge_slot = m.huge_k != NONE && fk == m.huge_k && fs == m.huge_s;
            let c_frame = on_huge_slot || m.dict.agrees(fk, fs, f_pre, f_post);
            let missing = if sh.d < 3 { 3 - sh.d } else { 0 };
            let c_alloc = alloc.calls == m.requests && alloc.calls <= missing;
            let g = ghost();
            let z_ok = |n: usize| -> bool {
                if n < m.created {
                    g.zero_calls[4 + n] == 1 && g.alloc_seq[n] < g.zero_seq[4 + n] && (n + 1 >= alloc.calls || g.zero_seq[4 + n] < g.alloc_seq[n + 1])
                } else {
                    g.zero_calls[4 + n] == 0
                }
            };
            let c_zero = z_ok(0) && z_ok(1) && z_ok(2) && g.zero_calls[0] == 0 && g.zero_calls[1] == 0 && g.zero_calls[2] == 0 && g.zero_calls[3] == 0 && g.zero_elsewhere == 0;
            let c_outside = g.outside == 0;
            each! {
                outcome_ok => ob!("C02", "map_to", $shape, "documented_outcome: Ok / FrameAllocationFailed / ParentEntryHugePage / PageAlreadyMapped exactly in the state the documentation names"),
                token_ok => ob!("C11", "map_to", $shape, "token_names_page"),
                token_ok => ob!("C01", "map_to", $shape, "result_reports_page: a successful map reports the page it acted on"),
                payload_ok => ob!("C01", "map_to", $shape, "result_reports_frame: PageAlreadyMapped carries the frame argument"),
                c_target => ob!("C01", "map_to", $shape, "target_translates_to_frame: every address of the page walks to frame + offset at 4 KiB"),
                c_leaf => ob!("C01", "map_to", $shape, "target_leaf_flags: leaf flags == flags"),
                c_rights => ob!("C01", "map_to", $shape, "parent_rights_include_requested: writable/user requested for the parents hold along the walk"),
                c_other => ob!("C01", "map_to", $shape, "other_addresses_unchanged: an address outside the page keeps frame, size, leaf flags; parent rights only gain requested bits"),
                c_err_same => ob!("C02", "map_to", $shape, "error_leaves_every_mapping: frame, size and leaf flags of the target and of an arbitrary address as before"),
                c_err_rights => ob!("C02", "map_to", $shape, "error_adds_at_most_parent_flags: rights along every walk changed at most by the requested parent flags"),
                c_huge => ob!("C02", "map_to", $shape, "huge_leaf_unchanged_on_error: the leaf entry of the enclosing huge page is bit-identical after ParentEntryHugePage"),
                c_wf => ob!("C09", "map_to", $shape, "no_dangling_table_pointer: every present non-leaf entry still points to a page table"),
                c_frame => ob!("C09", "map_to", $shape, "only_dictated_slots_change: every word of every table is unchanged, zeroed (fresh table) or holds the dictated value (new parent entries: frame | PRESENT | WRITABLE | parent flags)"),
                c_alloc => ob!("C09", "map_to", $shape, "allocator_requests: one request per missing table, none when the tables exist, never more than 3"),
                c_zero => ob!("C09", "map_to", $shape, "new_tables_zeroed_before_use: zero() runs exactly once on each frame obtained, after the request and before the next one, and on nothing else"),
                c_outside => ob!("C09", "map_to", $shape, "no_access_outside_page_tables: every recursive address the mapper dereferenced resolved to a page table of the hierarchy"),
            }
            kani::cover(m.outcome == M_OK, concat!("recursive map_to ", $shape, ": Ok"));
            kani::cover(m.outcome == M_ERR_ALLOC, concat!("recursive map_to ", $shape, ": FrameAllocationFailed"));
            kani::cover(m.outcome == M_ERR_HUGE, concat!("recursive map_to ", $shape, ": ParentEntryHugePage"));
            kani::cover(m.outcome == M_ERR_ALREADY, concat!("recursive map_to ", $shape, ": PageAlreadyMapped"));
        }};
    }

    /// unmap (`$op` = "unmap"), update_flags ("update_flags") and translate_page ("translate_page")
    /// share the shape analysis; `$kind` selects the call: 0 unmap, 1 update_flags, 2 translate_page.
    macro_rules! rec_leaf_op_step {
        ($op:literal, $kind:expr, $shape:literal, $SH:expr, $ix:expr) => {{
            let ix: Idx = $ix;
            let sh: Shape = $SH;
            mk_pool!(pool);
            install_recursive_entry(&pool);
            mk_trap!(&ix);
            let pre = build_path(&pool, &ix, sh);
            add_background(&pool, &ix);
            let page: Page<Size4KiB> = page_of::<Size4KiB>(&ix);
            let flags = any_leaf_flags();
            let (inside, jx) = any_inside::<Size4KiB>(&ix);
            let probe = any_probe();
            let probe_in_page = probe & !0xfff == page.start_address().as_u64();
            let w_in_pre = hw_walk_ix(&pool, &jx, inside);
            let w_pr_pre = hw_walk(&pool, probe);
            kani::assume(w_in_pre.kind != MALFORMED && w_pr_pre.kind != MALFORMED);
            let (fk, fs, f_pre) = any_slot(&pool);
            const KIND: u8 = $kind;

            let mut mapper = unsafe { RecursivePageTable::new_unchecked(&mut *pool.p[0], PageTableIndex::new(R as u16)) };
            // (is_ok, is PageNotMapped, is ParentEntryHugePage, frame reported, token page ok)
            let (ok, e_nm, e_ph, rep_frame, token_ok) = if KIND == 0 {
                match Mapper::<Size4KiB>::unmap(&mut mapper, page) {
                    Ok((f, t)) => (true, false, false, f.start_address().as_u64(), t.page() == page),
                    Err(UnmapError::PageNotMapped) => (false, true, false, 0, true),
                    Err(UnmapError::ParentEntryHugePage) => (false, false, true, 0, true),
                    Err(UnmapError::InvalidFrameAddress(_)) => (false, false, false, 0, true),
                }
            } else if KIND == 1 {
                match unsafe { Mapper::<Size4KiB>::update_flags(&mut mapper, page, flags) } {
                    Ok(t) => (true, false, false, 0, t.page() == page),
                    Err(FlagUpdateError::PageNotMapped) => (false, true, false, 0, true),
                    Err(FlagUpdateError::ParentEntryHugePage) => (false, false, true, 0, true),
                }
            } else {
                match Mapper::<Size4KiB>::translate_page(&mapper, page) {
                    Ok(f) => (true, false, false, f.start_address().as_u64(), true),
                    Err(TranslateError::PageNotMapped) => (false, true, false, 0, true),
                    Err(TranslateError::ParentEntryHugePage) => (false, false, true, 0, true),
                    Err(TranslateError::InvalidFrameAddress(_)) => (false, false, false, 0, true),
                }
            };

            let outcome = model_outcome(sh, &pre, 3);
            let mut dict = Dict::new();
            if outcome == M_OK && KIND == 0 {
                dict.set(3, ix.0[3], 0, 0);
            }
            if outcome == M_OK && KIND == 1 {
                dict.set(3, ix.0[3], (pre.e[3] & ADDR) | flags.bits(), 0);
            }
            let w_in = hw_walk_ix(&pool, &jx, inside);
            let w_pr = hw_walk(&pool, probe);
            let f_post = pool.rd(fk, fs);

            // the page lies inside a larger huge page and the call did not say so: it walked on
            // through the huge leaf into the data frame. Attributed to ONE clause; the other
            // clauses are evaluated for the required outcome only.
            let bogus = outcome == E_PARENT_HUGE && !e_ph;
            let c_hp = !bogus;
            let outcome_ok = bogus || (ok && outcome == M_OK) || (e_nm && outcome == E_NOT_MAPPED) || (e_ph && outcome == E_PARENT_HUGE);
            let frame_ok = bogus || !ok || KIND == 1 || rep_frame == pre.e[3] & ADDR;
            let c_post = bogus
                || !ok
                || if KIND == 0 {
                    w_in.kind == NOT_MAPPED
                } else if KIND == 1 {
                    w_in.kind == MAPPED && w_in.size == SZ_4K && w_in.phys == w_in_pre.phys && w_in.leaf == flags.bits()
                } else {
                    same_mapping(&w_in_pre, &w_in) && w_in.kind == MAPPED && w_in.size == SZ_4K && w_in.phys & !0xfff == rep_frame
                };
            let c_other = bogus || !ok || probe_in_page || (same_mapping(&w_pr_pre, &w_pr) && rights_only_added(&w_pr_pre, &w_pr, 0));
            let c_err_same = bogus || ok || (same_mapping(&w_in_pre, &w_in) && same_mapping(&w_pr_pre, &w_pr) && rights_only_added(&w_in_pre, &w_in, 0) && rights_only_added(&w_pr_pre, &w_pr, 0));
            let c_wf = bogus || (w_in.kind != MALFORMED && w_pr.kind != MALFORMED);
            let c_frame = bogus || dict.agrees(fk, fs, f_pre, f_post);
            let g = ghost();
            let c_noalloc = g.seq == 0 && g.zero_elsewhere == 0;
            // NOT masked by `bogus`: walking through a huge leaf into its data frame is also an
            // access outside the page tables (C09), whatever C02 says about the answer.
            let c_outside = g.outside == 0;
            each! {
                c_hp => ob!("C02", $op, $shape, "huge_parent_is_reported_not_walked: the page lies inside a larger huge page; the call must answer ParentEntryHugePage (as MappedPageTable does) instead of using the huge page's data frame as a page table"),
                outcome_ok => ob!("C02", $op, $shape, "documented_outcome: Ok for a mapped 4 KiB page, PageNotMapped iff an entry on the path is absent, ParentEntryHugePage iff the page lies inside a larger huge page (identically to MappedPageTable)"),
                frame_ok => ob!("C01", $op, $shape, "reports_mapped_frame: the frame held by the leaf entry"),
                token_ok => ob!("C11", $op, $shape, "token_names_page"),
                c_post => ob!("C01", $op, $shape, "target_after: unmap -> not mapped; update_flags -> same frame, leaf flags == flags; translate_page -> the frame the hardware walk finds"),
                c_other => ob!("C01", $op, $shape, "other_addresses_unchanged: an address outside the page keeps frame, size, leaf flags and rights"),
                c_err_same => ob!("C02", $op, $shape, "error_leaves_every_mapping: frame, size, leaf flags and rights of the target and of an arbitrary address as before"),
                c_wf => ob!("C09", $op, $shape, "no_dangling_table_pointer: every present non-leaf entry still points to a page table"),
                c_frame => ob!("C09", $op, $shape, "only_dictated_slots_change: only the leaf slot of a successful unmap / update_flags changes; nothing else is written"),
                c_noalloc => ob!("C09", $op, $shape, "no_frames_requested_or_zeroed: the call has no allocator and never runs zero()"),
                c_outside => ob!("C09", $op, $shape, "no_access_outside_page_tables: every recursive address the mapper dereferenced resolved to a page table of the hierarchy"),
            }
            kani::cover(outcome == M_OK, concat!("recursive ", $op, " ", $shape, ": Ok"));
            kani::cover(outcome == E_NOT_MAPPED, concat!("recursive ", $op, " ", $shape, ": PageNotMapped"));
            kani::cover(outcome == E_PARENT_HUGE, concat!("recursive ", $op, " ", $shape, ": ParentEntryHugePage"));
        }};
    }

    macro_rules! rec_translate_step {
        ($shape:literal, $SH:expr, $ix:expr) => {{
            let ix: Idx = $ix;
            let sh: Shape = $SH;
            mk_pool!(pool);
            install_recursive_entry(&pool);
            mk_trap!(&ix);
            let _pre = build_path(&pool, &ix, sh);
            add_background(&pool, &ix);
            // every address of the mapped page: the indices below a huge leaf are symbolic too
            let (inside, jx) = if sh.d == 1 && sh.end == HUGE {
                any_inside::<Size1GiB>(&ix)
            } else if sh.d == 2 && sh.end == HUGE {
                any_inside::<Size2MiB>(&ix)
            } else {
                any_inside::<Size4KiB>(&ix)
            };
            let w_in = hw_walk_ix(&pool, &jx, inside);
            kani::assume(w_in.kind != MALFORMED);
            let (fk, fs, f_pre) = any_slot(&pool);
            let mapper = unsafe { RecursivePageTable::new_unchecked(&mut *pool.p[0], PageTableIndex::new(R as u16)) };
            let t_in = mapper.translate(VirtAddr::new(inside));
            let a_in = mapper.translate_addr(VirtAddr::new(inside));
            let c_in = translate_agrees(&t_in, &w_in, inside);
            let c_addr = translate_addr_agrees(&a_in, &w_in);
            let f_post = pool.rd(fk, fs);
            let c_frame = f_pre == f_post;
            let c_noalloc = ghost().seq == 0 && ghost().zero_elsewhere == 0;
            let c_outside = ghost().outside == 0;
            each! {
                c_in => concat!("C01.recursive_translate.shape_", $shape, ".agrees_with_walk: frame, size, offset and leaf flags of every address of the target page"),
                c_addr => concat!("C01.recursive_translate_addr.shape_", $shape, ".agrees_with_walk: Some(physical address of the walk) or None"),
                c_frame => concat!("C09.recursive_translate.shape_", $shape, ".writes_nothing: every word of every table unchanged"),
                c_noalloc => concat!("C09.recursive_translate.shape_", $shape, ".no_frames_requested_or_zeroed"),
                c_outside => concat!("C09.recursive_translate.shape_", $shape, ".no_access_outside_page_tables: every recursive address dereferenced resolved to a page table"),
            }
            kani::cover(w_in.kind == MAPPED, concat!("recursive translate ", $shape, ": target mapped"));
        }};
    }

    //@ obligation C02 C02.recursive_map_to_4kib.shape_p4_absent.documented_outcome bounded="pool of 7 tables (4 path + 3 allocatable); tree-shaped sparse pre-state (target path, one neighbour word per path table, garbage in allocatable frames); recursive index 300; page-table indices (255,511,0,256)"
    //@ obligation C01 C01.recursive_map_to_4kib.shape_p4_absent.target_translates_to_frame bounded="pool of 7 tables (4 path + 3 allocatable); tree-shaped sparse pre-state (target path, one neighbour word per path table, garbage in allocatable frames); recursive index 300; page-table indices (255,511,0,256)"
    //@ obligation C11 C11.recursive_map_to_4kib.shape_p4_absent.target_translates_to_frame bounded="pool of 7 tables (4 path + 3 allocatable); tree-shaped sparse pre-state (target path, one neighbour word per path table, garbage in allocatable frames); recursive index 300; page-table indices (255,511,0,256)"
    //@ obligation C01 C01.recursive_map_to_4kib.shape_p4_absent.target_leaf_flags bounded="pool of 7 tables (4 path + 3 allocatable); tree-shaped sparse pre-state (target path, one neighbour word per path table, garbage in allocatable frames); recursive index 300; page-table indices (255,511,0,256)"
    //@ obligation C11 C11.recursive_map_to_4kib.shape_p4_absent.target_leaf_flags bounded="pool of 7 tables (4 path + 3 allocatable); tree-shaped sparse pre-state (target path, one neighbour word per path table, garbage in allocatable frames); recursive index 300; page-table indices (255,511,0,256)"
    //@ obligation C01 C01.recursive_map_to_4kib.shape_p4_absent.parent_rights_include_requested bounded="pool of 7 tables (4 path + 3 allocatable); tree-shaped sparse pre-state (target path, one neighbour word per path table, garbage in allocatable frames); recursive index 300; page-table indices (255,511,0,256)"
    //@ obligation C01 C01.recursive_map_to_4kib.shape_p4_absent.other_addresses_unchanged bounded="pool of 7 tables (4 path + 3 allocatable); tree-shaped sparse pre-state (target path, one neighbour word per path table, garbage in allocatable frames); recursive index 300; page-table indices (255,511,0,256)"
    //@ obligation C11 C11.recursive_map_to_4kib.shape_p4_absent.other_addresses_unchanged bounded="pool of 7 tables (4 path + 3 allocatable); tree-shaped sparse pre-state (target path, one neighbour word per path table, garbage in allocatable frames); recursive index 300; page-table indices (255,511,0,256)"
    //@ obligation C01 C01.recursive_map_to_4kib.shape_p4_absent.result_reports_page bounded="pool of 7 tables (4 path + 3 allocatable); tree-shaped sparse pre-state (target path, one neighbour word per path table, garbage in allocatable frames); recursive index 300; page-table indices (255,511,0,256)"
    //@ obligation C01 C01.recursive_map_to_4kib.shape_p4_absent.result_reports_frame bounded="pool of 7 tables (4 path + 3 allocatable); tree-shaped sparse pre-state (target path, one neighbour word per path table, garbage in allocatable frames); recursive index 300; page-table indices (255,511,0,256)"
    //@ obligation C11 C11.recursive_map_to_4kib.shape_p4_absent.token_names_page bounded="pool of 7 tables (4 path + 3 allocatable); tree-shaped sparse pre-state (target path, one neighbour word per path table, garbage in allocatable frames); recursive index 300; page-table indices (255,511,0,256)"
    //@ obligation C02 C02.recursive_map_to_4kib.shape_p4_absent.error_leaves_every_mapping bounded="pool of 7 tables (4 path + 3 allocatable); tree-shaped sparse pre-state (target path, one neighbour word per path table, garbage in allocatable frames); recursive index 300; page-table indices (255,511,0,256)"
    //@ obligation C02 C02.recursive_map_to_4kib.shape_p4_absent.error_adds_at_most_parent_flags bounded="pool of 7 tables (4 path + 3 allocatable); tree-shaped sparse pre-state (target path, one neighbour word per path table, garbage in allocatable frames); recursive index 300; page-table indices (255,511,0,256)"
    //@ obligation C02 C02.recursive_map_to_4kib.shape_p4_absent.huge_leaf_unchanged_on_error bounded="pool of 7 tables (4 path + 3 allocatable); tree-shaped sparse pre-state (target path, one neighbour word per path table, garbage in allocatable frames); recursive index 300; page-table indices (255,511,0,256)"
    //@ obligation C09 C09.recursive_map_to_4kib.shape_p4_absent.only_dictated_slots_change bounded="pool of 7 tables (4 path + 3 allocatable); tree-shaped sparse pre-state (target path, one neighbour word per path table, garbage in allocatable frames); recursive index 300; page-table indices (255,511,0,256)"
    //@ obligation C09 C09.recursive_map_to_4kib.shape_p4_absent.allocator_requests bounded="pool of 7 tables (4 path + 3 allocatable); tree-shaped sparse pre-state (target path, one neighbour word per path table, garbage in allocatable frames); recursive index 300; page-table indices (255,511,0,256)"
    //@ obligation C09 C09.recursive_map_to_4kib.shape_p4_absent.new_tables_zeroed_before_use bounded="pool of 7 tables (4 path + 3 allocatable); tree-shaped sparse pre-state (target path, one neighbour word per path table, garbage in allocatable frames); recursive index 300; page-table indices (255,511,0,256)"
    //@ obligation C09 C09.recursive_map_to_4kib.shape_p4_absent.no_dangling_table_pointer bounded="pool of 7 tables (4 path + 3 allocatable); tree-shaped sparse pre-state (target path, one neighbour word per path table, garbage in allocatable frames); recursive index 300; page-table indices (255,511,0,256)"
    //@ obligation C09 C09.recursive_map_to_4kib.shape_p4_absent.no_access_outside_page_tables bounded="pool of 7 tables (4 path + 3 allocatable); tree-shaped sparse pre-state (target path, one neighbour word per path table, garbage in allocatable frames); recursive index 300; page-table indices (255,511,0,256)"
    #[kani::proof]
    #[kani::stub(crate::structures::paging::page_table::PageTable::zero, zero_stub)]
    #[kani::stub(crate::addr::VirtAddr::as_mut_ptr, mmu_trap_as_mut_ptr)]
    fn c01_recursive_map_to_p4_absent_mid() {
        rec_map_to_step!("p4_absent", P4_ABSENT, IDX_MID);
        kani::cover!(true, "c01_recursive_map_to_p4_absent_mid: reachable");
    }

    //@ obligation C02 C02.recursive_map_to_4kib.shape_p4_absent.documented_outcome tier=thorough bounded="pool of 7 tables (4 path + 3 allocatable); tree-shaped sparse pre-state (target path, one neighbour word per path table, garbage in allocatable frames); recursive index 300; page-table indices (256,0,510,511)"
    //@ obligation C01 C01.recursive_map_to_4kib.shape_p4_absent.target_translates_to_frame tier=thorough bounded="pool of 7 tables (4 path + 3 allocatable); tree-shaped sparse pre-state (target path, one neighbour word per path table, garbage in allocatable frames); recursive index 300; page-table indices (256,0,510,511)"
    //@ obligation C11 C11.recursive_map_to_4kib.shape_p4_absent.target_translates_to_frame tier=thorough bounded="pool of 7 tables (4 path + 3 allocatable); tree-shaped sparse pre-state (target path, one neighbour word per path table, garbage in allocatable frames); recursive index 300; page-table indices (256,0,510,511)"
    //@ obligation C01 C01.recursive_map_to_4kib.shape_p4_absent.target_leaf_flags tier=thorough bounded="pool of 7 tables (4 path + 3 allocatable); tree-shaped sparse pre-state (target path, one neighbour word per path table, garbage in allocatable frames); recursive index 300; page-table indices (256,0,510,511)"
    //@ obligation C11 C11.recursive_map_to_4kib.shape_p4_absent.target_leaf_flags tier=thorough bounded="pool of 7 tables (4 path + 3 allocatable); tree-shaped sparse pre-state (target path, one neighbour word per path table, garbage in allocatable frames); recursive index 300; page-table indices (256,0,510,511)"
    //@ obligation C01 C01.recursive_map_to_4kib.shape_p4_absent.parent_rights_include_requested tier=thorough bounded="pool of 7 tables (4 path + 3 allocatable); tree-shaped sparse pre-state (target path, one neighbour word per path table, garbage in allocatable frames); recursive index 300; page-table indices (256,0,510,511)"
    //@ obligation C01 C01.recursive_map_to_4kib.shape_p4_absent.other_addresses_unchanged tier=thorough bounded="pool of 7 tables (4 path + 3 allocatable); tree-shaped sparse pre-state (target path, one neighbour word per path table, garbage in allocatable frames); recursive index 300; page-table indices (256,0,510,511)"
    //@ obligation C11 C11.recursive_map_to_4kib.shape_p4_absent.other_addresses_unchanged tier=thorough bounded="pool of 7 tables (4 path + 3 allocatable); tree-shaped sparse pre-state (target path, one neighbour word per path table, garbage in allocatable frames); recursive index 300; page-table indices (256,0,510,511)"
    //@ obligation C01 C01.recursive_map_to_4kib.shape_p4_absent.result_reports_page tier=thorough bounded="pool of 7 tables (4 path + 3 allocatable); tree-shaped sparse pre-state (target path, one neighbour word per path table, garbage in allocatable frames); recursive index 300; page-table indices (256,0,510,511)"
    //@ obligation C01 C01.recursive_map_to_4kib.shape_p4_absent.result_reports_frame tier=thorough bounded="pool of 7 tables (4 path + 3 allocatable); tree-shaped sparse pre-state (target path, one neighbour word per path table, garbage in allocatable frames); recursive index 300; page-table indices (256,0,510,511)"
    //@ obligation C11 C11.recursive_map_to_4kib.shape_p4_absent.token_names_page tier=thorough bounded="pool of 7 tables (4 path + 3 allocatable); tree-shaped sparse pre-state (target path, one neighbour word per path table, garbage in allocatable frames); recursive index 300; page-table indices (256,0,510,511)"
    //@ obligation C02 C02.recursive_map_to_4kib.shape_p4_absent.error_leaves_every_mapping tier=thorough bounded="pool of 7 tables (4 path + 3 allocatable); tree-shaped sparse pre-state (target path, one neighbour word per path table, garbage in allocatable frames); recursive index 300; page-table indices (256,0,510,511)"
    //@ obligation C02 C02.recursive_map_to_4kib.shape_p4_absent.error_adds_at_most_parent_flags tier=thorough bounded="pool of 7 tables (4 path + 3 allocatable); tree-shaped sparse pre-state (target path, one neighbour word per path table, garbage in allocatable frames); recursive index 300; page-table indices (256,0,510,511)"
    //@ obligation C02 C02.recursive_map_to_4kib.shape_p4_absent.huge_leaf_unchanged_on_error tier=thorough bounded="pool of 7 tables (4 path + 3 allocatable); tree-shaped sparse pre-state (target path, one neighbour word per path table, garbage in allocatable frames); recursive index 300; page-table indices (256,0,510,511)"
    //@ obligation C09 C09.recursive_map_to_4kib.shape_p4_absent.only_dictated_slots_change tier=thorough bounded="pool of 7 tables (4 path + 3 allocatable); tree-shaped sparse pre-state (target path, one neighbour word per path table, garbage in allocatable frames); recursive index 300; page-table indices (256,0,510,511)"
    //@ obligation C09 C09.recursive_map_to_4kib.shape_p4_absent.allocator_requests tier=thorough bounded="pool of 7 tables (4 path + 3 allocatable); tree-shaped sparse pre-state (target path, one neighbour word per path table, garbage in allocatable frames); recursive index 300; page-table indices (256,0,510,511)"
    //@ obligation C09 C09.recursive_map_to_4kib.shape_p4_absent.new_tables_zeroed_before_use tier=thorough bounded="pool of 7 tables (4 path + 3 allocatable); tree-shaped sparse pre-state (target path, one neighbour word per path table, garbage in allocatable frames); recursive index 300; page-table indices (256,0,510,511)"
    //@ obligation C09 C09.recursive_map_to_4kib.shape_p4_absent.no_dangling_table_pointer tier=thorough bounded="pool of 7 tables (4 path + 3 allocatable); tree-shaped sparse pre-state (target path, one neighbour word per path table, garbage in allocatable frames); recursive index 300; page-table indices (256,0,510,511)"
    //@ obligation C09 C09.recursive_map_to_4kib.shape_p4_absent.no_access_outside_page_tables tier=thorough bounded="pool of 7 tables (4 path + 3 allocatable); tree-shaped sparse pre-state (target path, one neighbour word per path table, garbage in allocatable frames); recursive index 300; page-table indices (256,0,510,511)"
    #[kani::proof]
    #[kani::stub(crate::structures::paging::page_table::PageTable::zero, zero_stub)]
    #[kani::stub(crate::addr::VirtAddr::as_mut_ptr, mmu_trap_as_mut_ptr)]
    fn c01_recursive_map_to_p4_absent_up() {
        rec_map_to_step!("p4_absent", P4_ABSENT, IDX_UP);
        kani::cover!(true, "c01_recursive_map_to_p4_absent_up: reachable");
    }

    //@ obligation C02 C02.recursive_map_to_4kib.shape_p3_absent.documented_outcome tier=thorough bounded="pool of 7 tables (4 path + 3 allocatable); tree-shaped sparse pre-state (target path, one neighbour word per path table, garbage in allocatable frames); recursive index 300; page-table indices (255,511,0,256)"
    //@ obligation C01 C01.recursive_map_to_4kib.shape_p3_absent.target_translates_to_frame tier=thorough bounded="pool of 7 tables (4 path + 3 allocatable); tree-shaped sparse pre-state (target path, one neighbour word per path table, garbage in allocatable frames); recursive index 300; page-table indices (255,511,0,256)"
    //@ obligation C11 C11.recursive_map_to_4kib.shape_p3_absent.target_translates_to_frame tier=thorough bounded="pool of 7 tables (4 path + 3 allocatable); tree-shaped sparse pre-state (target path, one neighbour word per path table, garbage in allocatable frames); recursive index 300; page-table indices (255,511,0,256)"
    //@ obligation C01 C01.recursive_map_to_4kib.shape_p3_absent.target_leaf_flags tier=thorough bounded="pool of 7 tables (4 path + 3 allocatable); tree-shaped sparse pre-state (target path, one neighbour word per path table, garbage in allocatable frames); recursive index 300; page-table indices (255,511,0,256)"
    //@ obligation C11 C11.recursive_map_to_4kib.shape_p3_absent.target_leaf_flags tier=thorough bounded="pool of 7 tables (4 path + 3 allocatable); tree-shaped sparse pre-state (target path, one neighbour word per path table, garbage in allocatable frames); recursive index 300; page-table indices (255,511,0,256)"
    //@ obligation C01 C01.recursive_map_to_4kib.shape_p3_absent.parent_rights_include_requested tier=thorough bounded="pool of 7 tables (4 path + 3 allocatable); tree-shaped sparse pre-state (target path, one neighbour word per path table, garbage in allocatable frames); recursive index 300; page-table indices (255,511,0,256)"
    //@ obligation C01 C01.recursive_map_to_4kib.shape_p3_absent.other_addresses_unchanged tier=thorough bounded="pool of 7 tables (4 path + 3 allocatable); tree-shaped sparse pre-state (target path, one neighbour word per path table, garbage in allocatable frames); recursive index 300; page-table indices (255,511,0,256)"
    //@ obligation C11 C11.recursive_map_to_4kib.shape_p3_absent.other_addresses_unchanged tier=thorough bounded="pool of 7 tables (4 path + 3 allocatable); tree-shaped sparse pre-state (target path, one neighbour word per path table, garbage in allocatable frames); recursive index 300; page-table indices (255,511,0,256)"
    //@ obligation C01 C01.recursive_map_to_4kib.shape_p3_absent.result_reports_page tier=thorough bounded="pool of 7 tables (4 path + 3 allocatable); tree-shaped sparse pre-state (target path, one neighbour word per path table, garbage in allocatable frames); recursive index 300; page-table indices (255,511,0,256)"
    //@ obligation C01 C01.recursive_map_to_4kib.shape_p3_absent.result_reports_frame tier=thorough bounded="pool of 7 tables (4 path + 3 allocatable); tree-shaped sparse pre-state (target path, one neighbour word per path table, garbage in allocatable frames); recursive index 300; page-table indices (255,511,0,256)"
    //@ obligation C11 C11.recursive_map_to_4kib.shape_p3_absent.token_names_page tier=thorough bounded="pool of 7 tables (4 path + 3 allocatable); tree-shaped sparse pre-state (target path, one neighbour word per path table, garbage in allocatable frames); recursive index 300; page-table indices (255,511,0,256)"
    //@ obligation C02 C02.recursive_map_to_4kib.shape_p3_absent.error_leaves_every_mapping tier=thorough bounded="pool of 7 tables (4 path + 3 allocatable); tree-shaped sparse pre-state (target path, one neighbour word per path table, garbage in allocatable frames); recursive index 300; page-table indices (255,511,0,256)"
    //@ obligation C02 C02.recursive_map_to_4kib.shape_p3_absent.error_adds_at_most_parent_flags tier=thorough bounded="pool of 7 tables (4 path + 3 allocatable); tree-shaped sparse pre-state (target path, one neighbour word per path table, garbage in allocatable frames); recursive index 300; page-table indices (255,511,0,256)"
    //@ obligation C02 C02.recursive_map_to_4kib.shape_p3_absent.huge_leaf_unchanged_on_error tier=thorough bounded="pool of 7 tables (4 path + 3 allocatable); tree-shaped sparse pre-state (target path, one neighbour word per path table, garbage in allocatable frames); recursive index 300; page-table indices (255,511,0,256)"
    //@ obligation C09 C09.recursive_map_to_4kib.shape_p3_absent.only_dictated_slots_change tier=thorough bounded="pool of 7 tables (4 path + 3 allocatable); tree-shaped sparse pre-state (target path, one neighbour word per path table, garbage in allocatable frames); recursive index 300; page-table indices (255,511,0,256)"
    //@ obligation C09 C09.recursive_map_to_4kib.shape_p3_absent.allocator_requests tier=thorough bounded="pool of 7 tables (4 path + 3 allocatable); tree-shaped sparse pre-state (target path, one neighbour word per path table, garbage in allocatable frames); recursive index 300; page-table indices (255,511,0,256)"
    //@ obligation C09 C09.recursive_map_to_4kib.shape_p3_absent.new_tables_zeroed_before_use tier=thorough bounded="pool of 7 tables (4 path + 3 allocatable); tree-shaped sparse pre-state (target path, one neighbour word per path table, garbage in allocatable frames); recursive index 300; page-table indices (255,511,0,256)"
    //@ obligation C09 C09.recursive_map_to_4kib.shape_p3_absent.no_dangling_table_pointer tier=thorough bounded="pool of 7 tables (4 path + 3 allocatable); tree-shaped sparse pre-state (target path, one neighbour word per path table, garbage in allocatable frames); recursive index 300; page-table indices (255,511,0,256)"
    //@ obligation C09 C09.recursive_map_to_4kib.shape_p3_absent.no_access_outside_page_tables tier=thorough bounded="pool of 7 tables (4 path + 3 allocatable); tree-shaped sparse pre-state (target path, one neighbour word per path table, garbage in allocatable frames); recursive index 300; page-table indices (255,511,0,256)"
    #[kani::proof]
    #[kani::stub(crate::structures::paging::page_table::PageTable::zero, zero_stub)]
    #[kani::stub(crate::addr::VirtAddr::as_mut_ptr, mmu_trap_as_mut_ptr)]
    fn c01_recursive_map_to_p3_absent_mid() {
        rec_map_to_step!("p3_absent", P3_ABSENT, IDX_MID);
        kani::cover!(true, "c01_recursive_map_to_p3_absent_mid: reachable");
    }

    //@ obligation C02 C02.recursive_map_to_4kib.shape_p3_absent.documented_outcome tier=thorough bounded="pool of 7 tables (4 path + 3 allocatable); tree-shaped sparse pre-state (target path, one neighbour word per path table, garbage in allocatable frames); recursive index 300; page-table indices (256,0,510,511)"
    //@ obligation C01 C01.recursive_map_to_4kib.shape_p3_absent.target_translates_to_frame tier=thorough bounded="pool of 7 tables (4 path + 3 allocatable); tree-shaped sparse pre-state (target path, one neighbour word per path table, garbage in allocatable frames); recursive index 300; page-table indices (256,0,510,511)"
    //@ obligation C11 C11.recursive_map_to_4kib.shape_p3_absent.target_translates_to_frame tier=thorough bounded="pool of 7 tables (4 path + 3 allocatable); tree-shaped sparse pre-state (target path, one neighbour word per path table, garbage in allocatable frames); recursive index 300; page-table indices (256,0,510,511)"
    //@ obligation C01 C01.recursive_map_to_4kib.shape_p3_absent.target_leaf_flags tier=thorough bounded="pool of 7 tables (4 path + 3 allocatable); tree-shaped sparse pre-state (target path, one neighbour word per path table, garbage in allocatable frames); recursive index 300; page-table indices (256,0,510,511)"
    //@ obligation C11 C11.recursive_map_to_4kib.shape_p3_absent.target_leaf_flags tier=thorough bounded="pool of 7 tables (4 path + 3 allocatable); tree-shaped sparse pre-state (target path, one neighbour word per path table, garbage in allocatable frames); recursive index 300; page-table indices (256,0,510,511)"
    //@ obligation C01 C01.recursive_map_to_4kib.shape_p3_absent.parent_rights_include_requested tier=thorough bounded="pool of 7 tables (4 path + 3 allocatable); tree-shaped sparse pre-state (target path, one neighbour word per path table, garbage in allocatable frames); recursive index 300; page-table indices (256,0,510,511)"
    //@ obligation C01 C01.recursive_map_to_4kib.shape_p3_absent.other_addresses_unchanged tier=thorough bounded="pool of 7 tables (4 path + 3 allocatable); tree-shaped sparse pre-state (target path, one neighbour word per path table, garbage in allocatable frames); recursive index 300; page-table indices (256,0,510,511)"
    //@ obligation C11 C11.recursive_map_to_4kib.shape_p3_absent.other_addresses_unchanged tier=thorough bounded="pool of 7 tables (4 path + 3 allocatable); tree-shaped sparse pre-state (target path, one neighbour word per path table, garbage in allocatable frames); recursive index 300; page-table indices (256,0,510,511)"
    //@ obligation C01 C01.recursive_map_to_4kib.shape_p3_absent.result_reports_page tier=thorough bounded="pool of 7 tables (4 path + 3 allocatable); tree-shaped sparse pre-state (target path, one neighbour word per path table, garbage in allocatable frames); recursive index 300; page-table indices (256,0,510,511)"
    //@ obligation C01 C01.recursive_map_to_4kib.shape_p3_absent.result_reports_frame tier=thorough bounded="pool of 7 tables (4 path + 3 allocatable); tree-shaped sparse pre-state (target path, one neighbour word per path table, garbage in allocatable frames); recursive index 300; page-table indices (256,0,510,511)"
    //@ obligation C11 C11.recursive_map_to_4kib.shape_p3_absent.token_names_page tier=thorough bounded="pool of 7 tables (4 path + 3 allocatable); tree-shaped sparse pre-state (target path, one neighbour word per path table, garbage in allocatable frames); recursive index 300; page-table indices (256,0,510,511)"
    //@ obligation C02 C02.recursive_map_to_4kib.shape_p3_absent.error_leaves_every_mapping tier=thorough bounded="pool of 7 tables (4 path + 3 allocatable); tree-shaped sparse pre-state (target path, one neighbour word per path table, garbage in allocatable frames); recursive index 300; page-table indices (256,0,510,511)"
    //@ obligation C02 C02.recursive_map_to_4kib.shape_p3_absent.error_adds_at_most_parent_flags tier=thorough bounded="pool of 7 tables (4 path + 3 allocatable); tree-shaped sparse pre-state (target path, one neighbour word per path table, garbage in allocatable frames); recursive index 300; page-table indices (256,0,510,511)"
    //@ obligation C02 C02.recursive_map_to_4kib.shape_p3_absent.huge_leaf_unchanged_on_error tier=thorough bounded="pool of 7 tables (4 path + 3 allocatable); tree-shaped sparse pre-state (target path, one neighbour word per path table, garbage in allocatable frames); recursive index 300; page-table indices (256,0,510,511)"
    //@ obligation C09 C09.recursive_map_to_4kib.shape_p3_absent.only_dictated_slots_change tier=thorough bounded="pool of 7 tables (4 path + 3 allocatable); tree-shaped sparse pre-state (target path, one neighbour word per path table, garbage in allocatable frames); recursive index 300; page-table indices (256,0,510,511)"
    //@ obligation C09 C09.recursive_map_to_4kib.shape_p3_absent.allocator_requests tier=thorough bounded="pool of 7 tables (4 path + 3 allocatable); tree-shaped sparse pre-state (target path, one neighbour word per path table, garbage in allocatable frames); recursive index 300; page-table indices (256,0,510,511)"
    //@ obligation C09 C09.recursive_map_to_4kib.shape_p3_absent.new_tables_zeroed_before_use tier=thorough bounded="pool of 7 tables (4 path + 3 allocatable); tree-shaped sparse pre-state (target path, one neighbour word per path table, garbage in allocatable frames); recursive index 300; page-table indices (256,0,510,511)"
    //@ obligation C09 C09.recursive_map_to_4kib.shape_p3_absent.no_dangling_table_pointer tier=thorough bounded="pool of 7 tables (4 path + 3 allocatable); tree-shaped sparse pre-state (target path, one neighbour word per path table, garbage in allocatable frames); recursive index 300; page-table indices (256,0,510,511)"
    //@ obligation C09 C09.recursive_map_to_4kib.shape_p3_absent.no_access_outside_page_tables tier=thorough bounded="pool of 7 tables (4 path + 3 allocatable); tree-shaped sparse pre-state (target path, one neighbour word per path table, garbage in allocatable frames); recursive index 300; page-table indices (256,0,510,511)"
    #[kani::proof]
    #[kani::stub(crate::structures::paging::page_table::PageTable::zero, zero_stub)]
    #[kani::stub(crate::addr::VirtAddr::as_mut_ptr, mmu_trap_as_mut_ptr)]
    fn c01_recursive_map_to_p3_absent_up() {
        rec_map_to_step!("p3_absent", P3_ABSENT, IDX_UP);
        kani::cover!(true, "c01_recursive_map_to_p3_absent_up: reachable");
    }

    //@ obligation C02 C02.recursive_map_to_4kib.shape_p3_huge.documented_outcome tier=thorough bounded="pool of 7 tables (4 path + 3 allocatable); tree-shaped sparse pre-state (target path, one neighbour word per path table, garbage in allocatable frames); recursive index 300; page-table indices (255,511,0,256)"
    //@ obligation C01 C01.recursive_map_to_4kib.shape_p3_huge.target_translates_to_frame tier=thorough bounded="pool of 7 tables (4 path + 3 allocatable); tree-shaped sparse pre-state (target path, one neighbour word per path table, garbage in allocatable frames); recursive index 300; page-table indices (255,511,0,256)"
    //@ obligation C11 C11.recursive_map_to_4kib.shape_p3_huge.target_translates_to_frame tier=thorough bounded="pool of 7 tables (4 path + 3 allocatable); tree-shaped sparse pre-state (target path, one neighbour word per path table, garbage in allocatable frames); recursive index 300; page-table indices (255,511,0,256)"
    //@ obligation C01 C01.recursive_map_to_4kib.shape_p3_huge.target_leaf_flags tier=thorough bounded="pool of 7 tables (4 path + 3 allocatable); tree-shaped sparse pre-state (target path, one neighbour word per path table, garbage in allocatable frames); recursive index 300; page-table indices (255,511,0,256)"
    //@ obligation C11 C11.recursive_map_to_4kib.shape_p3_huge.target_leaf_flags tier=thorough bounded="pool of 7 tables (4 path + 3 allocatable); tree-shaped sparse pre-state (target path, one neighbour word per path table, garbage in allocatable frames); recursive index 300; page-table indices (255,511,0,256)"
    //@ obligation C01 C01.recursive_map_to_4kib.shape_p3_huge.parent_rights_include_requested tier=thorough bounded="pool of 7 tables (4 path + 3 allocatable); tree-shaped sparse pre-state (target path, one neighbour word per path table, garbage in allocatable frames); recursive index 300; page-table indices (255,511,0,256)"
    //@ obligation C01 C01.recursive_map_to_4kib.shape_p3_huge.other_addresses_unchanged tier=thorough bounded="pool of 7 tables (4 path + 3 allocatable); tree-shaped sparse pre-state (target path, one neighbour word per path table, garbage in allocatable frames); recursive index 300; page-table indices (255,511,0,256)"
    //@ obligation C11 C11.recursive_map_to_4kib.shape_p3_huge.other_addresses_unchanged tier=thorough bounded="pool of 7 tables (4 path + 3 allocatable); tree-shaped sparse pre-state (target path, one neighbour word per path table, garbage in allocatable frames); recursive index 300; page-table indices (255,511,0,256)"
    //@ obligation C01 C01.recursive_map_to_4kib.shape_p3_huge.result_reports_page tier=thorough bounded="pool of 7 tables (4 path + 3 allocatable); tree-shaped sparse pre-state (target path, one neighbour word per path table, garbage in allocatable frames); recursive index 300; page-table indices (255,511,0,256)"
    //@ obligation C01 C01.recursive_map_to_4kib.shape_p3_huge.result_reports_frame tier=thorough bounded="pool of 7 tables (4 path + 3 allocatable); tree-shaped sparse pre-state (target path, one neighbour word per path table, garbage in allocatable frames); recursive index 300; page-table indices (255,511,0,256)"
    //@ obligation C11 C11.recursive_map_to_4kib.shape_p3_huge.token_names_page tier=thorough bounded="pool of 7 tables (4 path + 3 allocatable); tree-shaped sparse pre-state (target path, one neighbour word per path table, garbage in allocatable frames); recursive index 300; page-table indices (255,511,0,256)"
    //@ obligation C02 C02.recursive_map_to_4kib.shape_p3_huge.error_leaves_every_mapping tier=thorough bounded="pool of 7 tables (4 path + 3 allocatable); tree-shaped sparse pre-state (target path, one neighbour word per path table, garbage in allocatable frames); recursive index 300; page-table indices (255,511,0,256)"
    //@ obligation C02 C02.recursive_map_to_4kib.shape_p3_huge.error_adds_at_most_parent_flags tier=thorough bounded="pool of 7 tables (4 path + 3 allocatable); tree-shaped sparse pre-state (target path, one neighbour word per path table, garbage in allocatable frames); recursive index 300; page-table indices (255,511,0,256)"
    //@ obligation C02 C02.recursive_map_to_4kib.shape_p3_huge.huge_leaf_unchanged_on_error tier=thorough bounded="pool of 7 tables (4 path + 3 allocatable); tree-shaped sparse pre-state (target path, one neighbour word per path table, garbage in allocatable frames); recursive index 300; page-table indices (255,511,0,256)"
    //@ obligation C09 C09.recursive_map_to_4kib.shape_p3_huge.only_dictated_slots_change tier=thorough bounded="pool of 7 tables (4 path + 3 allocatable); tree-shaped sparse pre-state (target path, one neighbour word per path table, garbage in allocatable frames); recursive index 300; page-table indices (255,511,0,256)"
    //@ obligation C09 C09.recursive_map_to_4kib.shape_p3_huge.allocator_requests tier=thorough bounded="pool of 7 tables (4 path + 3 allocatable); tree-shaped sparse pre-state (target path, one neighbour word per path table, garbage in allocatable frames); recursive index 300; page-table indices (255,511,0,256)"
    //@ obligation C09 C09.recursive_map_to_4kib.shape_p3_huge.new_tables_zeroed_before_use tier=thorough bounded="pool of 7 tables (4 path + 3 allocatable); tree-shaped sparse pre-state (target path, one neighbour word per path table, garbage in allocatable frames); recursive index 300; page-table indices (255,511,0,256)"
    //@ obligation C09 C09.recursive_map_to_4kib.shape_p3_huge.no_dangling_table_pointer tier=thorough bounded="pool of 7 tables (4 path + 3 allocatable); tree-shaped sparse pre-state (target path, one neighbour word per path table, garbage in allocatable frames); recursive index 300; page-table indices (255,511,0,256)"
    //@ obligation C09 C09.recursive_map_to_4kib.shape_p3_huge.no_access_outside_page_tables tier=thorough bounded="pool of 7 tables (4 path + 3 allocatable); tree-shaped sparse pre-state (target path, one neighbour word per path table, garbage in allocatable frames); recursive index 300; page-table indices (255,511,0,256)"
    #[kani::proof]
    #[kani::stub(crate::structures::paging::page_table::PageTable::zero, zero_stub)]
    #[kani::stub(crate::addr::VirtAddr::as_mut_ptr, mmu_trap_as_mut_ptr)]
    fn c01_recursive_map_to_p3_huge_mid() {
        rec_map_to_step!("p3_huge", P3_HUGE, IDX_MID);
        kani::cover!(true, "c01_recursive_map_to_p3_huge_mid: reachable");
    }

    //@ obligation C02 C02.recursive_map_to_4kib.shape_p3_huge.documented_outcome tier=thorough bounded="pool of 7 tables (4 path + 3 allocatable); tree-shaped sparse pre-state (target path, one neighbour word per path table, garbage in allocatable frames); recursive index 300; page-table indices (256,0,510,511)"
    //@ obligation C01 C01.recursive_map_to_4kib.shape_p3_huge.target_translates_to_frame tier=thorough bounded="pool of 7 tables (4 path + 3 allocatable); tree-shaped sparse pre-state (target path, one neighbour word per path table, garbage in allocatable frames); recursive index 300; page-table indices (256,0,510,511)"
    //@ obligation C11 C11.recursive_map_to_4kib.shape_p3_huge.target_translates_to_frame tier=thorough bounded="pool of 7 tables (4 path + 3 allocatable); tree-shaped sparse pre-state (target path, one neighbour word per path table, garbage in allocatable frames); recursive index 300; page-table indices (256,0,510,511)"
    //@ obligation C01 C01.recursive_map_to_4kib.shape_p3_huge.target_leaf_flags tier=thorough bounded="pool of 7 tables (4 path + 3 allocatable); tree-shaped sparse pre-state (target path, one neighbour word per path table, garbage in allocatable frames); recursive index 300; page-table indices (256,0,510,511)"
    //@ obligation C11 C11.recursive_map_to_4kib.shape_p3_huge.target_leaf_flags tier=thorough bounded="pool of 7 tables (4 path + 3 allocatable); tree-shaped sparse pre-state (target path, one neighbour word per path table, garbage in allocatable frames); recursive index 300; page-table indices (256,0,510,511)"
    //@ obligation C01 C01.recursive_map_to_4kib.shape_p3_huge.parent_rights_include_requested tier=thorough bounded="pool of 7 tables (4 path + 3 allocatable); tree-shaped sparse pre-state (target path, one neighbour word per path table, garbage in allocatable frames); recursive index 300; page-table indices (256,0,510,511)"
    //@ obligation C01 C01.recursive_map_to_4kib.shape_p3_huge.other_addresses_unchanged tier=thorough bounded="pool of 7 tables (4 path + 3 allocatable); tree-shaped sparse pre-state (target path, one neighbour word per path table, garbage in allocatable frames); recursive index 300; page-table indices (256,0,510,511)"
    //@ obligation C11 C11.recursive_map_to_4kib.shape_p3_huge.other_addresses_unchanged tier=thorough bounded="pool of 7 tables (4 path + 3 allocatable); tree-shaped sparse pre-state (target path, one neighbour word per path table, garbage in allocatable frames); recursive index 300; page-table indices (256,0,510,511)"
    //@ obligation C01 C01.recursive_map_to_4kib.shape_p3_huge.result_reports_page tier=thorough bounded="pool of 7 tables (4 path + 3 allocatable); tree-shaped sparse pre-state (target path, one neighbour word per path table, garbage in allocatable frames); recursive index 300; page-table indices (256,0,510,511)"
    //@ obligation C01 C01.recursive_map_to_4kib.shape_p3_huge.result_reports_frame tier=thorough bounded="pool of 7 tables (4 path + 3 allocatable); tree-shaped sparse pre-state (target path, one neighbour word per path table, garbage in allocatable frames); recursive index 300; page-table indices (256,0,510,511)"
    //@ obligation C11 C11.recursive_map_to_4kib.shape_p3_huge.token_names_page tier=thorough bounded="pool of 7 tables (4 path + 3 allocatable); tree-shaped sparse pre-state (target path, one neighbour word per path table, garbage in allocatable frames); recursive index 300; page-table indices (256,0,510,511)"
    //@ obligation C02 C02.recursive_map_to_4kib.shape_p3_huge.error_leaves_every_mapping tier=thorough bounded="pool of 7 tables (4 path + 3 allocatable); tree-shaped sparse pre-state (target path, one neighbour word per path table, garbage in allocatable frames); recursive index 300; page-table indices (256,0,510,511)"
    //@ obligation C02 C02.recursive_map_to_4kib.shape_p3_huge.error_adds_at_most_parent_flags tier=thorough bounded="pool of 7 tables (4 path + 3 allocatable); tree-shaped sparse pre-state (target path, one neighbour word per path table, garbage in allocatable frames); recursive index 300; page-table indices (256,0,510,511)"
    //@ obligation C02 C02.recursive_map_to_4kib.shape_p3_huge.huge_leaf_unchanged_on_error tier=thorough bounded="pool of 7 tables (4 path + 3 allocatable); tree-shaped sparse pre-state (target path, one neighbour word per path table, garbage in allocatable frames); recursive index 300; page-table indices (256,0,510,511)"
    //@ obligation C09 C09.recursive_map_to_4kib.shape_p3_huge.only_dictated_slots_change tier=thorough bounded="pool of 7 tables (4 path + 3 allocatable); tree-shaped sparse pre-state (target path, one neighbour word per path table, garbage in allocatable frames); recursive index 300; page-table indices (256,0,510,511)"
    //@ obligation C09 C09.recursive_map_to_4kib.shape_p3_huge.allocator_requests tier=thorough bounded="pool of 7 tables (4 path + 3 allocatable); tree-shaped sparse pre-state (target path, one neighbour word per path table, garbage in allocatable frames); recursive index 300; page-table indices (256,0,510,511)"
    //@ obligation C09 C09.recursive_map_to_4kib.shape_p3_huge.new_tables_zeroed_before_use tier=thorough bounded="pool of 7 tables (4 path + 3 allocatable); tree-shaped sparse pre-state (target path, one neighbour word per path table, garbage in allocatable frames); recursive index 300; page-table indices (256,0,510,511)"
    //@ obligation C09 C09.recursive_map_to_4kib.shape_p3_huge.no_dangling_table_pointer tier=thorough bounded="pool of 7 tables (4 path + 3 allocatable); tree-shaped sparse pre-state (target path, one neighbour word per path table, garbage in allocatable frames); recursive index 300; page-table indices (256,0,510,511)"
    //@ obligation C09 C09.recursive_map_to_4kib.shape_p3_huge.no_access_outside_page_tables tier=thorough bounded="pool of 7 tables (4 path + 3 allocatable); tree-shaped sparse pre-state (target path, one neighbour word per path table, garbage in allocatable frames); recursive index 300; page-table indices (256,0,510,511)"
    #[kani::proof]
    #[kani::stub(crate::structures::paging::page_table::PageTable::zero, zero_stub)]
    #[kani::stub(crate::addr::VirtAddr::as_mut_ptr, mmu_trap_as_mut_ptr)]
    fn c01_recursive_map_to_p3_huge_up() {
        rec_map_to_step!("p3_huge", P3_HUGE, IDX_UP);
        kani::cover!(true, "c01_recursive_map_to_p3_huge_up: reachable");
    }

    //@ obligation C02 C02.recursive_map_to_4kib.shape_p2_absent.documented_outcome tier=thorough bounded="pool of 7 tables (4 path + 3 allocatable); tree-shaped sparse pre-state (target path, one neighbour word per path table, garbage in allocatable frames); recursive index 300; page-table indices (255,511,0,256)"
    //@ obligation C01 C01.recursive_map_to_4kib.shape_p2_absent.target_translates_to_frame tier=thorough bounded="pool of 7 tables (4 path + 3 allocatable); tree-shaped sparse pre-state (target path, one neighbour word per path table, garbage in allocatable frames); recursive index 300; page-table indices (255,511,0,256)"
    //@ obligation C11 C11.recursive_map_to_4kib.shape_p2_absent.target_translates_to_frame tier=thorough bounded="pool of 7 tables (4 path + 3 allocatable); tree-shaped sparse pre-state (target path, one neighbour word per path table, garbage in allocatable frames); recursive index 300; page-table indices (255,511,0,256)"
    //@ obligation C01 C01.recursive_map_to_4kib.shape_p2_absent.target_leaf_flags tier=thorough bounded="pool of 7 tables (4 path + 3 allocatable); tree-shaped sparse pre-state (target path, one neighbour word per path table, garbage in allocatable frames); recursive index 300; page-table indices (255,511,0,256)"
    //@ obligation C11 C11.recursive_map_to_4kib.shape_p2_absent.target_leaf_flags tier=thorough bounded="pool of 7 tables (4 path + 3 allocatable); tree-shaped sparse pre-state (target path, one neighbour word per path table, garbage in allocatable frames); recursive index 300; page-table indices (255,511,0,256)"
    //@ obligation C01 C01.recursive_map_to_4kib.shape_p2_absent.parent_rights_include_requested tier=thorough bounded="pool of 7 tables (4 path + 3 allocatable); tree-shaped sparse pre-state (target path, one neighbour word per path table, garbage in allocatable frames); recursive index 300; page-table indices (255,511,0,256)"
    //@ obligation C01 C01.recursive_map_to_4kib.shape_p2_absent.other_addresses_unchanged tier=thorough bounded="pool of 7 tables (4 path + 3 allocatable); tree-shaped sparse pre-state (target path, one neighbour word per path table, garbage in allocatable frames); recursive index 300; page-table indices (255,511,0,256)"
    //@ obligation C11 C11.recursive_map_to_4kib.shape_p2_absent.other_addresses_unchanged tier=thorough bounded="pool of 7 tables (4 path + 3 allocatable); tree-shaped sparse pre-state (target path, one neighbour word per path table, garbage in allocatable frames); recursive index 300; page-table indices (255,511,0,256)"
    //@ obligation C01 C01.recursive_map_to_4kib.shape_p2_absent.result_reports_page tier=thorough bounded="pool of 7 tables (4 path + 3 allocatable); tree-shaped sparse pre-state (target path, one neighbour word per path table, garbage in allocatable frames); recursive index 300; page-table indices (255,511,0,256)"
    //@ obligation C01 C01.recursive_map_to_4kib.shape_p2_absent.result_reports_frame tier=thorough bounded="pool of 7 tables (4 path + 3 allocatable); tree-shaped sparse pre-state (target path, one neighbour word per path table, garbage in allocatable frames); recursive index 300; page-table indices (255,511,0,256)"
    //@ obligation C11 C11.recursive_map_to_4kib.shape_p2_absent.token_names_page tier=thorough bounded="pool of 7 tables (4 path + 3 allocatable); tree-shaped sparse pre-state (target path, one neighbour word per path table, garbage in allocatable frames); recursive index 300; page-table indices (255,511,0,256)"
    //@ obligation C02 C02.recursive_map_to_4kib.shape_p2_absent.error_leaves_every_mapping tier=thorough bounded="pool of 7 tables (4 path + 3 allocatable); tree-shaped sparse pre-state (target path, one neighbour word per path table, garbage in allocatable frames); recursive index 300; page-table indices (255,511,0,256)"
    //@ obligation C02 C02.recursive_map_to_4kib.shape_p2_absent.error_adds_at_most_parent_flags tier=thorough bounded="pool of 7 tables (4 path + 3 allocatable); tree-shaped sparse pre-state (target path, one neighbour word per path table, garbage in allocatable frames); recursive index 300; page-table indices (255,511,0,256)"
    //@ obligation C02 C02.recursive_map_to_4kib.shape_p2_absent.huge_leaf_unchanged_on_error tier=thorough bounded="pool of 7 tables (4 path + 3 allocatable); tree-shaped sparse pre-state (target path, one neighbour word per path table, garbage in allocatable frames); recursive index 300; page-table indices (255,511,0,256)"
    //@ obligation C09 C09.recursive_map_to_4kib.shape_p2_absent.only_dictated_slots_change tier=thorough bounded="pool of 7 tables (4 path + 3 allocatable); tree-shaped sparse pre-state (target path, one neighbour word per path table, garbage in allocatable frames); recursive index 300; page-table indices (255,511,0,256)"
    //@ obligation C09 C09.recursive_map_to_4kib.shape_p2_absent.allocator_requests tier=thorough bounded="pool of 7 tables (4 path + 3 allocatable); tree-shaped sparse pre-state (target path, one neighbour word per path table, garbage in allocatable frames); recursive index 300; page-table indices (255,511,0,256)"
    //@ obligation C09 C09.recursive_map_to_4kib.shape_p2_absent.new_tables_zeroed_before_use tier=thorough bounded="pool of 7 tables (4 path + 3 allocatable); tree-shaped sparse pre-state (target path, one neighbour word per path table, garbage in allocatable frames); recursive index 300; page-table indices (255,511,0,256)"
    //@ obligation C09 C09.recursive_map_to_4kib.shape_p2_absent.no_dangling_table_pointer tier=thorough bounded="pool of 7 tables (4 path + 3 allocatable); tree-shaped sparse pre-state (target path, one neighbour word per path table, garbage in allocatable frames); recursive index 300; page-table indices (255,511,0,256)"
    //@ obligation C09 C09.recursive_map_to_4kib.shape_p2_absent.no_access_outside_page_tables tier=thorough bounded="pool of 7 tables (4 path + 3 allocatable); tree-shaped sparse pre-state (target path, one neighbour word per path table, garbage in allocatable frames); recursive index 300; page-table indices (255,511,0,256)"
    #[kani::proof]
    #[kani::stub(crate::structures::paging::page_table::PageTable::zero, zero_stub)]
    #[kani::stub(crate::addr::VirtAddr::as_mut_ptr, mmu_trap_as_mut_ptr)]
    fn c01_recursive_map_to_p2_absent_mid() {
        rec_map_to_step!("p2_absent", P2_ABSENT, IDX_MID);
        kani::cover!(true, "c01_recursive_map_to_p2_absent_mid: reachable");
    }

    //@ obligation C02 C02.recursive_map_to_4kib.shape_p2_absent.documented_outcome tier=thorough bounded="pool of 7 tables (4 path + 3 allocatable); tree-shaped sparse pre-state (target path, one neighbour word per path table, garbage in allocatable frames); recursive index 300; page-table indices (256,0,510,511)"
    //@ obligation C01 C01.recursive_map_to_4kib.shape_p2_absent.target_translates_to_frame tier=thorough bounded="pool of 7 tables (4 path + 3 allocatable); tree-shaped sparse pre-state (target path, one neighbour word per path table, garbage in allocatable frames); recursive index 300; page-table indices (256,0,510,511)"
    //@ obligation C11 C11.recursive_map_to_4kib.shape_p2_absent.target_translates_to_frame tier=thorough bounded="pool of 7 tables (4 path + 3 allocatable); tree-shaped sparse pre-state (target path, one neighbour word per path table, garbage in allocatable frames); recursive index 300; page-table indices (256,0,510,511)"
    //@ obligation C01 C01.recursive_map_to_4kib.shape_p2_absent.target_leaf_flags tier=thorough bounded="pool of 7 tables (4 path + 3 allocatable); tree-shaped sparse pre-state (target path, one neighbour word per path table, garbage in allocatable frames); recursive index 300; page-table indices (256,0,510,511)"
    //@ obligation C11 C11.recursive_map_to_4kib.shape_p2_absent.target_leaf_flags tier=thorough bounded="pool of 7 tables (4 path + 3 allocatable); tree-shaped sparse pre-state (target path, one neighbour word per path table, garbage in allocatable frames); recursive index 300; page-table indices (256,0,510,511)"
    //@ obligation C01 C01.recursive_map_to_4kib.shape_p2_absent.parent_rights_include_requested tier=thorough bounded="pool of 7 tables (4 path + 3 allocatable); tree-shaped sparse pre-state (target path, one neighbour word per path table, garbage in allocatable frames); recursive index 300; page-table indices (256,0,510,511)"
    //@ obligation C01 C01.recursive_map_to_4kib.shape_p2_absent.other_addresses_unchanged tier=thorough bounded="pool of 7 tables (4 path + 3 allocatable); tree-shaped sparse pre-state (target path, one neighbour word per path table, garbage in allocatable frames); recursive index 300; page-table indices (256,0,510,511)"
    //@ obligation C11 C11.recursive_map_to_4kib.shape_p2_absent.other_addresses_unchanged tier=thorough bounded="pool of 7 tables (4 path + 3 allocatable); tree-shaped sparse pre-state (target path, one neighbour word per path table, garbage in allocatable frames); recursive index 300; page-table indices (256,0,510,511)"
    //@ obligation C01 C01.recursive_map_to_4kib.shape_p2_absent.result_reports_page tier=thorough bounded="pool of 7 tables (4 path + 3 allocatable); tree-shaped sparse pre-state (target path, one neighbour word per path table, garbage in allocatable frames); recursive index 300; page-table indices (256,0,510,511)"
    //@ obligation C01 C01.recursive_map_to_4kib.shape_p2_absent.result_reports_frame tier=thorough bounded="pool of 7 tables (4 path + 3 allocatable); tree-shaped sparse pre-state (target path, one neighbour word per path table, garbage in allocatable frames); recursive index 300; page-table indices (256,0,510,511)"
    //@ obligation C11 C11.recursive_map_to_4kib.shape_p2_absent.token_names_page tier=thorough bounded="pool of 7 tables (4 path + 3 allocatable); tree-shaped sparse pre-state (target path, one neighbour word per path table, garbage in allocatable frames); recursive index 300; page-table indices (256,0,510,511)"
    //@ obligation C02 C02.recursive_map_to_4kib.shape_p2_absent.error_leaves_every_mapping tier=thorough bounded="pool of 7 tables (4 path + 3 allocatable); tree-shaped sparse pre-state (target path, one neighbour word per path table, garbage in allocatable frames); recursive index 300; page-table indices (256,0,510,511)"
    //@ obligation C02 C02.recursive_map_to_4kib.shape_p2_absent.error_adds_at_most_parent_flags tier=thorough bounded="pool of 7 tables (4 path + 3 allocatable); tree-shaped sparse pre-state (target path, one neighbour word per path table, garbage in allocatable frames); recursive index 300; page-table indices (256,0,510,511)"
    //@ obligation C02 C02.recursive_map_to_4kib.shape_p2_absent.huge_leaf_unchanged_on_error tier=thorough bounded="pool of 7 tables (4 path + 3 allocatable); tree-shaped sparse pre-state (target path, one neighbour word per path table, garbage in allocatable frames); recursive index 300; page-table indices (256,0,510,511)"
    //@ obligation C09 C09.recursive_map_to_4kib.shape_p2_absent.only_dictated_slots_change tier=thorough bounded="pool of 7 tables (4 path + 3 allocatable); tree-shaped sparse pre-state (target path, one neighbour word per path table, garbage in allocatable frames); recursive index 300; page-table indices (256,0,510,511)"
    //@ obligation C09 C09.recursive_map_to_4kib.shape_p2_absent.allocator_requests tier=thorough bounded="pool of 7 tables (4 path + 3 allocatable); tree-shaped sparse pre-state (target path, one neighbour word per path table, garbage in allocatable frames); recursive index 300; page-table indices (256,0,510,511)"
    //@ obligation C09 C09.recursive_map_to_4kib.shape_p2_absent.new_tables_zeroed_before_use tier=thorough bounded="pool of 7 tables (4 path + 3 allocatable); tree-shaped sparse pre-state (target path, one neighbour word per path table, garbage in allocatable frames); recursive index 300; page-table indices (256,0,510,511)"
    //@ obligation C09 C09.recursive_map_to_4kib.shape_p2_absent.no_dangling_table_pointer tier=thorough bounded="pool of 7 tables (4 path + 3 allocatable); tree-shaped sparse pre-state (target path, one neighbour word per path table, garbage in allocatable frames); recursive index 300; page-table indices (256,0,510,511)"
    //@ obligation C09 C09.recursive_map_to_4kib.shape_p2_absent.no_access_outside_page_tables tier=thorough bounded="pool of 7 tables (4 path + 3 allocatable); tree-shaped sparse pre-state (target path, one neighbour word per path table, garbage in allocatable frames); recursive index 300; page-table indices (256,0,510,511)"
    #[kani::proof]
    #[kani::stub(crate::structures::paging::page_table::PageTable::zero, zero_stub)]
    #[kani::stub(crate::addr::VirtAddr::as_mut_ptr, mmu_trap_as_mut_ptr)]
    fn c01_recursive_map_to_p2_absent_up() {
        rec_map_to_step!("p2_absent", P2_ABSENT, IDX_UP);
        kani::cover!(true, "c01_recursive_map_to_p2_absent_up: reachable");
    }

    //@ obligation C02 C02.recursive_map_to_4kib.shape_p2_huge.documented_outcome tier=thorough bounded="pool of 7 tables (4 path + 3 allocatable); tree-shaped sparse pre-state (target path, one neighbour word per path table, garbage in allocatable frames); recursive index 300; page-table indices (255,511,0,256)"
    //@ obligation C01 C01.recursive_map_to_4kib.shape_p2_huge.target_translates_to_frame tier=thorough bounded="pool of 7 tables (4 path + 3 allocatable); tree-shaped sparse pre-state (target path, one neighbour word per path table, garbage in allocatable frames); recursive index 300; page-table indices (255,511,0,256)"
    //@ obligation C11 C11.recursive_map_to_4kib.shape_p2_huge.target_translates_to_frame tier=thorough bounded="pool of 7 tables (4 path + 3 allocatable); tree-shaped sparse pre-state (target path, one neighbour word per path table, garbage in allocatable frames); recursive index 300; page-table indices (255,511,0,256)"
    //@ obligation C01 C01.recursive_map_to_4kib.shape_p2_huge.target_leaf_flags tier=thorough bounded="pool of 7 tables (4 path + 3 allocatable); tree-shaped sparse pre-state (target path, one neighbour word per path table, garbage in allocatable frames); recursive index 300; page-table indices (255,511,0,256)"
    //@ obligation C11 C11.recursive_map_to_4kib.shape_p2_huge.target_leaf_flags tier=thorough bounded="pool of 7 tables (4 path + 3 allocatable); tree-shaped sparse pre-state (target path, one neighbour word per path table, garbage in allocatable frames); recursive index 300; page-table indices (255,511,0,256)"
    //@ obligation C01 C01.recursive_map_to_4kib.shape_p2_huge.parent_rights_include_requested tier=thorough bounded="pool of 7 tables (4 path + 3 allocatable); tree-shaped sparse pre-state (target path, one neighbour word per path table, garbage in allocatable frames); recursive index 300; page-table indices (255,511,0,256)"
    //@ obligation C01 C01.recursive_map_to_4kib.shape_p2_huge.other_addresses_unchanged tier=thorough bounded="pool of 7 tables (4 path + 3 allocatable); tree-shaped sparse pre-state (target path, one neighbour word per path table, garbage in allocatable frames); recursive index 300; page-table indices (255,511,0,256)"
    //@ obligation C11 C11.recursive_map_to_4kib.shape_p2_huge.other_addresses_unchanged tier=thorough bounded="pool of 7 tables (4 path + 3 allocatable); tree-shaped sparse pre-state (target path, one neighbour word per path table, garbage in allocatable frames); recursive index 300; page-table indices (255,511,0,256)"
    //@ obligation C01 C01.recursive_map_to_4kib.shape_p2_huge.result_reports_page tier=thorough bounded="pool of 7 tables (4 path + 3 allocatable); tree-shaped sparse pre-state (target path, one neighbour word per path table, garbage in allocatable frames); recursive index 300; page-table indices (255,511,0,256)"
    //@ obligation C01 C01.recursive_map_to_4kib.shape_p2_huge.result_reports_frame tier=thorough bounded="pool of 7 tables (4 path + 3 allocatable); tree-shaped sparse pre-state (target path, one neighbour word per path table, garbage in allocatable frames); recursive index 300; page-table indices (255,511,0,256)"
    //@ obligation C11 C11.recursive_map_to_4kib.shape_p2_huge.token_names_page tier=thorough bounded="pool of 7 tables (4 path + 3 allocatable); tree-shaped sparse pre-state (target path, one neighbour word per path table, garbage in allocatable frames); recursive index 300; page-table indices (255,511,0,256)"
    //@ obligation C02 C02.recursive_map_to_4kib.shape_p2_huge.error_leaves_every_mapping tier=thorough bounded="pool of 7 tables (4 path + 3 allocatable); tree-shaped sparse pre-state (target path, one neighbour word per path table, garbage in allocatable frames); recursive index 300; page-table indices (255,511,0,256)"
    //@ obligation C02 C02.recursive_map_to_4kib.shape_p2_huge.error_adds_at_most_parent_flags tier=thorough bounded="pool of 7 tables (4 path + 3 allocatable); tree-shaped sparse pre-state (target path, one neighbour word per path table, garbage in allocatable frames); recursive index 300; page-table indices (255,511,0,256)"
    //@ obligation C02 C02.recursive_map_to_4kib.shape_p2_huge.huge_leaf_unchanged_on_error tier=thorough bounded="pool of 7 tables (4 path + 3 allocatable); tree-shaped sparse pre-state (target path, one neighbour word per path table, garbage in allocatable frames); recursive index 300; page-table indices (255,511,0,256)"
    //@ obligation C09 C09.recursive_map_to_4kib.shape_p2_huge.only_dictated_slots_change tier=thorough bounded="pool of 7 tables (4 path + 3 allocatable); tree-shaped sparse pre-state (target path, one neighbour word per path table, garbage in allocatable frames); recursive index 300; page-table indices (255,511,0,256)"
    //@ obligation C09 C09.recursive_map_to_4kib.shape_p2_huge.allocator_requests tier=thorough bounded="pool of 7 tables (4 path + 3 allocatable); tree-shaped sparse pre-state (target path, one neighbour word per path table, garbage in allocatable frames); recursive index 300; page-table indices (255,511,0,256)"
    //@ obligation C09 C09.recursive_map_to_4kib.shape_p2_huge.new_tables_zeroed_before_use tier=thorough bounded="pool of 7 tables (4 path + 3 allocatable); tree-shaped sparse pre-state (target path, one neighbour word per path table, garbage in allocatable frames); recursive index 300; page-table indices (255,511,0,256)"
    //@ obligation C09 C09.recursive_map_to_4kib.shape_p2_huge.no_dangling_table_pointer tier=thorough bounded="pool of 7 tables (4 path + 3 allocatable); tree-shaped sparse pre-state (target path, one neighbour word per path table, garbage in allocatable frames); recursive index 300; page-table indices (255,511,0,256)"
    //@ obligation C09 C09.recursive_map_to_4kib.shape_p2_huge.no_access_outside_page_tables tier=thorough bounded="pool of 7 tables (4 path + 3 allocatable); tree-shaped sparse pre-state (target path, one neighbour word per path table, garbage in allocatable frames); recursive index 300; page-table indices (255,511,0,256)"
    #[kani::proof]
    #[kani::stub(crate::structures::paging::page_table::PageTable::zero, zero_stub)]
    #[kani::stub(crate::addr::VirtAddr::as_mut_ptr, mmu_trap_as_mut_ptr)]
    fn c01_recursive_map_to_p2_huge_mid() {
        rec_map_to_step!("p2_huge", P2_HUGE, IDX_MID);
        kani::cover!(true, "c01_recursive_map_to_p2_huge_mid: reachable");
    }

    //@ obligation C02 C02.recursive_map_to_4kib.shape_p2_huge.documented_outcome tier=thorough bounded="pool of 7 tables (4 path + 3 allocatable); tree-shaped sparse pre-state (target path, one neighbour word per path table, garbage in allocatable frames); recursive index 300; page-table indices (256,0,510,511)"
    //@ obligation C01 C01.recursive_map_to_4kib.shape_p2_huge.target_translates_to_frame tier=thorough bounded="pool of 7 tables (4 path + 3 allocatable); tree-shaped sparse pre-state (target path, one neighbour word per path table, garbage in allocatable frames); recursive index 300; page-table indices (256,0,510,511)"
    //@ obligation C11 C11.recursive_map_to_4kib.shape_p2_huge.target_translates_to_frame tier=thorough bounded="pool of 7 tables (4 path + 3 allocatable); tree-shaped sparse pre-state (target path, one neighbour word per path table, garbage in allocatable frames); recursive index 300; page-table indices (256,0,510,511)"
    //@ obligation C01 C01.recursive_map_to_4kib.shape_p2_huge.target_leaf_flags tier=thorough bounded="pool of 7 tables (4 path + 3 allocatable); tree-shaped sparse pre-state (target path, one neighbour word per path table, garbage in allocatable frames); recursive index 300; page-table indices (256,0,510,511)"
    //@ obligation C11 C11.recursive_map_to_4kib.shape_p2_huge.target_leaf_flags tier=thorough bounded="pool of 7 tables (4 path + 3 allocatable); tree-shaped sparse pre-state (target path, one neighbour word per path table, garbage in allocatable frames); recursive index 300; page-table indices (256,0,510,511)"
    //@ obligation C01 C01.recursive_map_to_4kib.shape_p2_huge.parent_rights_include_requested tier=thorough bounded="pool of 7 tables (4 path + 3 allocatable); tree-shaped sparse pre-state (target path, one neighbour word per path table, garbage in allocatable frames); recursive index 300; page-table indices (256,0,510,511)"
    //@ obligation C01 C01.recursive_map_to_4kib.shape_p2_huge.other_addresses_unchanged tier=thorough bounded="pool of 7 tables (4 path + 3 allocatable); tree-shaped sparse pre-state (target path, one neighbour word per path table, garbage in allocatable frames); recursive index 300; page-table indices (256,0,510,511)"
    //@ obligation C11 C11.recursive_map_to_4kib.shape_p2_huge.other_addresses_unchanged tier=thorough bounded="pool of 7 tables (4 path + 3 allocatable); tree-shaped sparse pre-state (target path, one neighbour word per path table, garbage in allocatable frames); recursive index 300; page-table indices (256,0,510,511)"
    //@ obligation C01 C01.recursive_map_to_4kib.shape_p2_huge.result_reports_page tier=thorough bounded="pool of 7 tables (4 path + 3 allocatable); tree-shaped sparse pre-state (target path, one neighbour word per path table, garbage in allocatable frames); recursive index 300; page-table indices (256,0,510,511)"
    //@ obligation C01 C01.recursive_map_to_4kib.shape_p2_huge.result_reports_frame tier=thorough bounded="pool of 7 tables (4 path + 3 allocatable); tree-shaped sparse pre-state (target path, one neighbour word per path table, garbage in allocatable frames); recursive index 300; page-table indices (256,0,510,511)"
    //@ obligation C11 C11.recursive_map_to_4kib.shape_p2_huge.token_names_page tier=thorough bounded="pool of 7 tables (4 path + 3 allocatable); tree-shaped sparse pre-state (target path, one neighbour word per path table, garbage in allocatable frames); recursive index 300; page-table indices (256,0,510,511)"
    //@ obligation C02 C02.recursive_map_to_4kib.shape_p2_huge.error_leaves_every_mapping tier=thorough bounded="pool of 7 tables (4 path + 3 allocatable); tree-shaped sparse pre-state (target path, one neighbour word per path table, garbage in allocatable frames); recursive index 300; page-table indices (256,0,510,511)"
    //@ obligation C02 C02.recursive_map_to_4kib.shape_p2_huge.error_adds_at_most_parent_flags tier=thorough bounded="pool of 7 tables (4 path + 3 allocatable); tree-shaped sparse pre-state (target path, one neighbour word per path table, garbage in allocatable frames); recursive index 300; page-table indices (256,0,510,511)"
    //@ obligation C02 C02.recursive_map_to_4kib.shape_p2_huge.huge_leaf_unchanged_on_error tier=thorough bounded="pool of 7 tables (4 path + 3 allocatable); tree-shaped sparse pre-state (target path, one neighbour word per path table, garbage in allocatable frames); recursive index 300; page-table indices (256,0,510,511)"
    //@ obligation C09 C09.recursive_map_to_4kib.shape_p2_huge.only_dictated_slots_change tier=thorough bounded="pool of 7 tables (4 path + 3 allocatable); tree-shaped sparse pre-state (target path, one neighbour word per path table, garbage in allocatable frames); recursive index 300; page-table indices (256,0,510,511)"
    //@ obligation C09 C09.recursive_map_to_4kib.shape_p2_huge.allocator_requests tier=thorough bounded="pool of 7 tables (4 path + 3 allocatable); tree-shaped sparse pre-state (target path, one neighbour word per path table, garbage in allocatable frames); recursive index 300; page-table indices (256,0,510,511)"
    //@ obligation C09 C09.recursive_map_to_4kib.shape_p2_huge.new_tables_zeroed_before_use tier=thorough bounded="pool of 7 tables (4 path + 3 allocatable); tree-shaped sparse pre-state (target path, one neighbour word per path table, garbage in allocatable frames); recursive index 300; page-table indices (256,0,510,511)"
    //@ obligation C09 C09.recursive_map_to_4kib.shape_p2_huge.no_dangling_table_pointer tier=thorough bounded="pool of 7 tables (4 path + 3 allocatable); tree-shaped sparse pre-state (target path, one neighbour word per path table, garbage in allocatable frames); recursive index 300; page-table indices (256,0,510,511)"
    //@ obligation C09 C09.recursive_map_to_4kib.shape_p2_huge.no_access_outside_page_tables tier=thorough bounded="pool of 7 tables (4 path + 3 allocatable); tree-shaped sparse pre-state (target path, one neighbour word per path table, garbage in allocatable frames); recursive index 300; page-table indices (256,0,510,511)"
    #[kani::proof]
    #[kani::stub(crate::structures::paging::page_table::PageTable::zero, zero_stub)]
    #[kani::stub(crate::addr::VirtAddr::as_mut_ptr, mmu_trap_as_mut_ptr)]
    fn c01_recursive_map_to_p2_huge_up() {
        rec_map_to_step!("p2_huge", P2_HUGE, IDX_UP);
        kani::cover!(true, "c01_recursive_map_to_p2_huge_up: reachable");
    }

    //@ obligation C02 C02.recursive_map_to_4kib.shape_p1_absent.documented_outcome tier=thorough bounded="pool of 7 tables (4 path + 3 allocatable); tree-shaped sparse pre-state (target path, one neighbour word per path table, garbage in allocatable frames); recursive index 300; page-table indices (255,511,0,256)"
    //@ obligation C01 C01.recursive_map_to_4kib.shape_p1_absent.target_translates_to_frame tier=thorough bounded="pool of 7 tables (4 path + 3 allocatable); tree-shaped sparse pre-state (target path, one neighbour word per path table, garbage in allocatable frames); recursive index 300; page-table indices (255,511,0,256)"
    //@ obligation C11 C11.recursive_map_to_4kib.shape_p1_absent.target_translates_to_frame tier=thorough bounded="pool of 7 tables (4 path + 3 allocatable); tree-shaped sparse pre-state (target path, one neighbour word per path table, garbage in allocatable frames); recursive index 300; page-table indices (255,511,0,256)"
    //@ obligation C01 C01.recursive_map_to_4kib.shape_p1_absent.target_leaf_flags tier=thorough bounded="pool of 7 tables (4 path + 3 allocatable); tree-shaped sparse pre-state (target path, one neighbour word per path table, garbage in allocatable frames); recursive index 300; page-table indices (255,511,0,256)"
    //@ obligation C11 C11.recursive_map_to_4kib.shape_p1_absent.target_leaf_flags tier=thorough bounded="pool of 7 tables (4 path + 3 allocatable); tree-shaped sparse pre-state (target path, one neighbour word per path table, garbage in allocatable frames); recursive index 300; page-table indices (255,511,0,256)"
    //@ obligation C01 C01.recursive_map_to_4kib.shape_p1_absent.parent_rights_include_requested tier=thorough bounded="pool of 7 tables (4 path + 3 allocatable); tree-shaped sparse pre-state (target path, one neighbour word per path table, garbage in allocatable frames); recursive index 300; page-table indices (255,511,0,256)"
    //@ obligation C01 C01.recursive_map_to_4kib.shape_p1_absent.other_addresses_unchanged tier=thorough bounded="pool of 7 tables (4 path + 3 allocatable); tree-shaped sparse pre-state (target path, one neighbour word per path table, garbage in allocatable frames); recursive index 300; page-table indices (255,511,0,256)"
    //@ obligation C11 C11.recursive_map_to_4kib.shape_p1_absent.other_addresses_unchanged tier=thorough bounded="pool of 7 tables (4 path + 3 allocatable); tree-shaped sparse pre-state (target path, one neighbour word per path table, garbage in allocatable frames); recursive index 300; page-table indices (255,511,0,256)"
    //@ obligation C01 C01.recursive_map_to_4kib.shape_p1_absent.result_reports_page tier=thorough bounded="pool of 7 tables (4 path + 3 allocatable); tree-shaped sparse pre-state (target path, one neighbour word per path table, garbage in allocatable frames); recursive index 300; page-table indices (255,511,0,256)"
    //@ obligation C01 C01.recursive_map_to_4kib.shape_p1_absent.result_reports_frame tier=thorough bounded="pool of 7 tables (4 path + 3 allocatable); tree-shaped sparse pre-state (target path, one neighbour word per path table, garbage in allocatable frames); recursive index 300; page-table indices (255,511,0,256)"
    //@ obligation C11 C11.recursive_map_to_4kib.shape_p1_absent.token_names_page tier=thorough bounded="pool of 7 tables (4 path + 3 allocatable); tree-shaped sparse pre-state (target path, one neighbour word per path table, garbage in allocatable frames); recursive index 300; page-table indices (255,511,0,256)"
    //@ obligation C02 C02.recursive_map_to_4kib.shape_p1_absent.error_leaves_every_mapping tier=thorough bounded="pool of 7 tables (4 path + 3 allocatable); tree-shaped sparse pre-state (target path, one neighbour word per path table, garbage in allocatable frames); recursive index 300; page-table indices (255,511,0,256)"
    //@ obligation C02 C02.recursive_map_to_4kib.shape_p1_absent.error_adds_at_most_parent_flags tier=thorough bounded="pool of 7 tables (4 path + 3 allocatable); tree-shaped sparse pre-state (target path, one neighbour word per path table, garbage in allocatable frames); recursive index 300; page-table indices (255,511,0,256)"
    //@ obligation C02 C02.recursive_map_to_4kib.shape_p1_absent.huge_leaf_unchanged_on_error tier=thorough bounded="pool of 7 tables (4 path + 3 allocatable); tree-shaped sparse pre-state (target path, one neighbour word per path table, garbage in allocatable frames); recursive index 300; page-table indices (255,511,0,256)"
    //@ obligation C09 C09.recursive_map_to_4kib.shape_p1_absent.only_dictated_slots_change tier=thorough bounded="pool of 7 tables (4 path + 3 allocatable); tree-shaped sparse pre-state (target path, one neighbour word per path table, garbage in allocatable frames); recursive index 300; page-table indices (255,511,0,256)"
    //@ obligation C09 C09.recursive_map_to_4kib.shape_p1_absent.allocator_requests tier=thorough bounded="pool of 7 tables (4 path + 3 allocatable); tree-shaped sparse pre-state (target path, one neighbour word per path table, garbage in allocatable frames); recursive index 300; page-table indices (255,511,0,256)"
    //@ obligation C09 C09.recursive_map_to_4kib.shape_p1_absent.new_tables_zeroed_before_use tier=thorough bounded="pool of 7 tables (4 path + 3 allocatable); tree-shaped sparse pre-state (target path, one neighbour word per path table, garbage in allocatable frames); recursive index 300; page-table indices (255,511,0,256)"
    //@ obligation C09 C09.recursive_map_to_4kib.shape_p1_absent.no_dangling_table_pointer tier=thorough bounded="pool of 7 tables (4 path + 3 allocatable); tree-shaped sparse pre-state (target path, one neighbour word per path table, garbage in allocatable frames); recursive index 300; page-table indices (255,511,0,256)"
    //@ obligation C09 C09.recursive_map_to_4kib.shape_p1_absent.no_access_outside_page_tables tier=thorough bounded="pool of 7 tables (4 path + 3 allocatable); tree-shaped sparse pre-state (target path, one neighbour word per path table, garbage in allocatable frames); recursive index 300; page-table indices (255,511,0,256)"
    #[kani::proof]
    #[kani::stub(crate::structures::paging::page_table::PageTable::zero, zero_stub)]
    #[kani::stub(crate::addr::VirtAddr::as_mut_ptr, mmu_trap_as_mut_ptr)]
    fn c01_recursive_map_to_p1_absent_mid() {
        rec_map_to_step!("p1_absent", P1_ABSENT, IDX_MID);
        kani::cover!(true, "c01_recursive_map_to_p1_absent_mid: reachable");
    }

    //@ obligation C02 C02.recursive_map_to_4kib.shape_p1_absent.documented_outcome tier=thorough bounded="pool of 7 tables (4 path + 3 allocatable); tree-shaped sparse pre-state (target path, one neighbour word per path table, garbage in allocatable frames); recursive index 300; page-table indices (256,0,510,511)"
    //@ obligation C01 C01.recursive_map_to_4kib.shape_p1_absent.target_translates_to_frame tier=thorough bounded="pool of 7 tables (4 path + 3 allocatable); tree-shaped sparse pre-state (target path, one neighbour word per path table, garbage in allocatable frames); recursive index 300; page-table indices (256,0,510,511)"
    //@ obligation C11 C11.recursive_map_to_4kib.shape_p1_absent.target_translates_to_frame tier=thorough bounded="pool of 7 tables (4 path + 3 allocatable); tree-shaped sparse pre-state (target path, one neighbour word per path table, garbage in allocatable frames); recursive index 300; page-table indices (256,0,510,511)"
    //@ obligation C01 C01.recursive_map_to_4kib.shape_p1_absent.target_leaf_flags tier=thorough bounded="pool of 7 tables (4 path + 3 allocatable); tree-shaped sparse pre-state (target path, one neighbour word per path table, garbage in allocatable frames); recursive index 300; page-table indices (256,0,510,511)"
    //@ obligation C11 C11.recursive_map_to_4kib.shape_p1_absent.target_leaf_flags tier=thorough bounded="pool of 7 tables (4 path + 3 allocatable); tree-shaped sparse pre-state (target path, one neighbour word per path table, garbage in allocatable frames); recursive index 300; page-table indices (256,0,510,511)"
    //@ obligation C01 C01.recursive_map_to_4kib.shape_p1_absent.parent_rights_include_requested tier=thorough bounded="pool of 7 tables (4 path + 3 allocatable); tree-shaped sparse pre-state (target path, one neighbour word per path table, garbage in allocatable frames); recursive index 300; page-table indices (256,0,510,511)"
    //@ obligation C01 C01.recursive_map_to_4kib.shape_p1_absent.other_addresses_unchanged tier=thorough bounded="pool of 7 tables (4 path + 3 allocatable); tree-shaped sparse pre-state (target path, one neighbour word per path table, garbage in allocatable frames); recursive index 300; page-table indices (256,0,510,511)"
    //@ obligation C11 C11.recursive_map_to_4kib.shape_p1_absent.other_addresses_unchanged tier=thorough bounded="pool of 7 tables (4 path + 3 allocatable); tree-shaped sparse pre-state (target path, one neighbour word per path table, garbage in allocatable frames); recursive index 300; page-table indices (256,0,510,511)"
    //@ obligation C01 C01.recursive_map_to_4kib.shape_p1_absent.result_reports_page tier=thorough bounded="pool of 7 tables (4 path + 3 allocatable); tree-shaped sparse pre-state (target path, one neighbour word per path table, garbage in allocatable frames); recursive index 300; page-table indices (256,0,510,511)"
    //@ obligation C01 C01.recursive_map_to_4kib.shape_p1_absent.result_reports_frame tier=thorough bounded="pool of 7 tables (4 path + 3 allocatable); tree-shaped sparse pre-state (target path, one neighbour word per path table, garbage in allocatable frames); recursive index 300; page-table indices (256,0,510,511)"
    //@ obligation C11 C11.recursive_map_to_4kib.shape_p1_absent.token_names_page tier=thorough bounded="pool of 7 tables (4 path + 3 allocatable); tree-shaped sparse pre-state (target path, one neighbour word per path table, garbage in allocatable frames); recursive index 300; page-table indices (256,0,510,511)"
    //@ obligation C02 C02.recursive_map_to_4kib.shape_p1_absent.error_leaves_every_mapping tier=thorough bounded="pool of 7 tables (4 path + 3 allocatable); tree-shaped sparse pre-state (target path, one neighbour word per path table, garbage in allocatable frames); recursive index 300; page-table indices (256,0,510,511)"
    //@ obligation C02 C02.recursive_map_to_4kib.shape_p1_absent.error_adds_at_most_parent_flags tier=thorough bounded="pool of 7 tables (4 path + 3 allocatable); tree-shaped sparse pre-state (target path, one neighbour word per path table, garbage in allocatable frames); recursive index 300; page-table indices (256,0,510,511)"
    //@ obligation C02 C02.recursive_map_to_4kib.shape_p1_absent.huge_leaf_unchanged_on_error tier=thorough bounded="pool of 7 tables (4 path + 3 allocatable); tree-shaped sparse pre-state (target path, one neighbour word per path table, garbage in allocatable frames); recursive index 300; page-table indices (256,0,510,511)"
    //@ obligation C09 C09.recursive_map_to_4kib.shape_p1_absent.only_dictated_slots_change tier=thorough bounded="pool of 7 tables (4 path + 3 allocatable); tree-shaped sparse pre-state (target path, one neighbour word per path table, garbage in allocatable frames); recursive index 300; page-table indices (256,0,510,511)"
    //@ obligation C09 C09.recursive_map_to_4kib.shape_p1_absent.allocator_requests tier=thorough bounded="pool of 7 tables (4 path + 3 allocatable); tree-shaped sparse pre-state (target path, one neighbour word per path table, garbage in allocatable frames); recursive index 300; page-table indices (256,0,510,511)"
    //@ obligation C09 C09.recursive_map_to_4kib.shape_p1_absent.new_tables_zeroed_before_use tier=thorough bounded="pool of 7 tables (4 path + 3 allocatable); tree-shaped sparse pre-state (target path, one neighbour word per path table, garbage in allocatable frames); recursive index 300; page-table indices (256,0,510,511)"
    //@ obligation C09 C09.recursive_map_to_4kib.shape_p1_absent.no_dangling_table_pointer tier=thorough bounded="pool of 7 tables (4 path + 3 allocatable); tree-shaped sparse pre-state (target path, one neighbour word per path table, garbage in allocatable frames); recursive index 300; page-table indices (256,0,510,511)"
    //@ obligation C09 C09.recursive_map_to_4kib.shape_p1_absent.no_access_outside_page_tables tier=thorough bounded="pool of 7 tables (4 path + 3 allocatable); tree-shaped sparse pre-state (target path, one neighbour word per path table, garbage in allocatable frames); recursive index 300; page-table indices (256,0,510,511)"
    #[kani::proof]
    #[kani::stub(crate::structures::paging::page_table::PageTable::zero, zero_stub)]
    #[kani::stub(crate::addr::VirtAddr::as_mut_ptr, mmu_trap_as_mut_ptr)]
    fn c01_recursive_map_to_p1_absent_up() {
        rec_map_to_step!("p1_absent", P1_ABSENT, IDX_UP);
        kani::cover!(true, "c01_recursive_map_to_p1_absent_up: reachable");
    }

    //@ obligation C02 C02.recursive_map_to_4kib.shape_p1_leaf.documented_outcome tier=thorough bounded="pool of 7 tables (4 path + 3 allocatable); tree-shaped sparse pre-state (target path, one neighbour word per path table, garbage in allocatable frames); recursive index 300; page-table indices (255,511,0,256)"
    //@ obligation C01 C01.recursive_map_to_4kib.shape_p1_leaf.target_translates_to_frame tier=thorough bounded="pool of 7 tables (4 path + 3 allocatable); tree-shaped sparse pre-state (target path, one neighbour word per path table, garbage in allocatable frames); recursive index 300; page-table indices (255,511,0,256)"
    //@ obligation C11 C11.recursive_map_to_4kib.shape_p1_leaf.target_translates_to_frame tier=thorough bounded="pool of 7 tables (4 path + 3 allocatable); tree-shaped sparse pre-state (target path, one neighbour word per path table, garbage in allocatable frames); recursive index 300; page-table indices (255,511,0,256)"
    //@ obligation C01 C01.recursive_map_to_4kib.shape_p1_leaf.target_leaf_flags tier=thorough bounded="pool of 7 tables (4 path + 3 allocatable); tree-shaped sparse pre-state (target path, one neighbour word per path table, garbage in allocatable frames); recursive index 300; page-table indices (255,511,0,256)"
    //@ obligation C11 C11.recursive_map_to_4kib.shape_p1_leaf.target_leaf_flags tier=thorough bounded="pool of 7 tables (4 path + 3 allocatable); tree-shaped sparse pre-state (target path, one neighbour word per path table, garbage in allocatable frames); recursive index 300; page-table indices (255,511,0,256)"
    //@ obligation C01 C01.recursive_map_to_4kib.shape_p1_leaf.parent_rights_include_requested tier=thorough bounded="pool of 7 tables (4 path + 3 allocatable); tree-shaped sparse pre-state (target path, one neighbour word per path table, garbage in allocatable frames); recursive index 300; page-table indices (255,511,0,256)"
    //@ obligation C01 C01.recursive_map_to_4kib.shape_p1_leaf.other_addresses_unchanged tier=thorough bounded="pool of 7 tables (4 path + 3 allocatable); tree-shaped sparse pre-state (target path, one neighbour word per path table, garbage in allocatable frames); recursive index 300; page-table indices (255,511,0,256)"
    //@ obligation C11 C11.recursive_map_to_4kib.shape_p1_leaf.other_addresses_unchanged tier=thorough bounded="pool of 7 tables (4 path + 3 allocatable); tree-shaped sparse pre-state (target path, one neighbour word per path table, garbage in allocatable frames); recursive index 300; page-table indices (255,511,0,256)"
    //@ obligation C01 C01.recursive_map_to_4kib.shape_p1_leaf.result_reports_page tier=thorough bounded="pool of 7 tables (4 path + 3 allocatable); tree-shaped sparse pre-state (target path, one neighbour word per path table, garbage in allocatable frames); recursive index 300; page-table indices (255,511,0,256)"
    //@ obligation C01 C01.recursive_map_to_4kib.shape_p1_leaf.result_reports_frame tier=thorough bounded="pool of 7 tables (4 path + 3 allocatable); tree-shaped sparse pre-state (target path, one neighbour word per path table, garbage in allocatable frames); recursive index 300; page-table indices (255,511,0,256)"
    //@ obligation C11 C11.recursive_map_to_4kib.shape_p1_leaf.token_names_page tier=thorough bounded="pool of 7 tables (4 path + 3 allocatable); tree-shaped sparse pre-state (target path, one neighbour word per path table, garbage in allocatable frames); recursive index 300; page-table indices (255,511,0,256)"
    //@ obligation C02 C02.recursive_map_to_4kib.shape_p1_leaf.error_leaves_every_mapping tier=thorough bounded="pool of 7 tables (4 path + 3 allocatable); tree-shaped sparse pre-state (target path, one neighbour word per path table, garbage in allocatable frames); recursive index 300; page-table indices (255,511,0,256)"
    //@ obligation C02 C02.recursive_map_to_4kib.shape_p1_leaf.error_adds_at_most_parent_flags tier=thorough bounded="pool of 7 tables (4 path + 3 allocatable); tree-shaped sparse pre-state (target path, one neighbour word per path table, garbage in allocatable frames); recursive index 300; page-table indices (255,511,0,256)"
    //@ obligation C02 C02.recursive_map_to_4kib.shape_p1_leaf.huge_leaf_unchanged_on_error tier=thorough bounded="pool of 7 tables (4 path + 3 allocatable); tree-shaped sparse pre-state (target path, one neighbour word per path table, garbage in allocatable frames); recursive index 300; page-table indices (255,511,0,256)"
    //@ obligation C09 C09.recursive_map_to_4kib.shape_p1_leaf.only_dictated_slots_change tier=thorough bounded="pool of 7 tables (4 path + 3 allocatable); tree-shaped sparse pre-state (target path, one neighbour word per path table, garbage in allocatable frames); recursive index 300; page-table indices (255,511,0,256)"
    //@ obligation C09 C09.recursive_map_to_4kib.shape_p1_leaf.allocator_requests tier=thorough bounded="pool of 7 tables (4 path + 3 allocatable); tree-shaped sparse pre-state (target path, one neighbour word per path table, garbage in allocatable frames); recursive index 300; page-table indices (255,511,0,256)"
    //@ obligation C09 C09.recursive_map_to_4kib.shape_p1_leaf.new_tables_zeroed_before_use tier=thorough bounded="pool of 7 tables (4 path + 3 allocatable); tree-shaped sparse pre-state (target path, one neighbour word per path table, garbage in allocatable frames); recursive index 300; page-table indices (255,511,0,256)"
    //@ obligation C09 C09.recursive_map_to_4kib.shape_p1_leaf.no_dangling_table_pointer tier=thorough bounded="pool of 7 tables (4 path + 3 allocatable); tree-shaped sparse pre-state (target path, one neighbour word per path table, garbage in allocatable frames); recursive index 300; page-table indices (255,511,0,256)"
    //@ obligation C09 C09.recursive_map_to_4kib.shape_p1_leaf.no_access_outside_page_tables tier=thorough bounded="pool of 7 tables (4 path + 3 allocatable); tree-shaped sparse pre-state (target path, one neighbour word per path table, garbage in allocatable frames); recursive index 300; page-table indices (255,511,0,256)"
    #[kani::proof]
    #[kani::stub(crate::structures::paging::page_table::PageTable::zero, zero_stub)]
    #[kani::stub(crate::addr::VirtAddr::as_mut_ptr, mmu_trap_as_mut_ptr)]
    fn c01_recursive_map_to_p1_leaf_mid() {
        rec_map_to_step!("p1_leaf", P1_LEAF, IDX_MID);
        kani::cover!(true, "c01_recursive_map_to_p1_leaf_mid: reachable");
    }

    //@ obligation C02 C02.recursive_map_to_4kib.shape_p1_leaf.documented_outcome tier=thorough bounded="pool of 7 tables (4 path + 3 allocatable); tree-shaped sparse pre-state (target path, one neighbour word per path table, garbage in allocatable frames); recursive index 300; page-table indices (256,0,510,511)"
    //@ obligation C01 C01.recursive_map_to_4kib.shape_p1_leaf.target_translates_to_frame tier=thorough bounded="pool of 7 tables (4 path + 3 allocatable); tree-shaped sparse pre-state (target path, one neighbour word per path table, garbage in allocatable frames); recursive index 300; page-table indices (256,0,510,511)"
    //@ obligation C11 C11.recursive_map_to_4kib.shape_p1_leaf.target_translates_to_frame tier=thorough bounded="pool of 7 tables (4 path + 3 allocatable); tree-shaped sparse pre-state (target path, one neighbour word per path table, garbage in allocatable frames); recursive index 300; page-table indices (256,0,510,511)"
    //@ obligation C01 C01.recursive_map_to_4kib.shape_p1_leaf.target_leaf_flags tier=thorough bounded="pool of 7 tables (4 path + 3 allocatable); tree-shaped sparse pre-state (target path, one neighbour word per path table, garbage in allocatable frames); recursive index 300; page-table indices (256,0,510,511)"
    //@ obligation C11 C11.recursive_map_to_4kib.shape_p1_leaf.target_leaf_flags tier=thorough bounded="pool of 7 tables (4 path + 3 allocatable); tree-shaped sparse pre-state (target path, one neighbour word per path table, garbage in allocatable frames); recursive index 300; page-table indices (256,0,510,511)"
    //@ obligation C01 C01.recursive_map_to_4kib.shape_p1_leaf.parent_rights_include_requested tier=thorough bounded="pool of 7 tables (4 path + 3 allocatable); tree-shaped sparse pre-state (target path, one neighbour word per path table, garbage in allocatable frames); recursive index 300; page-table indices (256,0,510,511)"
    //@ obligation C01 C01.recursive_map_to_4kib.shape_p1_leaf.other_addresses_unchanged tier=thorough bounded="pool of 7 tables (4 path + 3 allocatable); tree-shaped sparse pre-state (target path, one neighbour word per path table, garbage in allocatable frames); recursive index 300; page-table indices (256,0,510,511)"
    //@ obligation C11 C11.recursive_map_to_4kib.shape_p1_leaf.other_addresses_unchanged tier=thorough bounded="pool of 7 tables (4 path + 3 allocatable); tree-shaped sparse pre-state (target path, one neighbour word per path table, garbage in allocatable frames); recursive index 300; page-table indices (256,0,510,511)"
    //@ obligation C01 C01.recursive_map_to_4kib.shape_p1_leaf.result_reports_page tier=thorough bounded="pool of 7 tables (4 path + 3 allocatable); tree-shaped sparse pre-state (target path, one neighbour word per path table, garbage in allocatable frames); recursive index 300; page-table indices (256,0,510,511)"
    //@ obligation C01 C01.recursive_map_to_4kib.shape_p1_leaf.result_reports_frame tier=thorough bounded="pool of 7 tables (4 path + 3 allocatable); tree-shaped sparse pre-state (target path, one neighbour word per path table, garbage in allocatable frames); recursive index 300; page-table indices (256,0,510,511)"
    //@ obligation C11 C11.recursive_map_to_4kib.shape_p1_leaf.token_names_page tier=thorough bounded="pool of 7 tables (4 path + 3 allocatable); tree-shaped sparse pre-state (target path, one neighbour word per path table, garbage in allocatable frames); recursive index 300; page-table indices (256,0,510,511)"
    //@ obligation C02 C02.recursive_map_to_4kib.shape_p1_leaf.error_leaves_every_mapping tier=thorough bounded="pool of 7 tables (4 path + 3 allocatable); tree-shaped sparse pre-state (target path, one neighbour word per path table, garbage in allocatable frames); recursive index 300; page-table indices (256,0,510,511)"
    //@ obligation C02 C02.recursive_map_to_4kib.shape_p1_leaf.error_adds_at_most_parent_flags tier=thorough bounded="pool of 7 tables (4 path + 3 allocatable); tree-shaped sparse pre-state (target path, one neighbour word per path table, garbage in allocatable frames); recursive index 300; page-table indices (256,0,510,511)"
    //@ obligation C02 C02.recursive_map_to_4kib.shape_p1_leaf.huge_leaf_unchanged_on_error tier=thorough bounded="pool of 7 tables (4 path + 3 allocatable); tree-shaped sparse pre-state (target path, one neighbour word per path table, garbage in allocatable frames); recursive index 300; page-table indices (256,0,510,511)"
    //@ obligation C09 C09.recursive_map_to_4kib.shape_p1_leaf.only_dictated_slots_change tier=thorough bounded="pool of 7 tables (4 path + 3 allocatable); tree-shaped sparse pre-state (target path, one neighbour word per path table, garbage in allocatable frames); recursive index 300; page-table indices (256,0,510,511)"
    //@ obligation C09 C09.recursive_map_to_4kib.shape_p1_leaf.allocator_requests tier=thorough bounded="pool of 7 tables (4 path + 3 allocatable); tree-shaped sparse pre-state (target path, one neighbour word per path table, garbage in allocatable frames); recursive index 300; page-table indices (256,0,510,511)"
    //@ obligation C09 C09.recursive_map_to_4kib.shape_p1_leaf.new_tables_zeroed_before_use tier=thorough bounded="pool of 7 tables (4 path + 3 allocatable); tree-shaped sparse pre-state (target path, one neighbour word per path table, garbage in allocatable frames); recursive index 300; page-table indices (256,0,510,511)"
    //@ obligation C09 C09.recursive_map_to_4kib.shape_p1_leaf.no_dangling_table_pointer tier=thorough bounded="pool of 7 tables (4 path + 3 allocatable); tree-shaped sparse pre-state (target path, one neighbour word per path table, garbage in allocatable frames); recursive index 300; page-table indices (256,0,510,511)"
    //@ obligation C09 C09.recursive_map_to_4kib.shape_p1_leaf.no_access_outside_page_tables tier=thorough bounded="pool of 7 tables (4 path + 3 allocatable); tree-shaped sparse pre-state (target path, one neighbour word per path table, garbage in allocatable frames); recursive index 300; page-table indices (256,0,510,511)"
    #[kani::proof]
    #[kani::stub(crate::structures::paging::page_table::PageTable::zero, zero_stub)]
    #[kani::stub(crate::addr::VirtAddr::as_mut_ptr, mmu_trap_as_mut_ptr)]
    fn c01_recursive_map_to_p1_leaf_up() {
        rec_map_to_step!("p1_leaf", P1_LEAF, IDX_UP);
        kani::cover!(true, "c01_recursive_map_to_p1_leaf_up: reachable");
    }

    //@ obligation C02 C02.recursive_unmap_4kib.shape_p4_absent.huge_parent_is_reported_not_walked tier=thorough bounded="pool of 7 tables (4 path + 3 allocatable); tree-shaped sparse pre-state (target path, one neighbour word per path table, garbage in allocatable frames); recursive index 300; page-table indices (255,511,0,256)"
    //@ obligation C02 C02.recursive_unmap_4kib.shape_p4_absent.documented_outcome tier=thorough bounded="pool of 7 tables (4 path + 3 allocatable); tree-shaped sparse pre-state (target path, one neighbour word per path table, garbage in allocatable frames); recursive index 300; page-table indices (255,511,0,256)"
    //@ obligation C01 C01.recursive_unmap_4kib.shape_p4_absent.reports_mapped_frame tier=thorough bounded="pool of 7 tables (4 path + 3 allocatable); tree-shaped sparse pre-state (target path, one neighbour word per path table, garbage in allocatable frames); recursive index 300; page-table indices (255,511,0,256)"
    //@ obligation C11 C11.recursive_unmap_4kib.shape_p4_absent.token_names_page tier=thorough bounded="pool of 7 tables (4 path + 3 allocatable); tree-shaped sparse pre-state (target path, one neighbour word per path table, garbage in allocatable frames); recursive index 300; page-table indices (255,511,0,256)"
    //@ obligation C01 C01.recursive_unmap_4kib.shape_p4_absent.target_after tier=thorough bounded="pool of 7 tables (4 path + 3 allocatable); tree-shaped sparse pre-state (target path, one neighbour word per path table, garbage in allocatable frames); recursive index 300; page-table indices (255,511,0,256)"
    //@ obligation C11 C11.recursive_unmap_4kib.shape_p4_absent.target_after tier=thorough bounded="pool of 7 tables (4 path + 3 allocatable); tree-shaped sparse pre-state (target path, one neighbour word per path table, garbage in allocatable frames); recursive index 300; page-table indices (255,511,0,256)"
    //@ obligation C01 C01.recursive_unmap_4kib.shape_p4_absent.other_addresses_unchanged tier=thorough bounded="pool of 7 tables (4 path + 3 allocatable); tree-shaped sparse pre-state (target path, one neighbour word per path table, garbage in allocatable frames); recursive index 300; page-table indices (255,511,0,256)"
    //@ obligation C11 C11.recursive_unmap_4kib.shape_p4_absent.other_addresses_unchanged tier=thorough bounded="pool of 7 tables (4 path + 3 allocatable); tree-shaped sparse pre-state (target path, one neighbour word per path table, garbage in allocatable frames); recursive index 300; page-table indices (255,511,0,256)"
    //@ obligation C02 C02.recursive_unmap_4kib.shape_p4_absent.error_leaves_every_mapping tier=thorough bounded="pool of 7 tables (4 path + 3 allocatable); tree-shaped sparse pre-state (target path, one neighbour word per path table, garbage in allocatable frames); recursive index 300; page-table indices (255,511,0,256)"
    //@ obligation C09 C09.recursive_unmap_4kib.shape_p4_absent.only_dictated_slots_change tier=thorough bounded="pool of 7 tables (4 path + 3 allocatable); tree-shaped sparse pre-state (target path, one neighbour word per path table, garbage in allocatable frames); recursive index 300; page-table indices (255,511,0,256)"
    //@ obligation C09 C09.recursive_unmap_4kib.shape_p4_absent.no_frames_requested_or_zeroed tier=thorough bounded="pool of 7 tables (4 path + 3 allocatable); tree-shaped sparse pre-state (target path, one neighbour word per path table, garbage in allocatable frames); recursive index 300; page-table indices (255,511,0,256)"
    //@ obligation C09 C09.recursive_unmap_4kib.shape_p4_absent.no_dangling_table_pointer tier=thorough bounded="pool of 7 tables (4 path + 3 allocatable); tree-shaped sparse pre-state (target path, one neighbour word per path table, garbage in allocatable frames); recursive index 300; page-table indices (255,511,0,256)"
    //@ obligation C09 C09.recursive_unmap_4kib.shape_p4_absent.no_access_outside_page_tables tier=thorough bounded="pool of 7 tables (4 path + 3 allocatable); tree-shaped sparse pre-state (target path, one neighbour word per path table, garbage in allocatable frames); recursive index 300; page-table indices (255,511,0,256)"
    #[kani::proof]
    #[kani::stub(crate::structures::paging::page_table::PageTable::zero, zero_stub)]
    #[kani::stub(crate::addr::VirtAddr::as_mut_ptr, mmu_trap_as_mut_ptr)]
    fn c01_recursive_unmap_p4_absent_mid() {
        rec_leaf_op_step!("unmap", 0, "p4_absent", P4_ABSENT, IDX_MID);
        kani::cover!(true, "c01_recursive_unmap_p4_absent_mid: reachable");
    }

    //@ obligation C02 C02.recursive_unmap_4kib.shape_p4_absent.huge_parent_is_reported_not_walked bounded="pool of 7 tables (4 path + 3 allocatable); tree-shaped sparse pre-state (target path, one neighbour word per path table, garbage in allocatable frames); recursive index 300; page-table indices (256,0,510,511)"
    //@ obligation C02 C02.recursive_unmap_4kib.shape_p4_absent.documented_outcome bounded="pool of 7 tables (4 path + 3 allocatable); tree-shaped sparse pre-state (target path, one neighbour word per path table, garbage in allocatable frames); recursive index 300; page-table indices (256,0,510,511)"
    //@ obligation C01 C01.recursive_unmap_4kib.shape_p4_absent.reports_mapped_frame bounded="pool of 7 tables (4 path + 3 allocatable); tree-shaped sparse pre-state (target path, one neighbour word per path table, garbage in allocatable frames); recursive index 300; page-table indices (256,0,510,511)"
    //@ obligation C11 C11.recursive_unmap_4kib.shape_p4_absent.token_names_page bounded="pool of 7 tables (4 path + 3 allocatable); tree-shaped sparse pre-state (target path, one neighbour word per path table, garbage in allocatable frames); recursive index 300; page-table indices (256,0,510,511)"
    //@ obligation C01 C01.recursive_unmap_4kib.shape_p4_absent.target_after bounded="pool of 7 tables (4 path + 3 allocatable); tree-shaped sparse pre-state (target path, one neighbour word per path table, garbage in allocatable frames); recursive index 300; page-table indices (256,0,510,511)"
    //@ obligation C11 C11.recursive_unmap_4kib.shape_p4_absent.target_after bounded="pool of 7 tables (4 path + 3 allocatable); tree-shaped sparse pre-state (target path, one neighbour word per path table, garbage in allocatable frames); recursive index 300; page-table indices (256,0,510,511)"
    //@ obligation C01 C01.recursive_unmap_4kib.shape_p4_absent.other_addresses_unchanged bounded="pool of 7 tables (4 path + 3 allocatable); tree-shaped sparse pre-state (target path, one neighbour word per path table, garbage in allocatable frames); recursive index 300; page-table indices (256,0,510,511)"
    //@ obligation C11 C11.recursive_unmap_4kib.shape_p4_absent.other_addresses_unchanged bounded="pool of 7 tables (4 path + 3 allocatable); tree-shaped sparse pre-state (target path, one neighbour word per path table, garbage in allocatable frames); recursive index 300; page-table indices (256,0,510,511)"
    //@ obligation C02 C02.recursive_unmap_4kib.shape_p4_absent.error_leaves_every_mapping bounded="pool of 7 tables (4 path + 3 allocatable); tree-shaped sparse pre-state (target path, one neighbour word per path table, garbage in allocatable frames); recursive index 300; page-table indices (256,0,510,511)"
    //@ obligation C09 C09.recursive_unmap_4kib.shape_p4_absent.only_dictated_slots_change bounded="pool of 7 tables (4 path + 3 allocatable); tree-shaped sparse pre-state (target path, one neighbour word per path table, garbage in allocatable frames); recursive index 300; page-table indices (256,0,510,511)"
    //@ obligation C09 C09.recursive_unmap_4kib.shape_p4_absent.no_frames_requested_or_zeroed bounded="pool of 7 tables (4 path + 3 allocatable); tree-shaped sparse pre-state (target path, one neighbour word per path table, garbage in allocatable frames); recursive index 300; page-table indices (256,0,510,511)"
    //@ obligation C09 C09.recursive_unmap_4kib.shape_p4_absent.no_dangling_table_pointer bounded="pool of 7 tables (4 path + 3 allocatable); tree-shaped sparse pre-state (target path, one neighbour word per path table, garbage in allocatable frames); recursive index 300; page-table indices (256,0,510,511)"
    //@ obligation C09 C09.recursive_unmap_4kib.shape_p4_absent.no_access_outside_page_tables bounded="pool of 7 tables (4 path + 3 allocatable); tree-shaped sparse pre-state (target path, one neighbour word per path table, garbage in allocatable frames); recursive index 300; page-table indices (256,0,510,511)"
    #[kani::proof]
    #[kani::stub(crate::structures::paging::page_table::PageTable::zero, zero_stub)]
    #[kani::stub(crate::addr::VirtAddr::as_mut_ptr, mmu_trap_as_mut_ptr)]
    fn c01_recursive_unmap_p4_absent_up() {
        rec_leaf_op_step!("unmap", 0, "p4_absent", P4_ABSENT, IDX_UP);
        kani::cover!(true, "c01_recursive_unmap_p4_absent_up: reachable");
    }

    //@ obligation C02 C02.recursive_unmap_4kib.shape_p3_absent.huge_parent_is_reported_not_walked bounded="pool of 7 tables (4 path + 3 allocatable); tree-shaped sparse pre-state (target path, one neighbour word per path table, garbage in allocatable frames); recursive index 300; page-table indices (255,511,0,256)"
    //@ obligation C02 C02.recursive_unmap_4kib.shape_p3_absent.documented_outcome bounded="pool of 7 tables (4 path + 3 allocatable); tree-shaped sparse pre-state (target path, one neighbour word per path table, garbage in allocatable frames); recursive index 300; page-table indices (255,511,0,256)"
    //@ obligation C01 C01.recursive_unmap_4kib.shape_p3_absent.reports_mapped_frame bounded="pool of 7 tables (4 path + 3 allocatable); tree-shaped sparse pre-state (target path, one neighbour word per path table, garbage in allocatable frames); recursive index 300; page-table indices (255,511,0,256)"
    //@ obligation C11 C11.recursive_unmap_4kib.shape_p3_absent.token_names_page bounded="pool of 7 tables (4 path + 3 allocatable); tree-shaped sparse pre-state (target path, one neighbour word per path table, garbage in allocatable frames); recursive index 300; page-table indices (255,511,0,256)"
    //@ obligation C01 C01.recursive_unmap_4kib.shape_p3_absent.target_after bounded="pool of 7 tables (4 path + 3 allocatable); tree-shaped sparse pre-state (target path, one neighbour word per path table, garbage in allocatable frames); recursive index 300; page-table indices (255,511,0,256)"
    //@ obligation C11 C11.recursive_unmap_4kib.shape_p3_absent.target_after bounded="pool of 7 tables (4 path + 3 allocatable); tree-shaped sparse pre-state (target path, one neighbour word per path table, garbage in allocatable frames); recursive index 300; page-table indices (255,511,0,256)"
    //@ obligation C01 C01.recursive_unmap_4kib.shape_p3_absent.other_addresses_unchanged bounded="pool of 7 tables (4 path + 3 allocatable); tree-shaped sparse pre-state (target path, one neighbour word per path table, garbage in allocatable frames); recursive index 300; page-table indices (255,511,0,256)"
    //@ obligation C11 C11.recursive_unmap_4kib.shape_p3_absent.other_addresses_unchanged bounded="pool of 7 tables (4 path + 3 allocatable); tree-shaped sparse pre-state (target path, one neighbour word per path table, garbage in allocatable frames); recursive index 300; page-table indices (255,511,0,256)"
    //@ obligation C02 C02.recursive_unmap_4kib.shape_p3_absent.error_leaves_every_mapping bounded="pool of 7 tables (4 path + 3 allocatable); tree-shaped sparse pre-state (target path, one neighbour word per path table, garbage in allocatable frames); recursive index 300; page-table indices (255,511,0,256)"
    //@ obligation C09 C09.recursive_unmap_4kib.shape_p3_absent.only_dictated_slots_change bounded="pool of 7 tables (4 path + 3 allocatable); tree-shaped sparse pre-state (target path, one neighbour word per path table, garbage in allocatable frames); recursive index 300; page-table indices (255,511,0,256)"
    //@ obligation C09 C09.recursive_unmap_4kib.shape_p3_absent.no_frames_requested_or_zeroed bounded="pool of 7 tables (4 path + 3 allocatable); tree-shaped sparse pre-state (target path, one neighbour word per path table, garbage in allocatable frames); recursive index 300; page-table indices (255,511,0,256)"
    //@ obligation C09 C09.recursive_unmap_4kib.shape_p3_absent.no_dangling_table_pointer bounded="pool of 7 tables (4 path + 3 allocatable); tree-shaped sparse pre-state (target path, one neighbour word per path table, garbage in allocatable frames); recursive index 300; page-table indices (255,511,0,256)"
    //@ obligation C09 C09.recursive_unmap_4kib.shape_p3_absent.no_access_outside_page_tables bounded="pool of 7 tables (4 path + 3 allocatable); tree-shaped sparse pre-state (target path, one neighbour word per path table, garbage in allocatable frames); recursive index 300; page-table indices (255,511,0,256)"
    #[kani::proof]
    #[kani::stub(crate::structures::paging::page_table::PageTable::zero, zero_stub)]
    #[kani::stub(crate::addr::VirtAddr::as_mut_ptr, mmu_trap_as_mut_ptr)]
    fn c01_recursive_unmap_p3_absent_mid() {
        rec_leaf_op_step!("unmap", 0, "p3_absent", P3_ABSENT, IDX_MID);
        kani::cover!(true, "c01_recursive_unmap_p3_absent_mid: reachable");
    }

    //@ obligation C02 C02.recursive_unmap_4kib.shape_p3_absent.huge_parent_is_reported_not_walked tier=thorough bounded="pool of 7 tables (4 path + 3 allocatable); tree-shaped sparse pre-state (target path, one neighbour word per path table, garbage in allocatable frames); recursive index 300; page-table indices (256,0,510,511)"
    //@ obligation C02 C02.recursive_unmap_4kib.shape_p3_absent.documented_outcome tier=thorough bounded="pool of 7 tables (4 path + 3 allocatable); tree-shaped sparse pre-state (target path, one neighbour word per path table, garbage in allocatable frames); recursive index 300; page-table indices (256,0,510,511)"
    //@ obligation C01 C01.recursive_unmap_4kib.shape_p3_absent.reports_mapped_frame tier=thorough bounded="pool of 7 tables (4 path + 3 allocatable); tree-shaped sparse pre-state (target path, one neighbour word per path table, garbage in allocatable frames); recursive index 300; page-table indices (256,0,510,511)"
    //@ obligation C11 C11.recursive_unmap_4kib.shape_p3_absent.token_names_page tier=thorough bounded="pool of 7 tables (4 path + 3 allocatable); tree-shaped sparse pre-state (target path, one neighbour word per path table, garbage in allocatable frames); recursive index 300; page-table indices (256,0,510,511)"
    //@ obligation C01 C01.recursive_unmap_4kib.shape_p3_absent.target_after tier=thorough bounded="pool of 7 tables (4 path + 3 allocatable); tree-shaped sparse pre-state (target path, one neighbour word per path table, garbage in allocatable frames); recursive index 300; page-table indices (256,0,510,511)"
    //@ obligation C11 C11.recursive_unmap_4kib.shape_p3_absent.target_after tier=thorough bounded="pool of 7 tables (4 path + 3 allocatable); tree-shaped sparse pre-state (target path, one neighbour word per path table, garbage in allocatable frames); recursive index 300; page-table indices (256,0,510,511)"
    //@ obligation C01 C01.recursive_unmap_4kib.shape_p3_absent.other_addresses_unchanged tier=thorough bounded="pool of 7 tables (4 path + 3 allocatable); tree-shaped sparse pre-state (target path, one neighbour word per path table, garbage in allocatable frames); recursive index 300; page-table indices (256,0,510,511)"
    //@ obligation C11 C11.recursive_unmap_4kib.shape_p3_absent.other_addresses_unchanged tier=thorough bounded="pool of 7 tables (4 path + 3 allocatable); tree-shaped sparse pre-state (target path, one neighbour word per path table, garbage in allocatable frames); recursive index 300; page-table indices (256,0,510,511)"
    //@ obligation C02 C02.recursive_unmap_4kib.shape_p3_absent.error_leaves_every_mapping tier=thorough bounded="pool of 7 tables (4 path + 3 allocatable); tree-shaped sparse pre-state (target path, one neighbour word per path table, garbage in allocatable frames); recursive index 300; page-table indices (256,0,510,511)"
    //@ obligation C09 C09.recursive_unmap_4kib.shape_p3_absent.only_dictated_slots_change tier=thorough bounded="pool of 7 tables (4 path + 3 allocatable); tree-shaped sparse pre-state (target path, one neighbour word per path table, garbage in allocatable frames); recursive index 300; page-table indices (256,0,510,511)"
    //@ obligation C09 C09.recursive_unmap_4kib.shape_p3_absent.no_frames_requested_or_zeroed tier=thorough bounded="pool of 7 tables (4 path + 3 allocatable); tree-shaped sparse pre-state (target path, one neighbour word per path table, garbage in allocatable frames); recursive index 300; page-table indices (256,0,510,511)"
    //@ obligation C09 C09.recursive_unmap_4kib.shape_p3_absent.no_dangling_table_pointer tier=thorough bounded="pool of 7 tables (4 path + 3 allocatable); tree-shaped sparse pre-state (target path, one neighbour word per path table, garbage in allocatable frames); recursive index 300; page-table indices (256,0,510,511)"
    //@ obligation C09 C09.recursive_unmap_4kib.shape_p3_absent.no_access_outside_page_tables tier=thorough bounded="pool of 7 tables (4 path + 3 allocatable); tree-shaped sparse pre-state (target path, one neighbour word per path table, garbage in allocatable frames); recursive index 300; page-table indices (256,0,510,511)"
    #[kani::proof]
    #[kani::stub(crate::structures::paging::page_table::PageTable::zero, zero_stub)]
    #[kani::stub(crate::addr::VirtAddr::as_mut_ptr, mmu_trap_as_mut_ptr)]
    fn c01_recursive_unmap_p3_absent_up() {
        rec_leaf_op_step!("unmap", 0, "p3_absent", P3_ABSENT, IDX_UP);
        kani::cover!(true, "c01_recursive_unmap_p3_absent_up: reachable");
    }

    //@ obligation C02 C02.recursive_unmap_4kib.shape_p3_huge.huge_parent_is_reported_not_walked bounded="pool of 7 tables (4 path + 3 allocatable); tree-shaped sparse pre-state (target path, one neighbour word per path table, garbage in allocatable frames); recursive index 300; page-table indices (255,511,0,256)"
    //@ obligation C02 C02.recursive_unmap_4kib.shape_p3_huge.documented_outcome bounded="pool of 7 tables (4 path + 3 allocatable); tree-shaped sparse pre-state (target path, one neighbour word per path table, garbage in allocatable frames); recursive index 300; page-table indices (255,511,0,256)"
    //@ obligation C01 C01.recursive_unmap_4kib.shape_p3_huge.reports_mapped_frame bounded="pool of 7 tables (4 path + 3 allocatable); tree-shaped sparse pre-state (target path, one neighbour word per path table, garbage in allocatable frames); recursive index 300; page-table indices (255,511,0,256)"
    //@ obligation C11 C11.recursive_unmap_4kib.shape_p3_huge.token_names_page bounded="pool of 7 tables (4 path + 3 allocatable); tree-shaped sparse pre-state (target path, one neighbour word per path table, garbage in allocatable frames); recursive index 300; page-table indices (255,511,0,256)"
    //@ obligation C01 C01.recursive_unmap_4kib.shape_p3_huge.target_after bounded="pool of 7 tables (4 path + 3 allocatable); tree-shaped sparse pre-state (target path, one neighbour word per path table, garbage in allocatable frames); recursive index 300; page-table indices (255,511,0,256)"
    //@ obligation C11 C11.recursive_unmap_4kib.shape_p3_huge.target_after bounded="pool of 7 tables (4 path + 3 allocatable); tree-shaped sparse pre-state (target path, one neighbour word per path table, garbage in allocatable frames); recursive index 300; page-table indices (255,511,0,256)"
    //@ obligation C01 C01.recursive_unmap_4kib.shape_p3_huge.other_addresses_unchanged bounded="pool of 7 tables (4 path + 3 allocatable); tree-shaped sparse pre-state (target path, one neighbour word per path table, garbage in allocatable frames); recursive index 300; page-table indices (255,511,0,256)"
    //@ obligation C11 C11.recursive_unmap_4kib.shape_p3_huge.other_addresses_unchanged bounded="pool of 7 tables (4 path + 3 allocatable); tree-shaped sparse pre-state (target path, one neighbour word per path table, garbage in allocatable frames); recursive index 300; page-table indices (255,511,0,256)"
    //@ obligation C02 C02.recursive_unmap_4kib.shape_p3_huge.error_leaves_every_mapping bounded="pool of 7 tables (4 path + 3 allocatable); tree-shaped sparse pre-state (target path, one neighbour word per path table, garbage in allocatable frames); recursive index 300; page-table indices (255,511,0,256)"
    //@ obligation C09 C09.recursive_unmap_4kib.shape_p3_huge.only_dictated_slots_change bounded="pool of 7 tables (4 path + 3 allocatable); tree-shaped sparse pre-state (target path, one neighbour word per path table, garbage in allocatable frames); recursive index 300; page-table indices (255,511,0,256)"
    //@ obligation C09 C09.recursive_unmap_4kib.shape_p3_huge.no_frames_requested_or_zeroed bounded="pool of 7 tables (4 path + 3 allocatable); tree-shaped sparse pre-state (target path, one neighbour word per path table, garbage in allocatable frames); recursive index 300; page-table indices (255,511,0,256)"
    //@ obligation C09 C09.recursive_unmap_4kib.shape_p3_huge.no_dangling_table_pointer bounded="pool of 7 tables (4 path + 3 allocatable); tree-shaped sparse pre-state (target path, one neighbour word per path table, garbage in allocatable frames); recursive index 300; page-table indices (255,511,0,256)"
    //@ obligation C09 C09.recursive_unmap_4kib.shape_p3_huge.no_access_outside_page_tables bounded="pool of 7 tables (4 path + 3 allocatable); tree-shaped sparse pre-state (target path, one neighbour word per path table, garbage in allocatable frames); recursive index 300; page-table indices (255,511,0,256)"
    #[kani::proof]
    #[kani::stub(crate::structures::paging::page_table::PageTable::zero, zero_stub)]
    #[kani::stub(crate::addr::VirtAddr::as_mut_ptr, mmu_trap_as_mut_ptr)]
    fn c01_recursive_unmap_p3_huge_mid() {
        rec_leaf_op_step!("unmap", 0, "p3_huge", P3_HUGE, IDX_MID);
        kani::cover!(true, "c01_recursive_unmap_p3_huge_mid: reachable");
    }

    //@ obligation C02 C02.recursive_unmap_4kib.shape_p3_huge.huge_parent_is_reported_not_walked tier=thorough bounded="pool of 7 tables (4 path + 3 allocatable); tree-shaped sparse pre-state (target path, one neighbour word per path table, garbage in allocatable frames); recursive index 300; page-table indices (256,0,510,511)"
    //@ obligation C02 C02.recursive_unmap_4kib.shape_p3_huge.documented_outcome tier=thorough bounded="pool of 7 tables (4 path + 3 allocatable); tree-shaped sparse pre-state (target path, one neighbour word per path table, garbage in allocatable frames); recursive index 300; page-table indices (256,0,510,511)"
    //@ obligation C01 C01.recursive_unmap_4kib.shape_p3_huge.reports_mapped_frame tier=thorough bounded="pool of 7 tables (4 path + 3 allocatable); tree-shaped sparse pre-state (target path, one neighbour word per path table, garbage in allocatable frames); recursive index 300; page-table indices (256,0,510,511)"
    //@ obligation C11 C11.recursive_unmap_4kib.shape_p3_huge.token_names_page tier=thorough bounded="pool of 7 tables (4 path + 3 allocatable); tree-shaped sparse pre-state (target path, one neighbour word per path table, garbage in allocatable frames); recursive index 300; page-table indices (256,0,510,511)"
    //@ obligation C01 C01.recursive_unmap_4kib.shape_p3_huge.target_after tier=thorough bounded="pool of 7 tables (4 path + 3 allocatable); tree-shaped sparse pre-state (target path, one neighbour word per path table, garbage in allocatable frames); recursive index 300; page-table indices (256,0,510,511)"
    //@ obligation C11 C11.recursive_unmap_4kib.shape_p3_huge.target_after tier=thorough bounded="pool of 7 tables (4 path + 3 allocatable); tree-shaped sparse pre-state (target path, one neighbour word per path table, garbage in allocatable frames); recursive index 300; page-table indices (256,0,510,511)"
    //@ obligation C01 C01.recursive_unmap_4kib.shape_p3_huge.other_addresses_unchanged tier=thorough bounded="pool of 7 tables (4 path + 3 allocatable); tree-shaped sparse pre-state (target path, one neighbour word per path table, garbage in allocatable frames); recursive index 300; page-table indices (256,0,510,511)"
    //@ obligation C11 C11.recursive_unmap_4kib.shape_p3_huge.other_addresses_unchanged tier=thorough bounded="pool of 7 tables (4 path + 3 allocatable); tree-shaped sparse pre-state (target path, one neighbour word per path table, garbage in allocatable frames); recursive index 300; page-table indices (256,0,510,511)"
    //@ obligation C02 C02.recursive_unmap_4kib.shape_p3_huge.error_leaves_every_mapping tier=thorough bounded="pool of 7 tables (4 path + 3 allocatable); tree-shaped sparse pre-state (target path, one neighbour word per path table, garbage in allocatable frames); recursive index 300; page-table indices (256,0,510,511)"
    //@ obligation C09 C09.recursive_unmap_4kib.shape_p3_huge.only_dictated_slots_change tier=thorough bounded="pool of 7 tables (4 path + 3 allocatable); tree-shaped sparse pre-state (target path, one neighbour word per path table, garbage in allocatable frames); recursive index 300; page-table indices (256,0,510,511)"
    //@ obligation C09 C09.recursive_unmap_4kib.shape_p3_huge.no_frames_requested_or_zeroed tier=thorough bounded="pool of 7 tables (4 path + 3 allocatable); tree-shaped sparse pre-state (target path, one neighbour word per path table, garbage in allocatable frames); recursive index 300; page-table indices (256,0,510,511)"
    //@ obligation C09 C09.recursive_unmap_4kib.shape_p3_huge.no_dangling_table_pointer tier=thorough bounded="pool of 7 tables (4 path + 3 allocatable); tree-shaped sparse pre-state (target path, one neighbour word per path table, garbage in allocatable frames); recursive index 300; page-table indices (256,0,510,511)"
    //@ obligation C09 C09.recursive_unmap_4kib.shape_p3_huge.no_access_outside_page_tables tier=thorough bounded="pool of 7 tables (4 path + 3 allocatable); tree-shaped sparse pre-state (target path, one neighbour word per path table, garbage in allocatable frames); recursive index 300; page-table indices (256,0,510,511)"
    #[kani::proof]
    #[kani::stub(crate::structures::paging::page_table::PageTable::zero, zero_stub)]
    #[kani::stub(crate::addr::VirtAddr::as_mut_ptr, mmu_trap_as_mut_ptr)]
    fn c01_recursive_unmap_p3_huge_up() {
        rec_leaf_op_step!("unmap", 0, "p3_huge", P3_HUGE, IDX_UP);
        kani::cover!(true, "c01_recursive_unmap_p3_huge_up: reachable");
    }

    //@ obligation C02 C02.recursive_unmap_4kib.shape_p2_absent.huge_parent_is_reported_not_walked tier=thorough bounded="pool of 7 tables (4 path + 3 allocatable); tree-shaped sparse pre-state (target path, one neighbour word per path table, garbage in allocatable frames); recursive index 300; page-table indices (255,511,0,256)"
    //@ obligation C02 C02.recursive_unmap_4kib.shape_p2_absent.documented_outcome tier=thorough bounded="pool of 7 tables (4 path + 3 allocatable); tree-shaped sparse pre-state (target path, one neighbour word per path table, garbage in allocatable frames); recursive index 300; page-table indices (255,511,0,256)"
    //@ obligation C01 C01.recursive_unmap_4kib.shape_p2_absent.reports_mapped_frame tier=thorough bounded="pool of 7 tables (4 path + 3 allocatable); tree-shaped sparse pre-state (target path, one neighbour word per path table, garbage in allocatable frames); recursive index 300; page-table indices (255,511,0,256)"
    //@ obligation C11 C11.recursive_unmap_4kib.shape_p2_absent.token_names_page tier=thorough bounded="pool of 7 tables (4 path + 3 allocatable); tree-shaped sparse pre-state (target path, one neighbour word per path table, garbage in allocatable frames); recursive index 300; page-table indices (255,511,0,256)"
    //@ obligation C01 C01.recursive_unmap_4kib.shape_p2_absent.target_after tier=thorough bounded="pool of 7 tables (4 path + 3 allocatable); tree-shaped sparse pre-state (target path, one neighbour word per path table, garbage in allocatable frames); recursive index 300; page-table indices (255,511,0,256)"
    //@ obligation C11 C11.recursive_unmap_4kib.shape_p2_absent.target_after tier=thorough bounded="pool of 7 tables (4 path + 3 allocatable); tree-shaped sparse pre-state (target path, one neighbour word per path table, garbage in allocatable frames); recursive index 300; page-table indices (255,511,0,256)"
    //@ obligation C01 C01.recursive_unmap_4kib.shape_p2_absent.other_addresses_unchanged tier=thorough bounded="pool of 7 tables (4 path + 3 allocatable); tree-shaped sparse pre-state (target path, one neighbour word per path table, garbage in allocatable frames); recursive index 300; page-table indices (255,511,0,256)"
    //@ obligation C11 C11.recursive_unmap_4kib.shape_p2_absent.other_addresses_unchanged tier=thorough bounded="pool of 7 tables (4 path + 3 allocatable); tree-shaped sparse pre-state (target path, one neighbour word per path table, garbage in allocatable frames); recursive index 300; page-table indices (255,511,0,256)"
    //@ obligation C02 C02.recursive_unmap_4kib.shape_p2_absent.error_leaves_every_mapping tier=thorough bounded="pool of 7 tables (4 path + 3 allocatable); tree-shaped sparse pre-state (target path, one neighbour word per path table, garbage in allocatable frames); recursive index 300; page-table indices (255,511,0,256)"
    //@ obligation C09 C09.recursive_unmap_4kib.shape_p2_absent.only_dictated_slots_change tier=thorough bounded="pool of 7 tables (4 path + 3 allocatable); tree-shaped sparse pre-state (target path, one neighbour word per path table, garbage in allocatable frames); recursive index 300; page-table indices (255,511,0,256)"
    //@ obligation C09 C09.recursive_unmap_4kib.shape_p2_absent.no_frames_requested_or_zeroed tier=thorough bounded="pool of 7 tables (4 path + 3 allocatable); tree-shaped sparse pre-state (target path, one neighbour word per path table, garbage in allocatable frames); recursive index 300; page-table indices (255,511,0,256)"
    //@ obligation C09 C09.recursive_unmap_4kib.shape_p2_absent.no_dangling_table_pointer tier=thorough bounded="pool of 7 tables (4 path + 3 allocatable); tree-shaped sparse pre-state (target path, one neighbour word per path table, garbage in allocatable frames); recursive index 300; page-table indices (255,511,0,256)"
    //@ obligation C09 C09.recursive_unmap_4kib.shape_p2_absent.no_access_outside_page_tables tier=thorough bounded="pool of 7 tables (4 path + 3 allocatable); tree-shaped sparse pre-state (target path, one neighbour word per path table, garbage in allocatable frames); recursive index 300; page-table indices (255,511,0,256)"
    #[kani::proof]
    #[kani::stub(crate::structures::paging::page_table::PageTable::zero, zero_stub)]
    #[kani::stub(crate::addr::VirtAddr::as_mut_ptr, mmu_trap_as_mut_ptr)]
    fn c01_recursive_unmap_p2_absent_mid() {
        rec_leaf_op_step!("unmap", 0, "p2_absent", P2_ABSENT, IDX_MID);
        kani::cover!(true, "c01_recursive_unmap_p2_absent_mid: reachable");
    }

    //@ obligation C02 C02.recursive_unmap_4kib.shape_p2_absent.huge_parent_is_reported_not_walked bounded="pool of 7 tables (4 path + 3 allocatable); tree-shaped sparse pre-state (target path, one neighbour word per path table, garbage in allocatable frames); recursive index 300; page-table indices (256,0,510,511)"
    //@ obligation C02 C02.recursive_unmap_4kib.shape_p2_absent.documented_outcome bounded="pool of 7 tables (4 path + 3 allocatable); tree-shaped sparse pre-state (target path, one neighbour word per path table, garbage in allocatable frames); recursive index 300; page-table indices (256,0,510,511)"
    //@ obligation C01 C01.recursive_unmap_4kib.shape_p2_absent.reports_mapped_frame bounded="pool of 7 tables (4 path + 3 allocatable); tree-shaped sparse pre-state (target path, one neighbour word per path table, garbage in allocatable frames); recursive index 300; page-table indices (256,0,510,511)"
    //@ obligation C11 C11.recursive_unmap_4kib.shape_p2_absent.token_names_page bounded="pool of 7 tables (4 path + 3 allocatable); tree-shaped sparse pre-state (target path, one neighbour word per path table, garbage in allocatable frames); recursive index 300; page-table indices (256,0,510,511)"
    //@ obligation C01 C01.recursive_unmap_4kib.shape_p2_absent.target_after bounded="pool of 7 tables (4 path + 3 allocatable); tree-shaped sparse pre-state (target path, one neighbour word per path table, garbage in allocatable frames); recursive index 300; page-table indices (256,0,510,511)"
    //@ obligation C11 C11.recursive_unmap_4kib.shape_p2_absent.target_after bounded="pool of 7 tables (4 path + 3 allocatable); tree-shaped sparse pre-state (target path, one neighbour word per path table, garbage in allocatable frames); recursive index 300; page-table indices (256,0,510,511)"
    //@ obligation C01 C01.recursive_unmap_4kib.shape_p2_absent.other_addresses_unchanged bounded="pool of 7 tables (4 path + 3 allocatable); tree-shaped sparse pre-state (target path, one neighbour word per path table, garbage in allocatable frames); recursive index 300; page-table indices (256,0,510,511)"
    //@ obligation C11 C11.recursive_unmap_4kib.shape_p2_absent.other_addresses_unchanged bounded="pool of 7 tables (4 path + 3 allocatable); tree-shaped sparse pre-state (target path, one neighbour word per path table, garbage in allocatable frames); recursive index 300; page-table indices (256,0,510,511)"
    //@ obligation C02 C02.recursive_unmap_4kib.shape_p2_absent.error_leaves_every_mapping bounded="pool of 7 tables (4 path + 3 allocatable); tree-shaped sparse pre-state (target path, one neighbour word per path table, garbage in allocatable frames); recursive index 300; page-table indices (256,0,510,511)"
    //@ obligation C09 C09.recursive_unmap_4kib.shape_p2_absent.only_dictated_slots_change bounded="pool of 7 tables (4 path + 3 allocatable); tree-shaped sparse pre-state (target path, one neighbour word per path table, garbage in allocatable frames); recursive index 300; page-table indices (256,0,510,511)"
    //@ obligation C09 C09.recursive_unmap_4kib.shape_p2_absent.no_frames_requested_or_zeroed bounded="pool of 7 tables (4 path + 3 allocatable); tree-shaped sparse pre-state (target path, one neighbour word per path table, garbage in allocatable frames); recursive index 300; page-table indices (256,0,510,511)"
    //@ obligation C09 C09.recursive_unmap_4kib.shape_p2_absent.no_dangling_table_pointer bounded="pool of 7 tables (4 path + 3 allocatable); tree-shaped sparse pre-state (target path, one neighbour word per path table, garbage in allocatable frames); recursive index 300; page-table indices (256,0,510,511)"
    //@ obligation C09 C09.recursive_unmap_4kib.shape_p2_absent.no_access_outside_page_tables bounded="pool of 7 tables (4 path + 3 allocatable); tree-shaped sparse pre-state (target path, one neighbour word per path table, garbage in allocatable frames); recursive index 300; page-table indices (256,0,510,511)"
    #[kani::proof]
    #[kani::stub(crate::structures::paging::page_table::PageTable::zero, zero_stub)]
    #[kani::stub(crate::addr::VirtAddr::as_mut_ptr, mmu_trap_as_mut_ptr)]
    fn c01_recursive_unmap_p2_absent_up() {
        rec_leaf_op_step!("unmap", 0, "p2_absent", P2_ABSENT, IDX_UP);
        kani::cover!(true, "c01_recursive_unmap_p2_absent_up: reachable");
    }

    //@ obligation C02 C02.recursive_unmap_4kib.shape_p2_huge.huge_parent_is_reported_not_walked bounded="pool of 7 tables (4 path + 3 allocatable); tree-shaped sparse pre-state (target path, one neighbour word per path table, garbage in allocatable frames); recursive index 300; page-table indices (255,511,0,256)"
    //@ obligation C02 C02.recursive_unmap_4kib.shape_p2_huge.documented_outcome bounded="pool of 7 tables (4 path + 3 allocatable); tree-shaped sparse pre-state (target path, one neighbour word per path table, garbage in allocatable frames); recursive index 300; page-table indices (255,511,0,256)"
    //@ obligation C01 C01.recursive_unmap_4kib.shape_p2_huge.reports_mapped_frame bounded="pool of 7 tables (4 path + 3 allocatable); tree-shaped sparse pre-state (target path, one neighbour word per path table, garbage in allocatable frames); recursive index 300; page-table indices (255,511,0,256)"
    //@ obligation C11 C11.recursive_unmap_4kib.shape_p2_huge.token_names_page bounded="pool of 7 tables (4 path + 3 allocatable); tree-shaped sparse pre-state (target path, one neighbour word per path table, garbage in allocatable frames); recursive index 300; page-table indices (255,511,0,256)"
    //@ obligation C01 C01.recursive_unmap_4kib.shape_p2_huge.target_after bounded="pool of 7 tables (4 path + 3 allocatable); tree-shaped sparse pre-state (target path, one neighbour word per path table, garbage in allocatable frames); recursive index 300; page-table indices (255,511,0,256)"
    //@ obligation C11 C11.recursive_unmap_4kib.shape_p2_huge.target_after bounded="pool of 7 tables (4 path + 3 allocatable); tree-shaped sparse pre-state (target path, one neighbour word per path table, garbage in allocatable frames); recursive index 300; page-table indices (255,511,0,256)"
    //@ obligation C01 C01.recursive_unmap_4kib.shape_p2_huge.other_addresses_unchanged bounded="pool of 7 tables (4 path + 3 allocatable); tree-shaped sparse pre-state (target path, one neighbour word per path table, garbage in allocatable frames); recursive index 300; page-table indices (255,511,0,256)"
    //@ obligation C11 C11.recursive_unmap_4kib.shape_p2_huge.other_addresses_unchanged bounded="pool of 7 tables (4 path + 3 allocatable); tree-shaped sparse pre-state (target path, one neighbour word per path table, garbage in allocatable frames); recursive index 300; page-table indices (255,511,0,256)"
    //@ obligation C02 C02.recursive_unmap_4kib.shape_p2_huge.error_leaves_every_mapping bounded="pool of 7 tables (4 path + 3 allocatable); tree-shaped sparse pre-state (target path, one neighbour word per path table, garbage in allocatable frames); recursive index 300; page-table indices (255,511,0,256)"
    //@ obligation C09 C09.recursive_unmap_4kib.shape_p2_huge.only_dictated_slots_change bounded="pool of 7 tables (4 path + 3 allocatable); tree-shaped sparse pre-state (target path, one neighbour word per path table, garbage in allocatable frames); recursive index 300; page-table indices (255,511,0,256)"
    //@ obligation C09 C09.recursive_unmap_4kib.shape_p2_huge.no_frames_requested_or_zeroed bounded="pool of 7 tables (4 path + 3 allocatable); tree-shaped sparse pre-state (target path, one neighbour word per path table, garbage in allocatable frames); recursive index 300; page-table indices (255,511,0,256)"
    //@ obligation C09 C09.recursive_unmap_4kib.shape_p2_huge.no_dangling_table_pointer bounded="pool of 7 tables (4 path + 3 allocatable); tree-shaped sparse pre-state (target path, one neighbour word per path table, garbage in allocatable frames); recursive index 300; page-table indices (255,511,0,256)"
    //@ obligation C09 C09.recursive_unmap_4kib.shape_p2_huge.no_access_outside_page_tables bounded="pool of 7 tables (4 path + 3 allocatable); tree-shaped sparse pre-state (target path, one neighbour word per path table, garbage in allocatable frames); recursive index 300; page-table indices (255,511,0,256)"
    #[kani::proof]
    #[kani::stub(crate::structures::paging::page_table::PageTable::zero, zero_stub)]
    #[kani::stub(crate::addr::VirtAddr::as_mut_ptr, mmu_trap_as_mut_ptr)]
    fn c01_recursive_unmap_p2_huge_mid() {
        rec_leaf_op_step!("unmap", 0, "p2_huge", P2_HUGE, IDX_MID);
        kani::cover!(true, "c01_recursive_unmap_p2_huge_mid: reachable");
    }

    //@ obligation C02 C02.recursive_unmap_4kib.shape_p2_huge.huge_parent_is_reported_not_walked tier=thorough bounded="pool of 7 tables (4 path + 3 allocatable); tree-shaped sparse pre-state (target path, one neighbour word per path table, garbage in allocatable frames); recursive index 300; page-table indices (256,0,510,511)"
    //@ obligation C02 C02.recursive_unmap_4kib.shape_p2_huge.documented_outcome tier=thorough bounded="pool of 7 tables (4 path + 3 allocatable); tree-shaped sparse pre-state (target path, one neighbour word per path table, garbage in allocatable frames); recursive index 300; page-table indices (256,0,510,511)"
    //@ obligation C01 C01.recursive_unmap_4kib.shape_p2_huge.reports_mapped_frame tier=thorough bounded="pool of 7 tables (4 path + 3 allocatable); tree-shaped sparse pre-state (target path, one neighbour word per path table, garbage in allocatable frames); recursive index 300; page-table indices (256,0,510,511)"
    //@ obligation C11 C11.recursive_unmap_4kib.shape_p2_huge.token_names_page tier=thorough bounded="pool of 7 tables (4 path + 3 allocatable); tree-shaped sparse pre-state (target path, one neighbour word per path table, garbage in allocatable frames); recursive index 300; page-table indices (256,0,510,511)"
    //@ obligation C01 C01.recursive_unmap_4kib.shape_p2_huge.target_after tier=thorough bounded="pool of 7 tables (4 path + 3 allocatable); tree-shaped sparse pre-state (target path, one neighbour word per path table, garbage in allocatable frames); recursive index 300; page-table indices (256,0,510,511)"
    //@ obligation C11 C11.recursive_unmap_4kib.shape_p2_huge.target_after tier=thorough bounded="pool of 7 tables (4 path + 3 allocatable); tree-shaped sparse pre-state (target path, one neighbour word per path table, garbage in allocatable frames); recursive index 300; page-table indices (256,0,510,511)"
    //@ obligation C01 C01.recursive_unmap_4kib.shape_p2_huge.other_addresses_unchanged tier=thorough bounded="pool of 7 tables (4 path + 3 allocatable); tree-shaped sparse pre-state (target path, one neighbour word per path table, garbage in allocatable frames); recursive index 300; page-table indices (256,0,510,511)"
    //@ obligation C11 C11.recursive_unmap_4kib.shape_p2_huge.other_addresses_unchanged tier=thorough bounded="pool of 7 tables (4 path + 3 allocatable); tree-shaped sparse pre-state (target path, one neighbour word per path table, garbage in allocatable frames); recursive index 300; page-table indices (256,0,510,511)"
    //@ obligation C02 C02.recursive_unmap_4kib.shape_p2_huge.error_leaves_every_mapping tier=thorough bounded="pool of 7 tables (4 path + 3 allocatable); tree-shaped sparse pre-state (target path, one neighbour word per path table, garbage in allocatable frames); recursive index 300; page-table indices (256,0,510,511)"
    //@ obligation C09 C09.recursive_unmap_4kib.shape_p2_huge.only_dictated_slots_change tier=thorough bounded="pool of 7 tables (4 path + 3 allocatable); tree-shaped sparse pre-state (target path, one neighbour word per path table, garbage in allocatable frames); recursive index 300; page-table indices (256,0,510,511)"
    //@ obligation C09 C09.recursive_unmap_4kib.shape_p2_huge.no_frames_requested_or_zeroed tier=thorough bounded="pool of 7 tables (4 path + 3 allocatable); tree-shaped sparse pre-state (target path, one neighbour word per path table, garbage in allocatable frames); recursive index 300; page-table indices (256,0,510,511)"
    //@ obligation C09 C09.recursive_unmap_4kib.shape_p2_huge.no_dangling_table_pointer tier=thorough bounded="pool of 7 tables (4 path + 3 allocatable); tree-shaped sparse pre-state (target path, one neighbour word per path table, garbage in allocatable frames); recursive index 300; page-table indices (256,0,510,511)"
    //@ obligation C09 C09.recursive_unmap_4kib.shape_p2_huge.no_access_outside_page_tables tier=thorough bounded="pool of 7 tables (4 path + 3 allocatable); tree-shaped sparse pre-state (target path, one neighbour word per path table, garbage in allocatable frames); recursive index 300; page-table indices (256,0,510,511)"
    #[kani::proof]
    #[kani::stub(crate::structures::paging::page_table::PageTable::zero, zero_stub)]
    #[kani::stub(crate::addr::VirtAddr::as_mut_ptr, mmu_trap_as_mut_ptr)]
    fn c01_recursive_unmap_p2_huge_up() {
        rec_leaf_op_step!("unmap", 0, "p2_huge", P2_HUGE, IDX_UP);
        kani::cover!(true, "c01_recursive_unmap_p2_huge_up: reachable");
    }

    //@ obligation C02 C02.recursive_unmap_4kib.shape_p1_absent.huge_parent_is_reported_not_walked tier=thorough bounded="pool of 7 tables (4 path + 3 allocatable); tree-shaped sparse pre-state (target path, one neighbour word per path table, garbage in allocatable frames); recursive index 300; page-table indices (255,511,0,256)"
    //@ obligation C02 C02.recursive_unmap_4kib.shape_p1_absent.documented_outcome tier=thorough bounded="pool of 7 tables (4 path + 3 allocatable); tree-shaped sparse pre-state (target path, one neighbour word per path table, garbage in allocatable frames); recursive index 300; page-table indices (255,511,0,256)"
    //@ obligation C01 C01.recursive_unmap_4kib.shape_p1_absent.reports_mapped_frame tier=thorough bounded="pool of 7 tables (4 path + 3 allocatable); tree-shaped sparse pre-state (target path, one neighbour word per path table, garbage in allocatable frames); recursive index 300; page-table indices (255,511,0,256)"
    //@ obligation C11 C11.recursive_unmap_4kib.shape_p1_absent.token_names_page tier=thorough bounded="pool of 7 tables (4 path + 3 allocatable); tree-shaped sparse pre-state (target path, one neighbour word per path table, garbage in allocatable frames); recursive index 300; page-table indices (255,511,0,256)"
    //@ obligation C01 C01.recursive_unmap_4kib.shape_p1_absent.target_after tier=thorough bounded="pool of 7 tables (4 path + 3 allocatable); tree-shaped sparse pre-state (target path, one neighbour word per path table, garbage in allocatable frames); recursive index 300; page-table indices (255,511,0,256)"
    //@ obligation C11 C11.recursive_unmap_4kib.shape_p1_absent.target_after tier=thorough bounded="pool of 7 tables (4 path + 3 allocatable); tree-shaped sparse pre-state (target path, one neighbour word per path table, garbage in allocatable frames); recursive index 300; page-table indices (255,511,0,256)"
    //@ obligation C01 C01.recursive_unmap_4kib.shape_p1_absent.other_addresses_unchanged tier=thorough bounded="pool of 7 tables (4 path + 3 allocatable); tree-shaped sparse pre-state (target path, one neighbour word per path table, garbage in allocatable frames); recursive index 300; page-table indices (255,511,0,256)"
    //@ obligation C11 C11.recursive_unmap_4kib.shape_p1_absent.other_addresses_unchanged tier=thorough bounded="pool of 7 tables (4 path + 3 allocatable); tree-shaped sparse pre-state (target path, one neighbour word per path table, garbage in allocatable frames); recursive index 300; page-table indices (255,511,0,256)"
    //@ obligation C02 C02.recursive_unmap_4kib.shape_p1_absent.error_leaves_every_mapping tier=thorough bounded="pool of 7 tables (4 path + 3 allocatable); tree-shaped sparse pre-state (target path, one neighbour word per path table, garbage in allocatable frames); recursive index 300; page-table indices (255,511,0,256)"
    //@ obligation C09 C09.recursive_unmap_4kib.shape_p1_absent.only_dictated_slots_change tier=thorough bounded="pool of 7 tables (4 path + 3 allocatable); tree-shaped sparse pre-state (target path, one neighbour word per path table, garbage in allocatable frames); recursive index 300; page-table indices (255,511,0,256)"
    //@ obligation C09 C09.recursive_unmap_4kib.shape_p1_absent.no_frames_requested_or_zeroed tier=thorough bounded="pool of 7 tables (4 path + 3 allocatable); tree-shaped sparse pre-state (target path, one neighbour word per path table, garbage in allocatable frames); recursive index 300; page-table indices (255,511,0,256)"
    //@ obligation C09 C09.recursive_unmap_4kib.shape_p1_absent.no_dangling_table_pointer tier=thorough bounded="pool of 7 tables (4 path + 3 allocatable); tree-shaped sparse pre-state (target path, one neighbour word per path table, garbage in allocatable frames); recursive index 300; page-table indices (255,511,0,256)"
    //@ obligation C09 C09.recursive_unmap_4kib.shape_p1_absent.no_access_outside_page_tables tier=thorough bounded="pool of 7 tables (4 path + 3 allocatable); tree-shaped sparse pre-state (target path, one neighbour word per path table, garbage in allocatable frames); recursive index 300; page-table indices (255,511,0,256)"
    #[kani::proof]
    #[kani::stub(crate::structures::paging::page_table::PageTable::zero, zero_stub)]
    #[kani::stub(crate::addr::VirtAddr::as_mut_ptr, mmu_trap_as_mut_ptr)]
    fn c01_recursive_unmap_p1_absent_mid() {
        rec_leaf_op_step!("unmap", 0, "p1_absent", P1_ABSENT, IDX_MID);
        kani::cover!(true, "c01_recursive_unmap_p1_absent_mid: reachable");
    }

    //@ obligation C02 C02.recursive_unmap_4kib.shape_p1_absent.huge_parent_is_reported_not_walked tier=thorough bounded="pool of 7 tables (4 path + 3 allocatable); tree-shaped sparse pre-state (target path, one neighbour word per path table, garbage in allocatable frames); recursive index 300; page-table indices (256,0,510,511)"
    //@ obligation C02 C02.recursive_unmap_4kib.shape_p1_absent.documented_outcome tier=thorough bounded="pool of 7 tables (4 path + 3 allocatable); tree-shaped sparse pre-state (target path, one neighbour word per path table, garbage in allocatable frames); recursive index 300; page-table indices (256,0,510,511)"
    //@ obligation C01 C01.recursive_unmap_4kib.shape_p1_absent.reports_mapped_frame tier=thorough bounded="pool of 7 tables (4 path + 3 allocatable); tree-shaped sparse pre-state (target path, one neighbour word per path table, garbage in allocatable frames); recursive index 300; page-table indices (256,0,510,511)"
    //@ obligation C11 C11.recursive_unmap_4kib.shape_p1_absent.token_names_page tier=thorough bounded="pool of 7 tables (4 path + 3 allocatable); tree-shaped sparse pre-state (target path, one neighbour word per path table, garbage in allocatable frames); recursive index 300; page-table indices (256,0,510,511)"
    //@ obligation C01 C01.recursive_unmap_4kib.shape_p1_absent.target_after tier=thorough bounded="pool of 7 tables (4 path + 3 allocatable); tree-shaped sparse pre-state (target path, one neighbour word per path table, garbage in allocatable frames); recursive index 300; page-table indices (256,0,510,511)"
    //@ obligation C11 C11.recursive_unmap_4kib.shape_p1_absent.target_after tier=thorough bounded="pool of 7 tables (4 path + 3 allocatable); tree-shaped sparse pre-state (target path, one neighbour word per path table, garbage in allocatable frames); recursive index 300; page-table indices (256,0,510,511)"
    //@ obligation C01 C01.recursive_unmap_4kib.shape_p1_absent.other_addresses_unchanged tier=thorough bounded="pool of 7 tables (4 path + 3 allocatable); tree-shaped sparse pre-state (target path, one neighbour word per path table, garbage in allocatable frames); recursive index 300; page-table indices (256,0,510,511)"
    //@ obligation C11 C11.recursive_unmap_4kib.shape_p1_absent.other_addresses_unchanged tier=thorough bounded="pool of 7 tables (4 path + 3 allocatable); tree-shaped sparse pre-state (target path, one neighbour word per path table, garbage in allocatable frames); recursive index 300; page-table indices (256,0,510,511)"
    //@ obligation C02 C02.recursive_unmap_4kib.shape_p1_absent.error_leaves_every_mapping tier=thorough bounded="pool of 7 tables (4 path + 3 allocatable); tree-shaped sparse pre-state (target path, one neighbour word per path table, garbage in allocatable frames); recursive index 300; page-table indices (256,0,510,511)"
    //@ obligation C09 C09.recursive_unmap_4kib.shape_p1_absent.only_dictated_slots_change tier=thorough bounded="pool of 7 tables (4 path + 3 allocatable); tree-shaped sparse pre-state (target path, one neighbour word per path table, garbage in allocatable frames); recursive index 300; page-table indices (256,0,510,511)"
    //@ obligation C09 C09.recursive_unmap_4kib.shape_p1_absent.no_frames_requested_or_zeroed tier=thorough bounded="pool of 7 tables (4 path + 3 allocatable); tree-shaped sparse pre-state (target path, one neighbour word per path table, garbage in allocatable frames); recursive index 300; page-table indices (256,0,510,511)"
    //@ obligation C09 C09.recursive_unmap_4kib.shape_p1_absent.no_dangling_table_pointer tier=thorough bounded="pool of 7 tables (4 path + 3 allocatable); tree-shaped sparse pre-state (target path, one neighbour word per path table, garbage in allocatable frames); recursive index 300; page-table indices (256,0,510,511)"
    //@ obligation C09 C09.recursive_unmap_4kib.shape_p1_absent.no_access_outside_page_tables tier=thorough bounded="pool of 7 tables (4 path + 3 allocatable); tree-shaped sparse pre-state (target path, one neighbour word per path table, garbage in allocatable frames); recursive index 300; page-table indices (256,0,510,511)"
    #[kani::proof]
    #[kani::stub(crate::structures::paging::page_table::PageTable::zero, zero_stub)]
    #[kani::stub(crate::addr::VirtAddr::as_mut_ptr, mmu_trap_as_mut_ptr)]
    fn c01_recursive_unmap_p1_absent_up() {
        rec_leaf_op_step!("unmap", 0, "p1_absent", P1_ABSENT, IDX_UP);
        kani::cover!(true, "c01_recursive_unmap_p1_absent_up: reachable");
    }

    //@ obligation C02 C02.recursive_unmap_4kib.shape_p1_leaf.huge_parent_is_reported_not_walked tier=thorough bounded="pool of 7 tables (4 path + 3 allocatable); tree-shaped sparse pre-state (target path, one neighbour word per path table, garbage in allocatable frames); recursive index 300; page-table indices (255,511,0,256)"
    //@ obligation C02 C02.recursive_unmap_4kib.shape_p1_leaf.documented_outcome tier=thorough bounded="pool of 7 tables (4 path + 3 allocatable); tree-shaped sparse pre-state (target path, one neighbour word per path table, garbage in allocatable frames); recursive index 300; page-table indices (255,511,0,256)"
    //@ obligation C01 C01.recursive_unmap_4kib.shape_p1_leaf.reports_mapped_frame tier=thorough bounded="pool of 7 tables (4 path + 3 allocatable); tree-shaped sparse pre-state (target path, one neighbour word per path table, garbage in allocatable frames); recursive index 300; page-table indices (255,511,0,256)"
    //@ obligation C11 C11.recursive_unmap_4kib.shape_p1_leaf.token_names_page tier=thorough bounded="pool of 7 tables (4 path + 3 allocatable); tree-shaped sparse pre-state (target path, one neighbour word per path table, garbage in allocatable frames); recursive index 300; page-table indices (255,511,0,256)"
    //@ obligation C01 C01.recursive_unmap_4kib.shape_p1_leaf.target_after tier=thorough bounded="pool of 7 tables (4 path + 3 allocatable); tree-shaped sparse pre-state (target path, one neighbour word per path table, garbage in allocatable frames); recursive index 300; page-table indices (255,511,0,256)"
    //@ obligation C11 C11.recursive_unmap_4kib.shape_p1_leaf.target_after tier=thorough bounded="pool of 7 tables (4 path + 3 allocatable); tree-shaped sparse pre-state (target path, one neighbour word per path table, garbage in allocatable frames); recursive index 300; page-table indices (255,511,0,256)"
    //@ obligation C01 C01.recursive_unmap_4kib.shape_p1_leaf.other_addresses_unchanged tier=thorough bounded="pool of 7 tables (4 path + 3 allocatable); tree-shaped sparse pre-state (target path, one neighbour word per path table, garbage in allocatable frames); recursive index 300; page-table indices (255,511,0,256)"
    //@ obligation C11 C11.recursive_unmap_4kib.shape_p1_leaf.other_addresses_unchanged tier=thorough bounded="pool of 7 tables (4 path + 3 allocatable); tree-shaped sparse pre-state (target path, one neighbour word per path table, garbage in allocatable frames); recursive index 300; page-table indices (255,511,0,256)"
    //@ obligation C02 C02.recursive_unmap_4kib.shape_p1_leaf.error_leaves_every_mapping tier=thorough bounded="pool of 7 tables (4 path + 3 allocatable); tree-shaped sparse pre-state (target path, one neighbour word per path table, garbage in allocatable frames); recursive index 300; page-table indices (255,511,0,256)"
    //@ obligation C09 C09.recursive_unmap_4kib.shape_p1_leaf.only_dictated_slots_change tier=thorough bounded="pool of 7 tables (4 path + 3 allocatable); tree-shaped sparse pre-state (target path, one neighbour word per path table, garbage in allocatable frames); recursive index 300; page-table indices (255,511,0,256)"
    //@ obligation C09 C09.recursive_unmap_4kib.shape_p1_leaf.no_frames_requested_or_zeroed tier=thorough bounded="pool of 7 tables (4 path + 3 allocatable); tree-shaped sparse pre-state (target path, one neighbour word per path table, garbage in allocatable frames); recursive index 300; page-table indices (255,511,0,256)"
    //@ obligation C09 C09.recursive_unmap_4kib.shape_p1_leaf.no_dangling_table_pointer tier=thorough bounded="pool of 7 tables (4 path + 3 allocatable); tree-shaped sparse pre-state (target path, one neighbour word per path table, garbage in allocatable frames); recursive index 300; page-table indices (255,511,0,256)"
    //@ obligation C09 C09.recursive_unmap_4kib.shape_p1_leaf.no_access_outside_page_tables tier=thorough bounded="pool of 7 tables (4 path + 3 allocatable); tree-shaped sparse pre-state (target path, one neighbour word per path table, garbage in allocatable frames); recursive index 300; page-table indices (255,511,0,256)"
    #[kani::proof]
    #[kani::stub(crate::structures::paging::page_table::PageTable::zero, zero_stub)]
    #[kani::stub(crate::addr::VirtAddr::as_mut_ptr, mmu_trap_as_mut_ptr)]
    fn c01_recursive_unmap_p1_leaf_mid() {
        rec_leaf_op_step!("unmap", 0, "p1_leaf", P1_LEAF, IDX_MID);
        kani::cover!(true, "c01_recursive_unmap_p1_leaf_mid: reachable");
    }

    //@ obligation C02 C02.recursive_unmap_4kib.shape_p1_leaf.huge_parent_is_reported_not_walked bounded="pool of 7 tables (4 path + 3 allocatable); tree-shaped sparse pre-state (target path, one neighbour word per path table, garbage in allocatable frames); recursive index 300; page-table indices (256,0,510,511)"
    //@ obligation C02 C02.recursive_unmap_4kib.shape_p1_leaf.documented_outcome bounded="pool of 7 tables (4 path + 3 allocatable); tree-shaped sparse pre-state (target path, one neighbour word per path table, garbage in allocatable frames); recursive index 300; page-table indices (256,0,510,511)"
    //@ obligation C01 C01.recursive_unmap_4kib.shape_p1_leaf.reports_mapped_frame bounded="pool of 7 tables (4 path + 3 allocatable); tree-shaped sparse pre-state (target path, one neighbour word per path table, garbage in allocatable frames); recursive index 300; page-table indices (256,0,510,511)"
    //@ obligation C11 C11.recursive_unmap_4kib.shape_p1_leaf.token_names_page bounded="pool of 7 tables (4 path + 3 allocatable); tree-shaped sparse pre-state (target path, one neighbour word per path table, garbage in allocatable frames); recursive index 300; page-table indices (256,0,510,511)"
    //@ obligation C01 C01.recursive_unmap_4kib.shape_p1_leaf.target_after bounded="pool of 7 tables (4 path + 3 allocatable); tree-shaped sparse pre-state (target path, one neighbour word per path table, garbage in allocatable frames); recursive index 300; page-table indices (256,0,510,511)"
    //@ obligation C11 C11.recursive_unmap_4kib.shape_p1_leaf.target_after bounded="pool of 7 tables (4 path + 3 allocatable); tree-shaped sparse pre-state (target path, one neighbour word per path table, garbage in allocatable frames); recursive index 300; page-table indices (256,0,510,511)"
    //@ obligation C01 C01.recursive_unmap_4kib.shape_p1_leaf.other_addresses_unchanged bounded="pool of 7 tables (4 path + 3 allocatable); tree-shaped sparse pre-state (target path, one neighbour word per path table, garbage in allocatable frames); recursive index 300; page-table indices (256,0,510,511)"
    //@ obligation C11 C11.recursive_unmap_4kib.shape_p1_leaf.other_addresses_unchanged bounded="pool of 7 tables (4 path + 3 allocatable); tree-shaped sparse pre-state (target path, one neighbour word per path table, garbage in allocatable frames); recursive index 300; page-table indices (256,0,510,511)"
    //@ obligation C02 C02.recursive_unmap_4kib.shape_p1_leaf.error_leaves_every_mapping bounded="pool of 7 tables (4 path + 3 allocatable); tree-shaped sparse pre-state (target path, one neighbour word per path table, garbage in allocatable frames); recursive index 300; page-table indices (256,0,510,511)"
    //@ obligation C09 C09.recursive_unmap_4kib.shape_p1_leaf.only_dictated_slots_change bounded="pool of 7 tables (4 path + 3 allocatable); tree-shaped sparse pre-state (target path, one neighbour word per path table, garbage in allocatable frames); recursive index 300; page-table indices (256,0,510,511)"
    //@ obligation C09 C09.recursive_unmap_4kib.shape_p1_leaf.no_frames_requested_or_zeroed bounded="pool of 7 tables (4 path + 3 allocatable); tree-shaped sparse pre-state (target path, one neighbour word per path table, garbage in allocatable frames); recursive index 300; page-table indices (256,0,510,511)"
    //@ obligation C09 C09.recursive_unmap_4kib.shape_p1_leaf.no_dangling_table_pointer bounded="pool of 7 tables (4 path + 3 allocatable); tree-shaped sparse pre-state (target path, one neighbour word per path table, garbage in allocatable frames); recursive index 300; page-table indices (256,0,510,511)"
    //@ obligation C09 C09.recursive_unmap_4kib.shape_p1_leaf.no_access_outside_page_tables bounded="pool of 7 tables (4 path + 3 allocatable); tree-shaped sparse pre-state (target path, one neighbour word per path table, garbage in allocatable frames); recursive index 300; page-table indices (256,0,510,511)"
    #[kani::proof]
    #[kani::stub(crate::structures::paging::page_table::PageTable::zero, zero_stub)]
    #[kani::stub(crate::addr::VirtAddr::as_mut_ptr, mmu_trap_as_mut_ptr)]
    fn c01_recursive_unmap_p1_leaf_up() {
        rec_leaf_op_step!("unmap", 0, "p1_leaf", P1_LEAF, IDX_UP);
        kani::cover!(true, "c01_recursive_unmap_p1_leaf_up: reachable");
    }

    //@ obligation C02 C02.recursive_update_flags_4kib.shape_p4_absent.huge_parent_is_reported_not_walked bounded="pool of 7 tables (4 path + 3 allocatable); tree-shaped sparse pre-state (target path, one neighbour word per path table, garbage in allocatable frames); recursive index 300; page-table indices (255,511,0,256)"
    //@ obligation C02 C02.recursive_update_flags_4kib.shape_p4_absent.documented_outcome bounded="pool of 7 tables (4 path + 3 allocatable); tree-shaped sparse pre-state (target path, one neighbour word per path table, garbage in allocatable frames); recursive index 300; page-table indices (255,511,0,256)"
    //@ obligation C11 C11.recursive_update_flags_4kib.shape_p4_absent.token_names_page bounded="pool of 7 tables (4 path + 3 allocatable); tree-shaped sparse pre-state (target path, one neighbour word per path table, garbage in allocatable frames); recursive index 300; page-table indices (255,511,0,256)"
    //@ obligation C01 C01.recursive_update_flags_4kib.shape_p4_absent.target_after bounded="pool of 7 tables (4 path + 3 allocatable); tree-shaped sparse pre-state (target path, one neighbour word per path table, garbage in allocatable frames); recursive index 300; page-table indices (255,511,0,256)"
    //@ obligation C11 C11.recursive_update_flags_4kib.shape_p4_absent.target_after bounded="pool of 7 tables (4 path + 3 allocatable); tree-shaped sparse pre-state (target path, one neighbour word per path table, garbage in allocatable frames); recursive index 300; page-table indices (255,511,0,256)"
    //@ obligation C01 C01.recursive_update_flags_4kib.shape_p4_absent.other_addresses_unchanged bounded="pool of 7 tables (4 path + 3 allocatable); tree-shaped sparse pre-state (target path, one neighbour word per path table, garbage in allocatable frames); recursive index 300; page-table indices (255,511,0,256)"
    //@ obligation C11 C11.recursive_update_flags_4kib.shape_p4_absent.other_addresses_unchanged bounded="pool of 7 tables (4 path + 3 allocatable); tree-shaped sparse pre-state (target path, one neighbour word per path table, garbage in allocatable frames); recursive index 300; page-table indices (255,511,0,256)"
    //@ obligation C02 C02.recursive_update_flags_4kib.shape_p4_absent.error_leaves_every_mapping bounded="pool of 7 tables (4 path + 3 allocatable); tree-shaped sparse pre-state (target path, one neighbour word per path table, garbage in allocatable frames); recursive index 300; page-table indices (255,511,0,256)"
    //@ obligation C09 C09.recursive_update_flags_4kib.shape_p4_absent.only_dictated_slots_change bounded="pool of 7 tables (4 path + 3 allocatable); tree-shaped sparse pre-state (target path, one neighbour word per path table, garbage in allocatable frames); recursive index 300; page-table indices (255,511,0,256)"
    //@ obligation C09 C09.recursive_update_flags_4kib.shape_p4_absent.no_frames_requested_or_zeroed bounded="pool of 7 tables (4 path + 3 allocatable); tree-shaped sparse pre-state (target path, one neighbour word per path table, garbage in allocatable frames); recursive index 300; page-table indices (255,511,0,256)"
    //@ obligation C09 C09.recursive_update_flags_4kib.shape_p4_absent.no_dangling_table_pointer bounded="pool of 7 tables (4 path + 3 allocatable); tree-shaped sparse pre-state (target path, one neighbour word per path table, garbage in allocatable frames); recursive index 300; page-table indices (255,511,0,256)"
    //@ obligation C09 C09.recursive_update_flags_4kib.shape_p4_absent.no_access_outside_page_tables bounded="pool of 7 tables (4 path + 3 allocatable); tree-shaped sparse pre-state (target path, one neighbour word per path table, garbage in allocatable frames); recursive index 300; page-table indices (255,511,0,256)"
    #[kani::proof]
    #[kani::stub(crate::structures::paging::page_table::PageTable::zero, zero_stub)]
    #[kani::stub(crate::addr::VirtAddr::as_mut_ptr, mmu_trap_as_mut_ptr)]
    fn c01_recursive_update_flags_p4_absent_mid() {
        rec_leaf_op_step!("update_flags", 1, "p4_absent", P4_ABSENT, IDX_MID);
        kani::cover!(true, "c01_recursive_update_flags_p4_absent_mid: reachable");
    }

    //@ obligation C02 C02.recursive_update_flags_4kib.shape_p4_absent.huge_parent_is_reported_not_walked tier=thorough bounded="pool of 7 tables (4 path + 3 allocatable); tree-shaped sparse pre-state (target path, one neighbour word per path table, garbage in allocatable frames); recursive index 300; page-table indices (256,0,510,511)"
    //@ obligation C02 C02.recursive_update_flags_4kib.shape_p4_absent.documented_outcome tier=thorough bounded="pool of 7 tables (4 path + 3 allocatable); tree-shaped sparse pre-state (target path, one neighbour word per path table, garbage in allocatable frames); recursive index 300; page-table indices (256,0,510,511)"
    //@ obligation C11 C11.recursive_update_flags_4kib.shape_p4_absent.token_names_page tier=thorough bounded="pool of 7 tables (4 path + 3 allocatable); tree-shaped sparse pre-state (target path, one neighbour word per path table, garbage in allocatable frames); recursive index 300; page-table indices (256,0,510,511)"
    //@ obligation C01 C01.recursive_update_flags_4kib.shape_p4_absent.target_after tier=thorough bounded="pool of 7 tables (4 path + 3 allocatable); tree-shaped sparse pre-state (target path, one neighbour word per path table, garbage in allocatable frames); recursive index 300; page-table indices (256,0,510,511)"
    //@ obligation C11 C11.recursive_update_flags_4kib.shape_p4_absent.target_after tier=thorough bounded="pool of 7 tables (4 path + 3 allocatable); tree-shaped sparse pre-state (target path, one neighbour word per path table, garbage in allocatable frames); recursive index 300; page-table indices (256,0,510,511)"
    //@ obligation C01 C01.recursive_update_flags_4kib.shape_p4_absent.other_addresses_unchanged tier=thorough bounded="pool of 7 tables (4 path + 3 allocatable); tree-shaped sparse pre-state (target path, one neighbour word per path table, garbage in allocatable frames); recursive index 300; page-table indices (256,0,510,511)"
    //@ obligation C11 C11.recursive_update_flags_4kib.shape_p4_absent.other_addresses_unchanged tier=thorough bounded="pool of 7 tables (4 path + 3 allocatable); tree-shaped sparse pre-state (target path, one neighbour word per path table, garbage in allocatable frames); recursive index 300; page-table indices (256,0,510,511)"
    //@ obligation C02 C02.recursive_update_flags_4kib.shape_p4_absent.error_leaves_every_mapping tier=thorough bounded="pool of 7 tables (4 path + 3 allocatable); tree-shaped sparse pre-state (target path, one neighbour word per path table, garbage in allocatable frames); recursive index 300; page-table indices (256,0,510,511)"
    //@ obligation C09 C09.recursive_update_flags_4kib.shape_p4_absent.only_dictated_slots_change tier=thorough bounded="pool of 7 tables (4 path + 3 allocatable); tree-shaped sparse pre-state (target path, one neighbour word per path table, garbage in allocatable frames); recursive index 300; page-table indices (256,0,510,511)"
    //@ obligation C09 C09.recursive_update_flags_4kib.shape_p4_absent.no_frames_requested_or_zeroed tier=thorough bounded="pool of 7 tables (4 path + 3 allocatable); tree-shaped sparse pre-state (target path, one neighbour word per path table, garbage in allocatable frames); recursive index 300; page-table indices (256,0,510,511)"
    //@ obligation C09 C09.recursive_update_flags_4kib.shape_p4_absent.no_dangling_table_pointer tier=thorough bounded="pool of 7 tables (4 path + 3 allocatable); tree-shaped sparse pre-state (target path, one neighbour word per path table, garbage in allocatable frames); recursive index 300; page-table indices (256,0,510,511)"
    //@ obligation C09 C09.recursive_update_flags_4kib.shape_p4_absent.no_access_outside_page_tables tier=thorough bounded="pool of 7 tables (4 path + 3 allocatable); tree-shaped sparse pre-state (target path, one neighbour word per path table, garbage in allocatable frames); recursive index 300; page-table indices (256,0,510,511)"
    #[kani::proof]
    #[kani::stub(crate::structures::paging::page_table::PageTable::zero, zero_stub)]
    #[kani::stub(crate::addr::VirtAddr::as_mut_ptr, mmu_trap_as_mut_ptr)]
    fn c01_recursive_update_flags_p4_absent_up() {
        rec_leaf_op_step!("update_flags", 1, "p4_absent", P4_ABSENT, IDX_UP);
        kani::cover!(true, "c01_recursive_update_flags_p4_absent_up: reachable");
    }

    //@ obligation C02 C02.recursive_update_flags_4kib.shape_p3_absent.huge_parent_is_reported_not_walked tier=thorough bounded="pool of 7 tables (4 path + 3 allocatable); tree-shaped sparse pre-state (target path, one neighbour word per path table, garbage in allocatable frames); recursive index 300; page-table indices (255,511,0,256)"
    //@ obligation C02 C02.recursive_update_flags_4kib.shape_p3_absent.documented_outcome tier=thorough bounded="pool of 7 tables (4 path + 3 allocatable); tree-shaped sparse pre-state (target path, one neighbour word per path table, garbage in allocatable frames); recursive index 300; page-table indices (255,511,0,256)"
    //@ obligation C11 C11.recursive_update_flags_4kib.shape_p3_absent.token_names_page tier=thorough bounded="pool of 7 tables (4 path + 3 allocatable); tree-shaped sparse pre-state (target path, one neighbour word per path table, garbage in allocatable frames); recursive index 300; page-table indices (255,511,0,256)"
    //@ obligation C01 C01.recursive_update_flags_4kib.shape_p3_absent.target_after tier=thorough bounded="pool of 7 tables (4 path + 3 allocatable); tree-shaped sparse pre-state (target path, one neighbour word per path table, garbage in allocatable frames); recursive index 300; page-table indices (255,511,0,256)"
    //@ obligation C11 C11.recursive_update_flags_4kib.shape_p3_absent.target_after tier=thorough bounded="pool of 7 tables (4 path + 3 allocatable); tree-shaped sparse pre-state (target path, one neighbour word per path table, garbage in allocatable frames); recursive index 300; page-table indices (255,511,0,256)"
    //@ obligation C01 C01.recursive_update_flags_4kib.shape_p3_absent.other_addresses_unchanged tier=thorough bounded="pool of 7 tables (4 path + 3 allocatable); tree-shaped sparse pre-state (target path, one neighbour word per path table, garbage in allocatable frames); recursive index 300; page-table indices (255,511,0,256)"
    //@ obligation C11 C11.recursive_update_flags_4kib.shape_p3_absent.other_addresses_unchanged tier=thorough bounded="pool of 7 tables (4 path + 3 allocatable); tree-shaped sparse pre-state (target path, one neighbour word per path table, garbage in allocatable frames); recursive index 300; page-table indices (255,511,0,256)"
    //@ obligation C02 C02.recursive_update_flags_4kib.shape_p3_absent.error_leaves_every_mapping tier=thorough bounded="pool of 7 tables (4 path + 3 allocatable); tree-shaped sparse pre-state (target path, one neighbour word per path table, garbage in allocatable frames); recursive index 300; page-table indices (255,511,0,256)"
    //@ obligation C09 C09.recursive_update_flags_4kib.shape_p3_absent.only_dictated_slots_change tier=thorough bounded="pool of 7 tables (4 path + 3 allocatable); tree-shaped sparse pre-state (target path, one neighbour word per path table, garbage in allocatable frames); recursive index 300; page-table indices (255,511,0,256)"
    //@ obligation C09 C09.recursive_update_flags_4kib.shape_p3_absent.no_frames_requested_or_zeroed tier=thorough bounded="pool of 7 tables (4 path + 3 allocatable); tree-shaped sparse pre-state (target path, one neighbour word per path table, garbage in allocatable frames); recursive index 300; page-table indices (255,511,0,256)"
    //@ obligation C09 C09.recursive_update_flags_4kib.shape_p3_absent.no_dangling_table_pointer tier=thorough bounded="pool of 7 tables (4 path + 3 allocatable); tree-shaped sparse pre-state (target path, one neighbour word per path table, garbage in allocatable frames); recursive index 300; page-table indices (255,511,0,256)"
    //@ obligation C09 C09.recursive_update_flags_4kib.shape_p3_absent.no_access_outside_page_tables tier=thorough bounded="pool of 7 tables (4 path + 3 allocatable); tree-shaped sparse pre-state (target path, one neighbour word per path table, garbage in allocatable frames); recursive index 300; page-table indices (255,511,0,256)"
    #[kani::proof]
    #[kani::stub(crate::structures::paging::page_table::PageTable::zero, zero_stub)]
    #[kani::stub(crate::addr::VirtAddr::as_mut_ptr, mmu_trap_as_mut_ptr)]
    fn c01_recursive_update_flags_p3_absent_mid() {
        rec_leaf_op_step!("update_flags", 1, "p3_absent", P3_ABSENT, IDX_MID);
        kani::cover!(true, "c01_recursive_update_flags_p3_absent_mid: reachable");
    }

    //@ obligation C02 C02.recursive_update_flags_4kib.shape_p3_absent.huge_parent_is_reported_not_walked bounded="pool of 7 tables (4 path + 3 allocatable); tree-shaped sparse pre-state (target path, one neighbour word per path table, garbage in allocatable frames); recursive index 300; page-table indices (256,0,510,511)"
    //@ obligation C02 C02.recursive_update_flags_4kib.shape_p3_absent.documented_outcome bounded="pool of 7 tables (4 path + 3 allocatable); tree-shaped sparse pre-state (target path, one neighbour word per path table, garbage in allocatable frames); recursive index 300; page-table indices (256,0,510,511)"
    //@ obligation C11 C11.recursive_update_flags_4kib.shape_p3_absent.token_names_page bounded="pool of 7 tables (4 path + 3 allocatable); tree-shaped sparse pre-state (target path, one neighbour word per path table, garbage in allocatable frames); recursive index 300; page-table indices (256,0,510,511)"
    //@ obligation C01 C01.recursive_update_flags_4kib.shape_p3_absent.target_after bounded="pool of 7 tables (4 path + 3 allocatable); tree-shaped sparse pre-state (target path, one neighbour word per path table, garbage in allocatable frames); recursive index 300; page-table indices (256,0,510,511)"
    //@ obligation C11 C11.recursive_update_flags_4kib.shape_p3_absent.target_after bounded="pool of 7 tables (4 path + 3 allocatable); tree-shaped sparse pre-state (target path, one neighbour word per path table, garbage in allocatable frames); recursive index 300; page-table indices (256,0,510,511)"
    //@ obligation C01 C01.recursive_update_flags_4kib.shape_p3_absent.other_addresses_unchanged bounded="pool of 7 tables (4 path + 3 allocatable); tree-shaped sparse pre-state (target path, one neighbour word per path table, garbage in allocatable frames); recursive index 300; page-table indices (256,0,510,511)"
    //@ obligation C11 C11.recursive_update_flags_4kib.shape_p3_absent.other_addresses_unchanged bounded="pool of 7 tables (4 path + 3 allocatable); tree-shaped sparse pre-state (target path, one neighbour word per path table, garbage in allocatable frames); recursive index 300; page-table indices (256,0,510,511)"
    //@ obligation C02 C02.recursive_update_flags_4kib.shape_p3_absent.error_leaves_every_mapping bounded="pool of 7 tables (4 path + 3 allocatable); tree-shaped sparse pre-state (target path, one neighbour word per path table, garbage in allocatable frames); recursive index 300; page-table indices (256,0,510,511)"
    //@ obligation C09 C09.recursive_update_flags_4kib.shape_p3_absent.only_dictated_slots_change bounded="pool of 7 tables (4 path + 3 allocatable); tree-shaped sparse pre-state (target path, one neighbour word per path table, garbage in allocatable frames); recursive index 300; page-table indices (256,0,510,511)"
    //@ obligation C09 C09.recursive_update_flags_4kib.shape_p3_absent.no_frames_requested_or_zeroed bounded="pool of 7 tables (4 path + 3 allocatable); tree-shaped sparse pre-state (target path, one neighbour word per path table, garbage in allocatable frames); recursive index 300; page-table indices (256,0,510,511)"
    //@ obligation C09 C09.recursive_update_flags_4kib.shape_p3_absent.no_dangling_table_pointer bounded="pool of 7 tables (4 path + 3 allocatable); tree-shaped sparse pre-state (target path, one neighbour word per path table, garbage in allocatable frames); recursive index 300; page-table indices (256,0,510,511)"
    //@ obligation C09 C09.recursive_update_flags_4kib.shape_p3_absent.no_access_outside_page_tables bounded="pool of 7 tables (4 path + 3 allocatable); tree-shaped sparse pre-state (target path, one neighbour word per path table, garbage in allocatable frames); recursive index 300; page-table indices (256,0,510,511)"
    #[kani::proof]
    #[kani::stub(crate::structures::paging::page_table::PageTable::zero, zero_stub)]
    #[kani::stub(crate::addr::VirtAddr::as_mut_ptr, mmu_trap_as_mut_ptr)]
    fn c01_recursive_update_flags_p3_absent_up() {
        rec_leaf_op_step!("update_flags", 1, "p3_absent", P3_ABSENT, IDX_UP);
        kani::cover!(true, "c01_recursive_update_flags_p3_absent_up: reachable");
    }

    //@ obligation C02 C02.recursive_update_flags_4kib.shape_p3_huge.huge_parent_is_reported_not_walked tier=thorough bounded="pool of 7 tables (4 path + 3 allocatable); tree-shaped sparse pre-state (target path, one neighbour word per path table, garbage in allocatable frames); recursive index 300; page-table indices (255,511,0,256)"
    //@ obligation C02 C02.recursive_update_flags_4kib.shape_p3_huge.documented_outcome tier=thorough bounded="pool of 7 tables (4 path + 3 allocatable); tree-shaped sparse pre-state (target path, one neighbour word per path table, garbage in allocatable frames); recursive index 300; page-table indices (255,511,0,256)"
    //@ obligation C11 C11.recursive_update_flags_4kib.shape_p3_huge.token_names_page tier=thorough bounded="pool of 7 tables (4 path + 3 allocatable); tree-shaped sparse pre-state (target path, one neighbour word per path table, garbage in allocatable frames); recursive index 300; page-table indices (255,511,0,256)"
    //@ obligation C01 C01.recursive_update_flags_4kib.shape_p3_huge.target_after tier=thorough bounded="pool of 7 tables (4 path + 3 allocatable); tree-shaped sparse pre-state (target path, one neighbour word per path table, garbage in allocatable frames); recursive index 300; page-table indices (255,511,0,256)"
    //@ obligation C11 C11.recursive_update_flags_4kib.shape_p3_huge.target_after tier=thorough bounded="pool of 7 tables (4 path + 3 allocatable); tree-shaped sparse pre-state (target path, one neighbour word per path table, garbage in allocatable frames); recursive index 300; page-table indices (255,511,0,256)"
    //@ obligation C01 C01.recursive_update_flags_4kib.shape_p3_huge.other_addresses_unchanged tier=thorough bounded="pool of 7 tables (4 path + 3 allocatable); tree-shaped sparse pre-state (target path, one neighbour word per path table, garbage in allocatable frames); recursive index 300; page-table indices (255,511,0,256)"
    //@ obligation C11 C11.recursive_update_flags_4kib.shape_p3_huge.other_addresses_unchanged tier=thorough bounded="pool of 7 tables (4 path + 3 allocatable); tree-shaped sparse pre-state (target path, one neighbour word per path table, garbage in allocatable frames); recursive index 300; page-table indices (255,511,0,256)"
    //@ obligation C02 C02.recursive_update_flags_4kib.shape_p3_huge.error_leaves_every_mapping tier=thorough bounded="pool of 7 tables (4 path + 3 allocatable); tree-shaped sparse pre-state (target path, one neighbour word per path table, garbage in allocatable frames); recursive index 300; page-table indices (255,511,0,256)"
    //@ obligation C09 C09.recursive_update_flags_4kib.shape_p3_huge.only_dictated_slots_change tier=thorough bounded="pool of 7 tables (4 path + 3 allocatable); tree-shaped sparse pre-state (target path, one neighbour word per path table, garbage in allocatable frames); recursive index 300; page-table indices (255,511,0,256)"
    //@ obligation C09 C09.recursive_update_flags_4kib.shape_p3_huge.no_frames_requested_or_zeroed tier=thorough bounded="pool of 7 tables (4 path + 3 allocatable); tree-shaped sparse pre-state (target path, one neighbour word per path table, garbage in allocatable frames); recursive index 300; page-table indices (255,511,0,256)"
    //@ obligation C09 C09.recursive_update_flags_4kib.shape_p3_huge.no_dangling_table_pointer tier=thorough bounded="pool of 7 tables (4 path + 3 allocatable); tree-shaped sparse pre-state (target path, one neighbour word per path table, garbage in allocatable frames); recursive index 300; page-table indices (255,511,0,256)"
    //@ obligation C09 C09.recursive_update_flags_4kib.shape_p3_huge.no_access_outside_page_tables tier=thorough bounded="pool of 7 tables (4 path + 3 allocatable); tree-shaped sparse pre-state (target path, one neighbour word per path table, garbage in allocatable frames); recursive index 300; page-table indices (255,511,0,256)"
    #[kani::proof]
    #[kani::stub(crate::structures::paging::page_table::PageTable::zero, zero_stub)]
    #[kani::stub(crate::addr::VirtAddr::as_mut_ptr, mmu_trap_as_mut_ptr)]
    fn c01_recursive_update_flags_p3_huge_mid() {
        rec_leaf_op_step!("update_flags", 1, "p3_huge", P3_HUGE, IDX_MID);
        kani::cover!(true, "c01_recursive_update_flags_p3_huge_mid: reachable");
    }

    //@ obligation C02 C02.recursive_update_flags_4kib.shape_p3_huge.huge_parent_is_reported_not_walked bounded="pool of 7 tables (4 path + 3 allocatable); tree-shaped sparse pre-state (target path, one neighbour word per path table, garbage in allocatable frames); recursive index 300; page-table indices (256,0,510,511)"
    //@ obligation C02 C02.recursive_update_flags_4kib.shape_p3_huge.documented_outcome bounded="pool of 7 tables (4 path + 3 allocatable); tree-shaped sparse pre-state (target path, one neighbour word per path table, garbage in allocatable frames); recursive index 300; page-table indices (256,0,510,511)"
    //@ obligation C11 C11.recursive_update_flags_4kib.shape_p3_huge.token_names_page bounded="pool of 7 tables (4 path + 3 allocatable); tree-shaped sparse pre-state (target path, one neighbour word per path table, garbage in allocatable frames); recursive index 300; page-table indices (256,0,510,511)"
    //@ obligation C01 C01.recursive_update_flags_4kib.shape_p3_huge.target_after bounded="pool of 7 tables (4 path + 3 allocatable); tree-shaped sparse pre-state (target path, one neighbour word per path table, garbage in allocatable frames); recursive index 300; page-table indices (256,0,510,511)"
    //@ obligation C11 C11.recursive_update_flags_4kib.shape_p3_huge.target_after bounded="pool of 7 tables (4 path + 3 allocatable); tree-shaped sparse pre-state (target path, one neighbour word per path table, garbage in allocatable frames); recursive index 300; page-table indices (256,0,510,511)"
    //@ obligation C01 C01.recursive_update_flags_4kib.shape_p3_huge.other_addresses_unchanged bounded="pool of 7 tables (4 path + 3 allocatable); tree-shaped sparse pre-state (target path, one neighbour word per path table, garbage in allocatable frames); recursive index 300; page-table indices (256,0,510,511)"
    //@ obligation C11 C11.recursive_update_flags_4kib.shape_p3_huge.other_addresses_unchanged bounded="pool of 7 tables (4 path + 3 allocatable); tree-shaped sparse pre-state (target path, one neighbour word per path table, garbage in allocatable frames); recursive index 300; page-table indices (256,0,510,511)"
    //@ obligation C02 C02.recursive_update_flags_4kib.shape_p3_huge.error_leaves_every_mapping bounded="pool of 7 tables (4 path + 3 allocatable); tree-shaped sparse pre-state (target path, one neighbour word per path table, garbage in allocatable frames); recursive index 300; page-table indices (256,0,510,511)"
    //@ obligation C09 C09.recursive_update_flags_4kib.shape_p3_huge.only_dictated_slots_change bounded="pool of 7 tables (4 path + 3 allocatable); tree-shaped sparse pre-state (target path, one neighbour word per path table, garbage in allocatable frames); recursive index 300; page-table indices (256,0,510,511)"
    //@ obligation C09 C09.recursive_update_flags_4kib.shape_p3_huge.no_frames_requested_or_zeroed bounded="pool of 7 tables (4 path + 3 allocatable); tree-shaped sparse pre-state (target path, one neighbour word per path table, garbage in allocatable frames); recursive index 300; page-table indices (256,0,510,511)"
    //@ obligation C09 C09.recursive_update_flags_4kib.shape_p3_huge.no_dangling_table_pointer bounded="pool of 7 tables (4 path + 3 allocatable); tree-shaped sparse pre-state (target path, one neighbour word per path table, garbage in allocatable frames); recursive index 300; page-table indices (256,0,510,511)"
    //@ obligation C09 C09.recursive_update_flags_4kib.shape_p3_huge.no_access_outside_page_tables bounded="pool of 7 tables (4 path + 3 allocatable); tree-shaped sparse pre-state (target path, one neighbour word per path table, garbage in allocatable frames); recursive index 300; page-table indices (256,0,510,511)"
    #[kani::proof]
    #[kani::stub(crate::structures::paging::page_table::PageTable::zero, zero_stub)]
    #[kani::stub(crate::addr::VirtAddr::as_mut_ptr, mmu_trap_as_mut_ptr)]
    fn c01_recursive_update_flags_p3_huge_up() {
        rec_leaf_op_step!("update_flags", 1, "p3_huge", P3_HUGE, IDX_UP);
        kani::cover!(true, "c01_recursive_update_flags_p3_huge_up: reachable");
    }

    //@ obligation C02 C02.recursive_update_flags_4kib.shape_p2_absent.huge_parent_is_reported_not_walked tier=thorough bounded="pool of 7 tables (4 path + 3 allocatable); tree-shaped sparse pre-state (target path, one neighbour word per path table, garbage in allocatable frames); recursive index 300; page-table indices (255,511,0,256)"
    //@ obligation C02 C02.recursive_update_flags_4kib.shape_p2_absent.documented_outcome tier=thorough bounded="pool of 7 tables (4 path + 3 allocatable); tree-shaped sparse pre-state (target path, one neighbour word per path table, garbage in allocatable frames); recursive index 300; page-table indices (255,511,0,256)"
    //@ obligation C11 C11.recursive_update_flags_4kib.shape_p2_absent.token_names_page tier=thorough bounded="pool of 7 tables (4 path + 3 allocatable); tree-shaped sparse pre-state (target path, one neighbour word per path table, garbage in allocatable frames); recursive index 300; page-table indices (255,511,0,256)"
    //@ obligation C01 C01.recursive_update_flags_4kib.shape_p2_absent.target_after tier=thorough bounded="pool of 7 tables (4 path + 3 allocatable); tree-shaped sparse pre-state (target path, one neighbour word per path table, garbage in allocatable frames); recursive index 300; page-table indices (255,511,0,256)"
    //@ obligation C11 C11.recursive_update_flags_4kib.shape_p2_absent.target_after tier=thorough bounded="pool of 7 tables (4 path + 3 allocatable); tree-shaped sparse pre-state (target path, one neighbour word per path table, garbage in allocatable frames); recursive index 300; page-table indices (255,511,0,256)"
    //@ obligation C01 C01.recursive_update_flags_4kib.shape_p2_absent.other_addresses_unchanged tier=thorough bounded="pool of 7 tables (4 path + 3 allocatable); tree-shaped sparse pre-state (target path, one neighbour word per path table, garbage in allocatable frames); recursive index 300; page-table indices (255,511,0,256)"
    //@ obligation C11 C11.recursive_update_flags_4kib.shape_p2_absent.other_addresses_unchanged tier=thorough bounded="pool of 7 tables (4 path + 3 allocatable); tree-shaped sparse pre-state (target path, one neighbour word per path table, garbage in allocatable frames); recursive index 300; page-table indices (255,511,0,256)"
    //@ obligation C02 C02.recursive_update_flags_4kib.shape_p2_absent.error_leaves_every_mapping tier=thorough bounded="pool of 7 tables (4 path + 3 allocatable); tree-shaped sparse pre-state (target path, one neighbour word per path table, garbage in allocatable frames); recursive index 300; page-table indices (255,511,0,256)"
    //@ obligation C09 C09.recursive_update_flags_4kib.shape_p2_absent.only_dictated_slots_change tier=thorough bounded="pool of 7 tables (4 path + 3 allocatable); tree-shaped sparse pre-state (target path, one neighbour word per path table, garbage in allocatable frames); recursive index 300; page-table indices (255,511,0,256)"
    //@ obligation C09 C09.recursive_update_flags_4kib.shape_p2_absent.no_frames_requested_or_zeroed tier=thorough bounded="pool of 7 tables (4 path + 3 allocatable); tree-shaped sparse pre-state (target path, one neighbour word per path table, garbage in allocatable frames); recursive index 300; page-table indices (255,511,0,256)"
    //@ obligation C09 C09.recursive_update_flags_4kib.shape_p2_absent.no_dangling_table_pointer tier=thorough bounded="pool of 7 tables (4 path + 3 allocatable); tree-shaped sparse pre-state (target path, one neighbour word per path table, garbage in allocatable frames); recursive index 300; page-table indices (255,511,0,256)"
    //@ obligation C09 C09.recursive_update_flags_4kib.shape_p2_absent.no_access_outside_page_tables tier=thorough bounded="pool of 7 tables (4 path + 3 allocatable); tree-shaped sparse pre-state (target path, one neighbour word per path table, garbage in allocatable frames); recursive index 300; page-table indices (255,511,0,256)"
    #[kani::proof]
    #[kani::stub(crate::structures::paging::page_table::PageTable::zero, zero_stub)]
    #[kani::stub(crate::addr::VirtAddr::as_mut_ptr, mmu_trap_as_mut_ptr)]
    fn c01_recursive_update_flags_p2_absent_mid() {
        rec_leaf_op_step!("update_flags", 1, "p2_absent", P2_ABSENT, IDX_MID);
        kani::cover!(true, "c01_recursive_update_flags_p2_absent_mid: reachable");
    }

    //@ obligation C02 C02.recursive_update_flags_4kib.shape_p2_absent.huge_parent_is_reported_not_walked bounded="pool of 7 tables (4 path + 3 allocatable); tree-shaped sparse pre-state (target path, one neighbour word per path table, garbage in allocatable frames); recursive index 300; page-table indices (256,0,510,511)"
    //@ obligation C02 C02.recursive_update_flags_4kib.shape_p2_absent.documented_outcome bounded="pool of 7 tables (4 path + 3 allocatable); tree-shaped sparse pre-state (target path, one neighbour word per path table, garbage in allocatable frames); recursive index 300; page-table indices (256,0,510,511)"
    //@ obligation C11 C11.recursive_update_flags_4kib.shape_p2_absent.token_names_page bounded="pool of 7 tables (4 path + 3 allocatable); tree-shaped sparse pre-state (target path, one neighbour word per path table, garbage in allocatable frames); recursive index 300; page-table indices (256,0,510,511)"
    //@ obligation C01 C01.recursive_update_flags_4kib.shape_p2_absent.target_after bounded="pool of 7 tables (4 path + 3 allocatable); tree-shaped sparse pre-state (target path, one neighbour word per path table, garbage in allocatable frames); recursive index 300; page-table indices (256,0,510,511)"
    //@ obligation C11 C11.recursive_update_flags_4kib.shape_p2_absent.target_after bounded="pool of 7 tables (4 path + 3 allocatable); tree-shaped sparse pre-state (target path, one neighbour word per path table, garbage in allocatable frames); recursive index 300; page-table indices (256,0,510,511)"
    //@ obligation C01 C01.recursive_update_flags_4kib.shape_p2_absent.other_addresses_unchanged bounded="pool of 7 tables (4 path + 3 allocatable); tree-shaped sparse pre-state (target path, one neighbour word per path table, garbage in allocatable frames); recursive index 300; page-table indices (256,0,510,511)"
    //@ obligation C11 C11.recursive_update_flags_4kib.shape_p2_absent.other_addresses_unchanged bounded="pool of 7 tables (4 path + 3 allocatable); tree-shaped sparse pre-state (target path, one neighbour word per path table, garbage in allocatable frames); recursive index 300; page-table indices (256,0,510,511)"
    //@ obligation C02 C02.recursive_update_flags_4kib.shape_p2_absent.error_leaves_every_mapping bounded="pool of 7 tables (4 path + 3 allocatable); tree-shaped sparse pre-state (target path, one neighbour word per path table, garbage in allocatable frames); recursive index 300; page-table indices (256,0,510,511)"
    //@ obligation C09 C09.recursive_update_flags_4kib.shape_p2_absent.only_dictated_slots_change bounded="pool of 7 tables (4 path + 3 allocatable); tree-shaped sparse pre-state (target path, one neighbour word per path table, garbage in allocatable frames); recursive index 300; page-table indices (256,0,510,511)"
    //@ obligation C09 C09.recursive_update_flags_4kib.shape_p2_absent.no_frames_requested_or_zeroed bounded="pool of 7 tables (4 path + 3 allocatable); tree-shaped sparse pre-state (target path, one neighbour word per path table, garbage in allocatable frames); recursive index 300; page-table indices (256,0,510,511)"
    //@ obligation C09 C09.recursive_update_flags_4kib.shape_p2_absent.no_dangling_table_pointer bounded="pool of 7 tables (4 path + 3 allocatable); tree-shaped sparse pre-state (target path, one neighbour word per path table, garbage in allocatable frames); recursive index 300; page-table indices (256,0,510,511)"
    //@ obligation C09 C09.recursive_update_flags_4kib.shape_p2_absent.no_access_outside_page_tables bounded="pool of 7 tables (4 path + 3 allocatable); tree-shaped sparse pre-state (target path, one neighbour word per path table, garbage in allocatable frames); recursive index 300; page-table indices (256,0,510,511)"
    #[kani::proof]
    #[kani::stub(crate::structures::paging::page_table::PageTable::zero, zero_stub)]
    #[kani::stub(crate::addr::VirtAddr::as_mut_ptr, mmu_trap_as_mut_ptr)]
    fn c01_recursive_update_flags_p2_absent_up() {
        rec_leaf_op_step!("update_flags", 1, "p2_absent", P2_ABSENT, IDX_UP);
        kani::cover!(true, "c01_recursive_update_flags_p2_absent_up: reachable");
    }

    //@ obligation C02 C02.recursive_update_flags_4kib.shape_p2_huge.huge_parent_is_reported_not_walked bounded="pool of 7 tables (4 path + 3 allocatable); tree-shaped sparse pre-state (target path, one neighbour word per path table, garbage in allocatable frames); recursive index 300; page-table indices (255,511,0,256)"
    //@ obligation C02 C02.recursive_update_flags_4kib.shape_p2_huge.documented_outcome bounded="pool of 7 tables (4 path + 3 allocatable); tree-shaped sparse pre-state (target path, one neighbour word per path table, garbage in allocatable frames); recursive index 300; page-table indices (255,511,0,256)"
    //@ obligation C11 C11.recursive_update_flags_4kib.shape_p2_huge.token_names_page bounded="pool of 7 tables (4 path + 3 allocatable); tree-shaped sparse pre-state (target path, one neighbour word per path table, garbage in allocatable frames); recursive index 300; page-table indices (255,511,0,256)"
    //@ obligation C01 C01.recursive_update_flags_4kib.shape_p2_huge.target_after bounded="pool of 7 tables (4 path + 3 allocatable); tree-shaped sparse pre-state (target path, one neighbour word per path table, garbage in allocatable frames); recursive index 300; page-table indices (255,511,0,256)"
    //@ obligation C11 C11.recursive_update_flags_4kib.shape_p2_huge.target_after bounded="pool of 7 tables (4 path + 3 allocatable); tree-shaped sparse pre-state (target path, one neighbour word per path table, garbage in allocatable frames); recursive index 300; page-table indices (255,511,0,256)"
    //@ obligation C01 C01.recursive_update_flags_4kib.shape_p2_huge.other_addresses_unchanged bounded="pool of 7 tables (4 path + 3 allocatable); tree-shaped sparse pre-state (target path, one neighbour word per path table, garbage in allocatable frames); recursive index 300; page-table indices (255,511,0,256)"
    //@ obligation C11 C11.recursive_update_flags_4kib.shape_p2_huge.other_addresses_unchanged bounded="pool of 7 tables (4 path + 3 allocatable); tree-shaped sparse pre-state (target path, one neighbour word per path table, garbage in allocatable frames); recursive index 300; page-table indices (255,511,0,256)"
    //@ obligation C02 C02.recursive_update_flags_4kib.shape_p2_huge.error_leaves_every_mapping bounded="pool of 7 tables (4 path + 3 allocatable); tree-shaped sparse pre-state (target path, one neighbour word per path table, garbage in allocatable frames); recursive index 300; page-table indices (255,511,0,256)"
    //@ obligation C09 C09.recursive_update_flags_4kib.shape_p2_huge.only_dictated_slots_change bounded="pool of 7 tables (4 path + 3 allocatable); tree-shaped sparse pre-state (target path, one neighbour word per path table, garbage in allocatable frames); recursive index 300; page-table indices (255,511,0,256)"
    //@ obligation C09 C09.recursive_update_flags_4kib.shape_p2_huge.no_frames_requested_or_zeroed bounded="pool of 7 tables (4 path + 3 allocatable); tree-shaped sparse pre-state (target path, one neighbour word per path table, garbage in allocatable frames); recursive index 300; page-table indices (255,511,0,256)"
    //@ obligation C09 C09.recursive_update_flags_4kib.shape_p2_huge.no_dangling_table_pointer bounded="pool of 7 tables (4 path + 3 allocatable); tree-shaped sparse pre-state (target path, one neighbour word per path table, garbage in allocatable frames); recursive index 300; page-table indices (255,511,0,256)"
    //@ obligation C09 C09.recursive_update_flags_4kib.shape_p2_huge.no_access_outside_page_tables bounded="pool of 7 tables (4 path + 3 allocatable); tree-shaped sparse pre-state (target path, one neighbour word per path table, garbage in allocatable frames); recursive index 300; page-table indices (255,511,0,256)"
    #[kani::proof]
    #[kani::stub(crate::structures::paging::page_table::PageTable::zero, zero_stub)]
    #[kani::stub(crate::addr::VirtAddr::as_mut_ptr, mmu_trap_as_mut_ptr)]
    fn c01_recursive_update_flags_p2_huge_mid() {
        rec_leaf_op_step!("update_flags", 1, "p2_huge", P2_HUGE, IDX_MID);
        kani::cover!(true, "c01_recursive_update_flags_p2_huge_mid: reachable");
    }

    //@ obligation C02 C02.recursive_update_flags_4kib.shape_p2_huge.huge_parent_is_reported_not_walked tier=thorough bounded="pool of 7 tables (4 path + 3 allocatable); tree-shaped sparse pre-state (target path, one neighbour word per path table, garbage in allocatable frames); recursive index 300; page-table indices (256,0,510,511)"
    //@ obligation C02 C02.recursive_update_flags_4kib.shape_p2_huge.documented_outcome tier=thorough bounded="pool of 7 tables (4 path + 3 allocatable); tree-shaped sparse pre-state (target path, one neighbour word per path table, garbage in allocatable frames); recursive index 300; page-table indices (256,0,510,511)"
    //@ obligation C11 C11.recursive_update_flags_4kib.shape_p2_huge.token_names_page tier=thorough bounded="pool of 7 tables (4 path + 3 allocatable); tree-shaped sparse pre-state (target path, one neighbour word per path table, garbage in allocatable frames); recursive index 300; page-table indices (256,0,510,511)"
    //@ obligation C01 C01.recursive_update_flags_4kib.shape_p2_huge.target_after tier=thorough bounded="pool of 7 tables (4 path + 3 allocatable); tree-shaped sparse pre-state (target path, one neighbour word per path table, garbage in allocatable frames); recursive index 300; page-table indices (256,0,510,511)"
    //@ obligation C11 C11.recursive_update_flags_4kib.shape_p2_huge.target_after tier=thorough bounded="pool of 7 tables (4 path + 3 allocatable); tree-shaped sparse pre-state (target path, one neighbour word per path table, garbage in allocatable frames); recursive index 300; page-table indices (256,0,510,511)"
    //@ obligation C01 C01.recursive_update_flags_4kib.shape_p2_huge.other_addresses_unchanged tier=thorough bounded="pool of 7 tables (4 path + 3 allocatable); tree-shaped sparse pre-state (target path, one neighbour word per path table, garbage in allocatable frames); recursive index 300; page-table indices (256,0,510,511)"
    //@ obligation C11 C11.recursive_update_flags_4kib.shape_p2_huge.other_addresses_unchanged tier=thorough bounded="pool of 7 tables (4 path + 3 allocatable); tree-shaped sparse pre-state (target path, one neighbour word per path table, garbage in allocatable frames); recursive index 300; page-table indices (256,0,510,511)"
    //@ obligation C02 C02.recursive_update_flags_4kib.shape_p2_huge.error_leaves_every_mapping tier=thorough bounded="pool of 7 tables (4 path + 3 allocatable); tree-shaped sparse pre-state (target path, one neighbour word per path table, garbage in allocatable frames); recursive index 300; page-table indices (256,0,510,511)"
    //@ obligation C09 C09.recursive_update_flags_4kib.shape_p2_huge.only_dictated_slots_change tier=thorough bounded="pool of 7 tables (4 path + 3 allocatable); tree-shaped sparse pre-state (target path, one neighbour word per path table, garbage in allocatable frames); recursive index 300; page-table indices (256,0,510,511)"
    //@ obligation C09 C09.recursive_update_flags_4kib.shape_p2_huge.no_frames_requested_or_zeroed tier=thorough bounded="pool of 7 tables (4 path + 3 allocatable); tree-shaped sparse pre-state (target path, one neighbour word per path table, garbage in allocatable frames); recursive index 300; page-table indices (256,0,510,511)"
    //@ obligation C09 C09.recursive_update_flags_4kib.shape_p2_huge.no_dangling_table_pointer tier=thorough bounded="pool of 7 tables (4 path + 3 allocatable); tree-shaped sparse pre-state (target path, one neighbour word per path table, garbage in allocatable frames); recursive index 300; page-table indices (256,0,510,511)"
    //@ obligation C09 C09.recursive_update_flags_4kib.shape_p2_huge.no_access_outside_page_tables tier=thorough bounded="pool of 7 tables (4 path + 3 allocatable); tree-shaped sparse pre-state (target path, one neighbour word per path table, garbage in allocatable frames); recursive index 300; page-table indices (256,0,510,511)"
    #[kani::proof]
    #[kani::stub(crate::structures::paging::page_table::PageTable::zero, zero_stub)]
    #[kani::stub(crate::addr::VirtAddr::as_mut_ptr, mmu_trap_as_mut_ptr)]
    fn c01_recursive_update_flags_p2_huge_up() {
        rec_leaf_op_step!("update_flags", 1, "p2_huge", P2_HUGE, IDX_UP);
        kani::cover!(true, "c01_recursive_update_flags_p2_huge_up: reachable");
    }

    //@ obligation C02 C02.recursive_update_flags_4kib.shape_p1_absent.huge_parent_is_reported_not_walked bounded="pool of 7 tables (4 path + 3 allocatable); tree-shaped sparse pre-state (target path, one neighbour word per path table, garbage in allocatable frames); recursive index 300; page-table indices (255,511,0,256)"
    //@ obligation C02 C02.recursive_update_flags_4kib.shape_p1_absent.documented_outcome bounded="pool of 7 tables (4 path + 3 allocatable); tree-shaped sparse pre-state (target path, one neighbour word per path table, garbage in allocatable frames); recursive index 300; page-table indices (255,511,0,256)"
    //@ obligation C11 C11.recursive_update_flags_4kib.shape_p1_absent.token_names_page bounded="pool of 7 tables (4 path + 3 allocatable); tree-shaped sparse pre-state (target path, one neighbour word per path table, garbage in allocatable frames); recursive index 300; page-table indices (255,511,0,256)"
    //@ obligation C01 C01.recursive_update_flags_4kib.shape_p1_absent.target_after bounded="pool of 7 tables (4 path + 3 allocatable); tree-shaped sparse pre-state (target path, one neighbour word per path table, garbage in allocatable frames); recursive index 300; page-table indices (255,511,0,256)"
    //@ obligation C11 C11.recursive_update_flags_4kib.shape_p1_absent.target_after bounded="pool of 7 tables (4 path + 3 allocatable); tree-shaped sparse pre-state (target path, one neighbour word per path table, garbage in allocatable frames); recursive index 300; page-table indices (255,511,0,256)"
    //@ obligation C01 C01.recursive_update_flags_4kib.shape_p1_absent.other_addresses_unchanged bounded="pool of 7 tables (4 path + 3 allocatable); tree-shaped sparse pre-state (target path, one neighbour word per path table, garbage in allocatable frames); recursive index 300; page-table indices (255,511,0,256)"
    //@ obligation C11 C11.recursive_update_flags_4kib.shape_p1_absent.other_addresses_unchanged bounded="pool of 7 tables (4 path + 3 allocatable); tree-shaped sparse pre-state (target path, one neighbour word per path table, garbage in allocatable frames); recursive index 300; page-table indices (255,511,0,256)"
    //@ obligation C02 C02.recursive_update_flags_4kib.shape_p1_absent.error_leaves_every_mapping bounded="pool of 7 tables (4 path + 3 allocatable); tree-shaped sparse pre-state (target path, one neighbour word per path table, garbage in allocatable frames); recursive index 300; page-table indices (255,511,0,256)"
    //@ obligation C09 C09.recursive_update_flags_4kib.shape_p1_absent.only_dictated_slots_change bounded="pool of 7 tables (4 path + 3 allocatable); tree-shaped sparse pre-state (target path, one neighbour word per path table, garbage in allocatable frames); recursive index 300; page-table indices (255,511,0,256)"
    //@ obligation C09 C09.recursive_update_flags_4kib.shape_p1_absent.no_frames_requested_or_zeroed bounded="pool of 7 tables (4 path + 3 allocatable); tree-shaped sparse pre-state (target path, one neighbour word per path table, garbage in allocatable frames); recursive index 300; page-table indices (255,511,0,256)"
    //@ obligation C09 C09.recursive_update_flags_4kib.shape_p1_absent.no_dangling_table_pointer bounded="pool of 7 tables (4 path + 3 allocatable); tree-shaped sparse pre-state (target path, one neighbour word per path table, garbage in allocatable frames); recursive index 300; page-table indices (255,511,0,256)"
    //@ obligation C09 C09.recursive_update_flags_4kib.shape_p1_absent.no_access_outside_page_tables bounded="pool of 7 tables (4 path + 3 allocatable); tree-shaped sparse pre-state (target path, one neighbour word per path table, garbage in allocatable frames); recursive index 300; page-table indices (255,511,0,256)"
    #[kani::proof]
    #[kani::stub(crate::structures::paging::page_table::PageTable::zero, zero_stub)]
    #[kani::stub(crate::addr::VirtAddr::as_mut_ptr, mmu_trap_as_mut_ptr)]
    fn c01_recursive_update_flags_p1_absent_mid() {
        rec_leaf_op_step!("update_flags", 1, "p1_absent", P1_ABSENT, IDX_MID);
        kani::cover!(true, "c01_recursive_update_flags_p1_absent_mid: reachable");
    }

    //@ obligation C02 C02.recursive_update_flags_4kib.shape_p1_absent.huge_parent_is_reported_not_walked tier=thorough bounded="pool of 7 tables (4 path + 3 allocatable); tree-shaped sparse pre-state (target path, one neighbour word per path table, garbage in allocatable frames); recursive index 300; page-table indices (256,0,510,511)"
    //@ obligation C02 C02.recursive_update_flags_4kib.shape_p1_absent.documented_outcome tier=thorough bounded="pool of 7 tables (4 path + 3 allocatable); tree-shaped sparse pre-state (target path, one neighbour word per path table, garbage in allocatable frames); recursive index 300; page-table indices (256,0,510,511)"
    //@ obligation C11 C11.recursive_update_flags_4kib.shape_p1_absent.token_names_page tier=thorough bounded="pool of 7 tables (4 path + 3 allocatable); tree-shaped sparse pre-state (target path, one neighbour word per path table, garbage in allocatable frames); recursive index 300; page-table indices (256,0,510,511)"
    //@ obligation C01 C01.recursive_update_flags_4kib.shape_p1_absent.target_after tier=thorough bounded="pool of 7 tables (4 path + 3 allocatable); tree-shaped sparse pre-state (target path, one neighbour word per path table, garbage in allocatable frames); recursive index 300; page-table indices (256,0,510,511)"
    //@ obligation C11 C11.recursive_update_flags_4kib.shape_p1_absent.target_after tier=thorough bounded="pool of 7 tables (4 path + 3 allocatable); tree-shaped sparse pre-state (target path, one neighbour word per path table, garbage in allocatable frames); recursive index 300; page-table indices (256,0,510,511)"
    //@ obligation C01 C01.recursive_update_flags_4kib.shape_p1_absent.other_addresses_unchanged tier=thorough bounded="pool of 7 tables (4 path + 3 allocatable); tree-shaped sparse pre-state (target path, one neighbour word per path table, garbage in allocatable frames); recursive index 300; page-table indices (256,0,510,511)"
    //@ obligation C11 C11.recursive_update_flags_4kib.shape_p1_absent.other_addresses_unchanged tier=thorough bounded="pool of 7 tables (4 path + 3 allocatable); tree-shaped sparse pre-state (target path, one neighbour word per path table, garbage in allocatable frames); recursive index 300; page-table indices (256,0,510,511)"
    //@ obligation C02 C02.recursive_update_flags_4kib.shape_p1_absent.error_leaves_every_mapping tier=thorough bounded="pool of 7 tables (4 path + 3 allocatable); tree-shaped sparse pre-state (target path, one neighbour word per path table, garbage in allocatable frames); recursive index 300; page-table indices (256,0,510,511)"
    //@ obligation C09 C09.recursive_update_flags_4kib.shape_p1_absent.only_dictated_slots_change tier=thorough bounded="pool of 7 tables (4 path + 3 allocatable); tree-shaped sparse pre-state (target path, one neighbour word per path table, garbage in allocatable frames); recursive index 300; page-table indices (256,0,510,511)"
    //@ obligation C09 C09.recursive_update_flags_4kib.shape_p1_absent.no_frames_requested_or_zeroed tier=thorough bounded="pool of 7 tables (4 path + 3 allocatable); tree-shaped sparse pre-state (target path, one neighbour word per path table, garbage in allocatable frames); recursive index 300; page-table indices (256,0,510,511)"
    //@ obligation C09 C09.recursive_update_flags_4kib.shape_p1_absent.no_dangling_table_pointer tier=thorough bounded="pool of 7 tables (4 path + 3 allocatable); tree-shaped sparse pre-state (target path, one neighbour word per path table, garbage in allocatable frames); recursive index 300; page-table indices (256,0,510,511)"
    //@ obligation C09 C09.recursive_update_flags_4kib.shape_p1_absent.no_access_outside_page_tables tier=thorough bounded="pool of 7 tables (4 path + 3 allocatable); tree-shaped sparse pre-state (target path, one neighbour word per path table, garbage in allocatable frames); recursive index 300; page-table indices (256,0,510,511)"
    #[kani::proof]
    #[kani::stub(crate::structures::paging::page_table::PageTable::zero, zero_stub)]
    #[kani::stub(crate::addr::VirtAddr::as_mut_ptr, mmu_trap_as_mut_ptr)]
    fn c01_recursive_update_flags_p1_absent_up() {
        rec_leaf_op_step!("update_flags", 1, "p1_absent", P1_ABSENT, IDX_UP);
        kani::cover!(true, "c01_recursive_update_flags_p1_absent_up: reachable");
    }

    //@ obligation C02 C02.recursive_update_flags_4kib.shape_p1_leaf.huge_parent_is_reported_not_walked bounded="pool of 7 tables (4 path + 3 allocatable); tree-shaped sparse pre-state (target path, one neighbour word per path table, garbage in allocatable frames); recursive index 300; page-table indices (255,511,0,256)"
    //@ obligation C02 C02.recursive_update_flags_4kib.shape_p1_leaf.documented_outcome bounded="pool of 7 tables (4 path + 3 allocatable); tree-shaped sparse pre-state (target path, one neighbour word per path table, garbage in allocatable frames); recursive index 300; page-table indices (255,511,0,256)"
    //@ obligation C11 C11.recursive_update_flags_4kib.shape_p1_leaf.token_names_page bounded="pool of 7 tables (4 path + 3 allocatable); tree-shaped sparse pre-state (target path, one neighbour word per path table, garbage in allocatable frames); recursive index 300; page-table indices (255,511,0,256)"
    //@ obligation C01 C01.recursive_update_flags_4kib.shape_p1_leaf.target_after bounded="pool of 7 tables (4 path + 3 allocatable); tree-shaped sparse pre-state (target path, one neighbour word per path table, garbage in allocatable frames); recursive index 300; page-table indices (255,511,0,256)"
    //@ obligation C11 C11.recursive_update_flags_4kib.shape_p1_leaf.target_after bounded="pool of 7 tables (4 path + 3 allocatable); tree-shaped sparse pre-state (target path, one neighbour word per path table, garbage in allocatable frames); recursive index 300; page-table indices (255,511,0,256)"
    //@ obligation C01 C01.recursive_update_flags_4kib.shape_p1_leaf.other_addresses_unchanged bounded="pool of 7 tables (4 path + 3 allocatable); tree-shaped sparse pre-state (target path, one neighbour word per path table, garbage in allocatable frames); recursive index 300; page-table indices (255,511,0,256)"
    //@ obligation C11 C11.recursive_update_flags_4kib.shape_p1_leaf.other_addresses_unchanged bounded="pool of 7 tables (4 path + 3 allocatable); tree-shaped sparse pre-state (target path, one neighbour word per path table, garbage in allocatable frames); recursive index 300; page-table indices (255,511,0,256)"
    //@ obligation C02 C02.recursive_update_flags_4kib.shape_p1_leaf.error_leaves_every_mapping bounded="pool of 7 tables (4 path + 3 allocatable); tree-shaped sparse pre-state (target path, one neighbour word per path table, garbage in allocatable frames); recursive index 300; page-table indices (255,511,0,256)"
    //@ obligation C09 C09.recursive_update_flags_4kib.shape_p1_leaf.only_dictated_slots_change bounded="pool of 7 tables (4 path + 3 allocatable); tree-shaped sparse pre-state (target path, one neighbour word per path table, garbage in allocatable frames); recursive index 300; page-table indices (255,511,0,256)"
    //@ obligation C09 C09.recursive_update_flags_4kib.shape_p1_leaf.no_frames_requested_or_zeroed bounded="pool of 7 tables (4 path + 3 allocatable); tree-shaped sparse pre-state (target path, one neighbour word per path table, garbage in allocatable frames); recursive index 300; page-table indices (255,511,0,256)"
    //@ obligation C09 C09.recursive_update_flags_4kib.shape_p1_leaf.no_dangling_table_pointer bounded="pool of 7 tables (4 path + 3 allocatable); tree-shaped sparse pre-state (target path, one neighbour word per path table, garbage in allocatable frames); recursive index 300; page-table indices (255,511,0,256)"
    //@ obligation C09 C09.recursive_update_flags_4kib.shape_p1_leaf.no_access_outside_page_tables bounded="pool of 7 tables (4 path + 3 allocatable); tree-shaped sparse pre-state (target path, one neighbour word per path table, garbage in allocatable frames); recursive index 300; page-table indices (255,511,0,256)"
    #[kani::proof]
    #[kani::stub(crate::structures::paging::page_table::PageTable::zero, zero_stub)]
    #[kani::stub(crate::addr::VirtAddr::as_mut_ptr, mmu_trap_as_mut_ptr)]
    fn c01_recursive_update_flags_p1_leaf_mid() {
        rec_leaf_op_step!("update_flags", 1, "p1_leaf", P1_LEAF, IDX_MID);
        kani::cover!(true, "c01_recursive_update_flags_p1_leaf_mid: reachable");
    }

    //@ obligation C02 C02.recursive_update_flags_4kib.shape_p1_leaf.huge_parent_is_reported_not_walked tier=thorough bounded="pool of 7 tables (4 path + 3 allocatable); tree-shaped sparse pre-state (target path, one neighbour word per path table, garbage in allocatable frames); recursive index 300; page-table indices (256,0,510,511)"
    //@ obligation C02 C02.recursive_update_flags_4kib.shape_p1_leaf.documented_outcome tier=thorough bounded="pool of 7 tables (4 path + 3 allocatable); tree-shaped sparse pre-state (target path, one neighbour word per path table, garbage in allocatable frames); recursive index 300; page-table indices (256,0,510,511)"
    //@ obligation C11 C11.recursive_update_flags_4kib.shape_p1_leaf.token_names_page tier=thorough bounded="pool of 7 tables (4 path + 3 allocatable); tree-shaped sparse pre-state (target path, one neighbour word per path table, garbage in allocatable frames); recursive index 300; page-table indices (256,0,510,511)"
    //@ obligation C01 C01.recursive_update_flags_4kib.shape_p1_leaf.target_after tier=thorough bounded="pool of 7 tables (4 path + 3 allocatable); tree-shaped sparse pre-state (target path, one neighbour word per path table, garbage in allocatable frames); recursive index 300; page-table indices (256,0,510,511)"
    //@ obligation C11 C11.recursive_update_flags_4kib.shape_p1_leaf.target_after tier=thorough bounded="pool of 7 tables (4 path + 3 allocatable); tree-shaped sparse pre-state (target path, one neighbour word per path table, garbage in allocatable frames); recursive index 300; page-table indices (256,0,510,511)"
    //@ obligation C01 C01.recursive_update_flags_4kib.shape_p1_leaf.other_addresses_unchanged tier=thorough bounded="pool of 7 tables (4 path + 3 allocatable); tree-shaped sparse pre-state (target path, one neighbour word per path table, garbage in allocatable frames); recursive index 300; page-table indices (256,0,510,511)"
    //@ obligation C11 C11.recursive_update_flags_4kib.shape_p1_leaf.other_addresses_unchanged tier=thorough bounded="pool of 7 tables (4 path + 3 allocatable); tree-shaped sparse pre-state (target path, one neighbour word per path table, garbage in allocatable frames); recursive index 300; page-table indices (256,0,510,511)"
    //@ obligation C02 C02.recursive_update_flags_4kib.shape_p1_leaf.error_leaves_every_mapping tier=thorough bounded="pool of 7 tables (4 path + 3 allocatable); tree-shaped sparse pre-state (target path, one neighbour word per path table, garbage in allocatable frames); recursive index 300; page-table indices (256,0,510,511)"
    //@ obligation C09 C09.recursive_update_flags_4kib.shape_p1_leaf.only_dictated_slots_change tier=thorough bounded="pool of 7 tables (4 path + 3 allocatable); tree-shaped sparse pre-state (target path, one neighbour word per path table, garbage in allocatable frames); recursive index 300; page-table indices (256,0,510,511)"
    //@ obligation C09 C09.recursive_update_flags_4kib.shape_p1_leaf.no_frames_requested_or_zeroed tier=thorough bounded="pool of 7 tables (4 path + 3 allocatable); tree-shaped sparse pre-state (target path, one neighbour word per path table, garbage in allocatable frames); recursive index 300; page-table indices (256,0,510,511)"
    //@ obligation C09 C09.recursive_update_flags_4kib.shape_p1_leaf.no_dangling_table_pointer tier=thorough bounded="pool of 7 tables (4 path + 3 allocatable); tree-shaped sparse pre-state (target path, one neighbour word per path table, garbage in allocatable frames); recursive index 300; page-table indices (256,0,510,511)"
    //@ obligation C09 C09.recursive_update_flags_4kib.shape_p1_leaf.no_access_outside_page_tables tier=thorough bounded="pool of 7 tables (4 path + 3 allocatable); tree-shaped sparse pre-state (target path, one neighbour word per path table, garbage in allocatable frames); recursive index 300; page-table indices (256,0,510,511)"
    #[kani::proof]
    #[kani::stub(crate::structures::paging::page_table::PageTable::zero, zero_stub)]
    #[kani::stub(crate::addr::VirtAddr::as_mut_ptr, mmu_trap_as_mut_ptr)]
    fn c01_recursive_update_flags_p1_leaf_up() {
        rec_leaf_op_step!("update_flags", 1, "p1_leaf", P1_LEAF, IDX_UP);
        kani::cover!(true, "c01_recursive_update_flags_p1_leaf_up: reachable");
    }

    //@ obligation C02 C02.recursive_translate_page_4kib.shape_p4_absent.huge_parent_is_reported_not_walked bounded="pool of 7 tables (4 path + 3 allocatable); tree-shaped sparse pre-state (target path, one neighbour word per path table, garbage in allocatable frames); recursive index 300; page-table indices (255,511,0,256)"
    //@ obligation C02 C02.recursive_translate_page_4kib.shape_p4_absent.documented_outcome bounded="pool of 7 tables (4 path + 3 allocatable); tree-shaped sparse pre-state (target path, one neighbour word per path table, garbage in allocatable frames); recursive index 300; page-table indices (255,511,0,256)"
    //@ obligation C01 C01.recursive_translate_page_4kib.shape_p4_absent.reports_mapped_frame bounded="pool of 7 tables (4 path + 3 allocatable); tree-shaped sparse pre-state (target path, one neighbour word per path table, garbage in allocatable frames); recursive index 300; page-table indices (255,511,0,256)"
    //@ obligation C01 C01.recursive_translate_page_4kib.shape_p4_absent.target_after bounded="pool of 7 tables (4 path + 3 allocatable); tree-shaped sparse pre-state (target path, one neighbour word per path table, garbage in allocatable frames); recursive index 300; page-table indices (255,511,0,256)"
    //@ obligation C01 C01.recursive_translate_page_4kib.shape_p4_absent.other_addresses_unchanged bounded="pool of 7 tables (4 path + 3 allocatable); tree-shaped sparse pre-state (target path, one neighbour word per path table, garbage in allocatable frames); recursive index 300; page-table indices (255,511,0,256)"
    //@ obligation C02 C02.recursive_translate_page_4kib.shape_p4_absent.error_leaves_every_mapping bounded="pool of 7 tables (4 path + 3 allocatable); tree-shaped sparse pre-state (target path, one neighbour word per path table, garbage in allocatable frames); recursive index 300; page-table indices (255,511,0,256)"
    //@ obligation C09 C09.recursive_translate_page_4kib.shape_p4_absent.only_dictated_slots_change bounded="pool of 7 tables (4 path + 3 allocatable); tree-shaped sparse pre-state (target path, one neighbour word per path table, garbage in allocatable frames); recursive index 300; page-table indices (255,511,0,256)"
    //@ obligation C09 C09.recursive_translate_page_4kib.shape_p4_absent.no_frames_requested_or_zeroed bounded="pool of 7 tables (4 path + 3 allocatable); tree-shaped sparse pre-state (target path, one neighbour word per path table, garbage in allocatable frames); recursive index 300; page-table indices (255,511,0,256)"
    //@ obligation C09 C09.recursive_translate_page_4kib.shape_p4_absent.no_dangling_table_pointer bounded="pool of 7 tables (4 path + 3 allocatable); tree-shaped sparse pre-state (target path, one neighbour word per path table, garbage in allocatable frames); recursive index 300; page-table indices (255,511,0,256)"
    //@ obligation C09 C09.recursive_translate_page_4kib.shape_p4_absent.no_access_outside_page_tables bounded="pool of 7 tables (4 path + 3 allocatable); tree-shaped sparse pre-state (target path, one neighbour word per path table, garbage in allocatable frames); recursive index 300; page-table indices (255,511,0,256)"
    #[kani::proof]
    #[kani::stub(crate::structures::paging::page_table::PageTable::zero, zero_stub)]
    #[kani::stub(crate::addr::VirtAddr::as_mut_ptr, mmu_trap_as_mut_ptr)]
    fn c01_recursive_translate_page_p4_absent_mid() {
        rec_leaf_op_step!("translate_page", 2, "p4_absent", P4_ABSENT, IDX_MID);
        kani::cover!(true, "c01_recursive_translate_page_p4_absent_mid: reachable");
    }

    //@ obligation C02 C02.recursive_translate_page_4kib.shape_p4_absent.huge_parent_is_reported_not_walked tier=thorough bounded="pool of 7 tables (4 path + 3 allocatable); tree-shaped sparse pre-state (target path, one neighbour word per path table, garbage in allocatable frames); recursive index 300; page-table indices (256,0,510,511)"
    //@ obligation C02 C02.recursive_translate_page_4kib.shape_p4_absent.documented_outcome tier=thorough bounded="pool of 7 tables (4 path + 3 allocatable); tree-shaped sparse pre-state (target path, one neighbour word per path table, garbage in allocatable frames); recursive index 300; page-table indices (256,0,510,511)"
    //@ obligation C01 C01.recursive_translate_page_4kib.shape_p4_absent.reports_mapped_frame tier=thorough bounded="pool of 7 tables (4 path + 3 allocatable); tree-shaped sparse pre-state (target path, one neighbour word per path table, garbage in allocatable frames); recursive index 300; page-table indices (256,0,510,511)"
    //@ obligation C01 C01.recursive_translate_page_4kib.shape_p4_absent.target_after tier=thorough bounded="pool of 7 tables (4 path + 3 allocatable); tree-shaped sparse pre-state (target path, one neighbour word per path table, garbage in allocatable frames); recursive index 300; page-table indices (256,0,510,511)"
    //@ obligation C01 C01.recursive_translate_page_4kib.shape_p4_absent.other_addresses_unchanged tier=thorough bounded="pool of 7 tables (4 path + 3 allocatable); tree-shaped sparse pre-state (target path, one neighbour word per path table, garbage in allocatable frames); recursive index 300; page-table indices (256,0,510,511)"
    //@ obligation C02 C02.recursive_translate_page_4kib.shape_p4_absent.error_leaves_every_mapping tier=thorough bounded="pool of 7 tables (4 path + 3 allocatable); tree-shaped sparse pre-state (target path, one neighbour word per path table, garbage in allocatable frames); recursive index 300; page-table indices (256,0,510,511)"
    //@ obligation C09 C09.recursive_translate_page_4kib.shape_p4_absent.only_dictated_slots_change tier=thorough bounded="pool of 7 tables (4 path + 3 allocatable); tree-shaped sparse pre-state (target path, one neighbour word per path table, garbage in allocatable frames); recursive index 300; page-table indices (256,0,510,511)"
    //@ obligation C09 C09.recursive_translate_page_4kib.shape_p4_absent.no_frames_requested_or_zeroed tier=thorough bounded="pool of 7 tables (4 path + 3 allocatable); tree-shaped sparse pre-state (target path, one neighbour word per path table, garbage in allocatable frames); recursive index 300; page-table indices (256,0,510,511)"
    //@ obligation C09 C09.recursive_translate_page_4kib.shape_p4_absent.no_dangling_table_pointer tier=thorough bounded="pool of 7 tables (4 path + 3 allocatable); tree-shaped sparse pre-state (target path, one neighbour word per path table, garbage in allocatable frames); recursive index 300; page-table indices (256,0,510,511)"
    //@ obligation C09 C09.recursive_translate_page_4kib.shape_p4_absent.no_access_outside_page_tables tier=thorough bounded="pool of 7 tables (4 path + 3 allocatable); tree-shaped sparse pre-state (target path, one neighbour word per path table, garbage in allocatable frames); recursive index 300; page-table indices (256,0,510,511)"
    #[kani::proof]
    #[kani::stub(crate::structures::paging::page_table::PageTable::zero, zero_stub)]
    #[kani::stub(crate::addr::VirtAddr::as_mut_ptr, mmu_trap_as_mut_ptr)]
    fn c01_recursive_translate_page_p4_absent_up() {
        rec_leaf_op_step!("translate_page", 2, "p4_absent", P4_ABSENT, IDX_UP);
        kani::cover!(true, "c01_recursive_translate_page_p4_absent_up: reachable");
    }

    //@ obligation C02 C02.recursive_translate_page_4kib.shape_p3_absent.huge_parent_is_reported_not_walked bounded="pool of 7 tables (4 path + 3 allocatable); tree-shaped sparse pre-state (target path, one neighbour word per path table, garbage in allocatable frames); recursive index 300; page-table indices (255,511,0,256)"
    //@ obligation C02 C02.recursive_translate_page_4kib.shape_p3_absent.documented_outcome bounded="pool of 7 tables (4 path + 3 allocatable); tree-shaped sparse pre-state (target path, one neighbour word per path table, garbage in allocatable frames); recursive index 300; page-table indices (255,511,0,256)"
    //@ obligation C01 C01.recursive_translate_page_4kib.shape_p3_absent.reports_mapped_frame bounded="pool of 7 tables (4 path + 3 allocatable); tree-shaped sparse pre-state (target path, one neighbour word per path table, garbage in allocatable frames); recursive index 300; page-table indices (255,511,0,256)"
    //@ obligation C01 C01.recursive_translate_page_4kib.shape_p3_absent.target_after bounded="pool of 7 tables (4 path + 3 allocatable); tree-shaped sparse pre-state (target path, one neighbour word per path table, garbage in allocatable frames); recursive index 300; page-table indices (255,511,0,256)"
    //@ obligation C01 C01.recursive_translate_page_4kib.shape_p3_absent.other_addresses_unchanged bounded="pool of 7 tables (4 path + 3 allocatable); tree-shaped sparse pre-state (target path, one neighbour word per path table, garbage in allocatable frames); recursive index 300; page-table indices (255,511,0,256)"
    //@ obligation C02 C02.recursive_translate_page_4kib.shape_p3_absent.error_leaves_every_mapping bounded="pool of 7 tables (4 path + 3 allocatable); tree-shaped sparse pre-state (target path, one neighbour word per path table, garbage in allocatable frames); recursive index 300; page-table indices (255,511,0,256)"
    //@ obligation C09 C09.recursive_translate_page_4kib.shape_p3_absent.only_dictated_slots_change bounded="pool of 7 tables (4 path + 3 allocatable); tree-shaped sparse pre-state (target path, one neighbour word per path table, garbage in allocatable frames); recursive index 300; page-table indices (255,511,0,256)"
    //@ obligation C09 C09.recursive_translate_page_4kib.shape_p3_absent.no_frames_requested_or_zeroed bounded="pool of 7 tables (4 path + 3 allocatable); tree-shaped sparse pre-state (target path, one neighbour word per path table, garbage in allocatable frames); recursive index 300; page-table indices (255,511,0,256)"
    //@ obligation C09 C09.recursive_translate_page_4kib.shape_p3_absent.no_dangling_table_pointer bounded="pool of 7 tables (4 path + 3 allocatable); tree-shaped sparse pre-state (target path, one neighbour word per path table, garbage in allocatable frames); recursive index 300; page-table indices (255,511,0,256)"
    //@ obligation C09 C09.recursive_translate_page_4kib.shape_p3_absent.no_access_outside_page_tables bounded="pool of 7 tables (4 path + 3 allocatable); tree-shaped sparse pre-state (target path, one neighbour word per path table, garbage in allocatable frames); recursive index 300; page-table indices (255,511,0,256)"
    #[kani::proof]
    #[kani::stub(crate::structures::paging::page_table::PageTable::zero, zero_stub)]
    #[kani::stub(crate::addr::VirtAddr::as_mut_ptr, mmu_trap_as_mut_ptr)]
    fn c01_recursive_translate_page_p3_absent_mid() {
        rec_leaf_op_step!("translate_page", 2, "p3_absent", P3_ABSENT, IDX_MID);
        kani::cover!(true, "c01_recursive_translate_page_p3_absent_mid: reachable");
    }

    //@ obligation C02 C02.recursive_translate_page_4kib.shape_p3_absent.huge_parent_is_reported_not_walked tier=thorough bounded="pool of 7 tables (4 path + 3 allocatable); tree-shaped sparse pre-state (target path, one neighbour word per path table, garbage in allocatable frames); recursive index 300; page-table indices (256,0,510,511)"
    //@ obligation C02 C02.recursive_translate_page_4kib.shape_p3_absent.documented_outcome tier=thorough bounded="pool of 7 tables (4 path + 3 allocatable); tree-shaped sparse pre-state (target path, one neighbour word per path table, garbage in allocatable frames); recursive index 300; page-table indices (256,0,510,511)"
    //@ obligation C01 C01.recursive_translate_page_4kib.shape_p3_absent.reports_mapped_frame tier=thorough bounded="pool of 7 tables (4 path + 3 allocatable); tree-shaped sparse pre-state (target path, one neighbour word per path table, garbage in allocatable frames); recursive index 300; page-table indices (256,0,510,511)"
    //@ obligation C01 C01.recursive_translate_page_4kib.shape_p3_absent.target_after tier=thorough bounded="pool of 7 tables (4 path + 3 allocatable); tree-shaped sparse pre-state (target path, one neighbour word per path table, garbage in allocatable frames); recursive index 300; page-table indices (256,0,510,511)"
    //@ obligation C01 C01.recursive_translate_page_4kib.shape_p3_absent.other_addresses_unchanged tier=thorough bounded="pool of 7 tables (4 path + 3 allocatable); tree-shaped sparse pre-state (target path, one neighbour word per path table, garbage in allocatable frames); recursive index 300; page-table indices (256,0,510,511)"
    //@ obligation C02 C02.recursive_translate_page_4kib.shape_p3_absent.error_leaves_every_mapping tier=thorough bounded="pool of 7 tables (4 path + 3 allocatable); tree-shaped sparse pre-state (target path, one neighbour word per path table, garbage in allocatable frames); recursive index 300; page-table indices (256,0,510,511)"
    //@ obligation C09 C09.recursive_translate_page_4kib.shape_p3_absent.only_dictated_slots_change tier=thorough bounded="pool of 7 tables (4 path + 3 allocatable); tree-shaped sparse pre-state (target path, one neighbour word per path table, garbage in allocatable frames); recursive index 300; page-table indices (256,0,510,511)"
    //@ obligation C09 C09.recursive_translate_page_4kib.shape_p3_absent.no_frames_requested_or_zeroed tier=thorough bounded="pool of 7 tables (4 path + 3 allocatable); tree-shaped sparse pre-state (target path, one neighbour word per path table, garbage in allocatable frames); recursive index 300; page-table indices (256,0,510,511)"
    //@ obligation C09 C09.recursive_translate_page_4kib.shape_p3_absent.no_dangling_table_pointer tier=thorough bounded="pool of 7 tables (4 path + 3 allocatable); tree-shaped sparse pre-state (target path, one neighbour word per path table, garbage in allocatable frames); recursive index 300; page-table indices (256,0,510,511)"
    //@ obligation C09 C09.recursive_translate_page_4kib.shape_p3_absent.no_access_outside_page_tables tier=thorough bounded="pool of 7 tables (4 path + 3 allocatable); tree-shaped sparse pre-state (target path, one neighbour word per path table, garbage in allocatable frames); recursive index 300; page-table indices (256,0,510,511)"
    #[kani::proof]
    #[kani::stub(crate::structures::paging::page_table::PageTable::zero, zero_stub)]
    #[kani::stub(crate::addr::VirtAddr::as_mut_ptr, mmu_trap_as_mut_ptr)]
    fn c01_recursive_translate_page_p3_absent_up() {
        rec_leaf_op_step!("translate_page", 2, "p3_absent", P3_ABSENT, IDX_UP);
        kani::cover!(true, "c01_recursive_translate_page_p3_absent_up: reachable");
    }

    //@ obligation C02 C02.recursive_translate_page_4kib.shape_p3_huge.huge_parent_is_reported_not_walked bounded="pool of 7 tables (4 path + 3 allocatable); tree-shaped sparse pre-state (target path, one neighbour word per path table, garbage in allocatable frames); recursive index 300; page-table indices (255,511,0,256)"
    //@ obligation C02 C02.recursive_translate_page_4kib.shape_p3_huge.documented_outcome bounded="pool of 7 tables (4 path + 3 allocatable); tree-shaped sparse pre-state (target path, one neighbour word per path table, garbage in allocatable frames); recursive index 300; page-table indices (255,511,0,256)"
    //@ obligation C01 C01.recursive_translate_page_4kib.shape_p3_huge.reports_mapped_frame bounded="pool of 7 tables (4 path + 3 allocatable); tree-shaped sparse pre-state (target path, one neighbour word per path table, garbage in allocatable frames); recursive index 300; page-table indices (255,511,0,256)"
    //@ obligation C01 C01.recursive_translate_page_4kib.shape_p3_huge.target_after bounded="pool of 7 tables (4 path + 3 allocatable); tree-shaped sparse pre-state (target path, one neighbour word per path table, garbage in allocatable frames); recursive index 300; page-table indices (255,511,0,256)"
    //@ obligation C01 C01.recursive_translate_page_4kib.shape_p3_huge.other_addresses_unchanged bounded="pool of 7 tables (4 path + 3 allocatable); tree-shaped sparse pre-state (target path, one neighbour word per path table, garbage in allocatable frames); recursive index 300; page-table indices (255,511,0,256)"
    //@ obligation C02 C02.recursive_translate_page_4kib.shape_p3_huge.error_leaves_every_mapping bounded="pool of 7 tables (4 path + 3 allocatable); tree-shaped sparse pre-state (target path, one neighbour word per path table, garbage in allocatable frames); recursive index 300; page-table indices (255,511,0,256)"
    //@ obligation C09 C09.recursive_translate_page_4kib.shape_p3_huge.only_dictated_slots_change bounded="pool of 7 tables (4 path + 3 allocatable); tree-shaped sparse pre-state (target path, one neighbour word per path table, garbage in allocatable frames); recursive index 300; page-table indices (255,511,0,256)"
    //@ obligation C09 C09.recursive_translate_page_4kib.shape_p3_huge.no_frames_requested_or_zeroed bounded="pool of 7 tables (4 path + 3 allocatable); tree-shaped sparse pre-state (target path, one neighbour word per path table, garbage in allocatable frames); recursive index 300; page-table indices (255,511,0,256)"
    //@ obligation C09 C09.recursive_translate_page_4kib.shape_p3_huge.no_dangling_table_pointer bounded="pool of 7 tables (4 path + 3 allocatable); tree-shaped sparse pre-state (target path, one neighbour word per path table, garbage in allocatable frames); recursive index 300; page-table indices (255,511,0,256)"
    //@ obligation C09 C09.recursive_translate_page_4kib.shape_p3_huge.no_access_outside_page_tables bounded="pool of 7 tables (4 path + 3 allocatable); tree-shaped sparse pre-state (target path, one neighbour word per path table, garbage in allocatable frames); recursive index 300; page-table indices (255,511,0,256)"
    #[kani::proof]
    #[kani::stub(crate::structures::paging::page_table::PageTable::zero, zero_stub)]
    #[kani::stub(crate::addr::VirtAddr::as_mut_ptr, mmu_trap_as_mut_ptr)]
    fn c01_recursive_translate_page_p3_huge_mid() {
        rec_leaf_op_step!("translate_page", 2, "p3_huge", P3_HUGE, IDX_MID);
        kani::cover!(true, "c01_recursive_translate_page_p3_huge_mid: reachable");
    }

    //@ obligation C02 C02.recursive_translate_page_4kib.shape_p3_huge.huge_parent_is_reported_not_walked tier=thorough bounded="pool of 7 tables (4 path + 3 allocatable); tree-shaped sparse pre-state (target path, one neighbour word per path table, garbage in allocatable frames); recursive index 300; page-table indices (256,0,510,511)"
    //@ obligation C02 C02.recursive_translate_page_4kib.shape_p3_huge.documented_outcome tier=thorough bounded="pool of 7 tables (4 path + 3 allocatable); tree-shaped sparse pre-state (target path, one neighbour word per path table, garbage in allocatable frames); recursive index 300; page-table indices (256,0,510,511)"
    //@ obligation C01 C01.recursive_translate_page_4kib.shape_p3_huge.reports_mapped_frame tier=thorough bounded="pool of 7 tables (4 path + 3 allocatable); tree-shaped sparse pre-state (target path, one neighbour word per path table, garbage in allocatable frames); recursive index 300; page-table indices (256,0,510,511)"
    //@ obligation C01 C01.recursive_translate_page_4kib.shape_p3_huge.target_after tier=thorough bounded="pool of 7 tables (4 path + 3 allocatable); tree-shaped sparse pre-state (target path, one neighbour word per path table, garbage in allocatable frames); recursive index 300; page-table indices (256,0,510,511)"
    //@ obligation C01 C01.recursive_translate_page_4kib.shape_p3_huge.other_addresses_unchanged tier=thorough bounded="pool of 7 tables (4 path + 3 allocatable); tree-shaped sparse pre-state (target path, one neighbour word per path table, garbage in allocatable frames); recursive index 300; page-table indices (256,0,510,511)"
    //@ obligation C02 C02.recursive_translate_page_4kib.shape_p3_huge.error_leaves_every_mapping tier=thorough bounded="pool of 7 tables (4 path + 3 allocatable); tree-shaped sparse pre-state (target path, one neighbour word per path table, garbage in allocatable frames); recursive index 300; page-table indices (256,0,510,511)"
    //@ obligation C09 C09.recursive_translate_page_4kib.shape_p3_huge.only_dictated_slots_change tier=thorough bounded="pool of 7 tables (4 path + 3 allocatable); tree-shaped sparse pre-state (target path, one neighbour word per path table, garbage in allocatable frames); recursive index 300; page-table indices (256,0,510,511)"
    //@ obligation C09 C09.recursive_translate_page_4kib.shape_p3_huge.no_frames_requested_or_zeroed tier=thorough bounded="pool of 7 tables (4 path + 3 allocatable); tree-shaped sparse pre-state (target path, one neighbour word per path table, garbage in allocatable frames); recursive index 300; page-table indices (256,0,510,511)"
    //@ obligation C09 C09.recursive_translate_page_4kib.shape_p3_huge.no_dangling_table_pointer tier=thorough bounded="pool of 7 tables (4 path + 3 allocatable); tree-shaped sparse pre-state (target path, one neighbour word per path table, garbage in allocatable frames); recursive index 300; page-table indices (256,0,510,511)"
    //@ obligation C09 C09.recursive_translate_page_4kib.shape_p3_huge.no_access_outside_page_tables tier=thorough bounded="pool of 7 tables (4 path + 3 allocatable); tree-shaped sparse pre-state (target path, one neighbour word per path table, garbage in allocatable frames); recursive index 300; page-table indices (256,0,510,511)"
    #[kani::proof]
    #[kani::stub(crate::structures::paging::page_table::PageTable::zero, zero_stub)]
    #[kani::stub(crate::addr::VirtAddr::as_mut_ptr, mmu_trap_as_mut_ptr)]
    fn c01_recursive_translate_page_p3_huge_up() {
        rec_leaf_op_step!("translate_page", 2, "p3_huge", P3_HUGE, IDX_UP);
        kani::cover!(true, "c01_recursive_translate_page_p3_huge_up: reachable");
    }

    //@ obligation C02 C02.recursive_translate_page_4kib.shape_p2_absent.huge_parent_is_reported_not_walked bounded="pool of 7 tables (4 path + 3 allocatable); tree-shaped sparse pre-state (target path, one neighbour word per path table, garbage in allocatable frames); recursive index 300; page-table indices (255,511,0,256)"
    //@ obligation C02 C02.recursive_translate_page_4kib.shape_p2_absent.documented_outcome bounded="pool of 7 tables (4 path + 3 allocatable); tree-shaped sparse pre-state (target path, one neighbour word per path table, garbage in allocatable frames); recursive index 300; page-table indices (255,511,0,256)"
    //@ obligation C01 C01.recursive_translate_page_4kib.shape_p2_absent.reports_mapped_frame bounded="pool of 7 tables (4 path + 3 allocatable); tree-shaped sparse pre-state (target path, one neighbour word per path table, garbage in allocatable frames); recursive index 300; page-table indices (255,511,0,256)"
    //@ obligation C01 C01.recursive_translate_page_4kib.shape_p2_absent.target_after bounded="pool of 7 tables (4 path + 3 allocatable); tree-shaped sparse pre-state (target path, one neighbour word per path table, garbage in allocatable frames); recursive index 300; page-table indices (255,511,0,256)"
    //@ obligation C01 C01.recursive_translate_page_4kib.shape_p2_absent.other_addresses_unchanged bounded="pool of 7 tables (4 path + 3 allocatable); tree-shaped sparse pre-state (target path, one neighbour word per path table, garbage in allocatable frames); recursive index 300; page-table indices (255,511,0,256)"
    //@ obligation C02 C02.recursive_translate_page_4kib.shape_p2_absent.error_leaves_every_mapping bounded="pool of 7 tables (4 path + 3 allocatable); tree-shaped sparse pre-state (target path, one neighbour word per path table, garbage in allocatable frames); recursive index 300; page-table indices (255,511,0,256)"
    //@ obligation C09 C09.recursive_translate_page_4kib.shape_p2_absent.only_dictated_slots_change bounded="pool of 7 tables (4 path + 3 allocatable); tree-shaped sparse pre-state (target path, one neighbour word per path table, garbage in allocatable frames); recursive index 300; page-table indices (255,511,0,256)"
    //@ obligation C09 C09.recursive_translate_page_4kib.shape_p2_absent.no_frames_requested_or_zeroed bounded="pool of 7 tables (4 path + 3 allocatable); tree-shaped sparse pre-state (target path, one neighbour word per path table, garbage in allocatable frames); recursive index 300; page-table indices (255,511,0,256)"
    //@ obligation C09 C09.recursive_translate_page_4kib.shape_p2_absent.no_dangling_table_pointer bounded="pool of 7 tables (4 path + 3 allocatable); tree-shaped sparse pre-state (target path, one neighbour word per path table, garbage in allocatable frames); recursive index 300; page-table indices (255,511,0,256)"
    //@ obligation C09 C09.recursive_translate_page_4kib.shape_p2_absent.no_access_outside_page_tables bounded="pool of 7 tables (4 path + 3 allocatable); tree-shaped sparse pre-state (target path, one neighbour word per path table, garbage in allocatable frames); recursive index 300; page-table indices (255,511,0,256)"
    #[kani::proof]
    #[kani::stub(crate::structures::paging::page_table::PageTable::zero, zero_stub)]
    #[kani::stub(crate::addr::VirtAddr::as_mut_ptr, mmu_trap_as_mut_ptr)]
    fn c01_recursive_translate_page_p2_absent_mid() {
        rec_leaf_op_step!("translate_page", 2, "p2_absent", P2_ABSENT, IDX_MID);
        kani::cover!(true, "c01_recursive_translate_page_p2_absent_mid: reachable");
    }

    //@ obligation C02 C02.recursive_translate_page_4kib.shape_p2_absent.huge_parent_is_reported_not_walked tier=thorough bounded="pool of 7 tables (4 path + 3 allocatable); tree-shaped sparse pre-state (target path, one neighbour word per path table, garbage in allocatable frames); recursive index 300; page-table indices (256,0,510,511)"
    //@ obligation C02 C02.recursive_translate_page_4kib.shape_p2_absent.documented_outcome tier=thorough bounded="pool of 7 tables (4 path + 3 allocatable); tree-shaped sparse pre-state (target path, one neighbour word per path table, garbage in allocatable frames); recursive index 300; page-table indices (256,0,510,511)"
    //@ obligation C01 C01.recursive_translate_page_4kib.shape_p2_absent.reports_mapped_frame tier=thorough bounded="pool of 7 tables (4 path + 3 allocatable); tree-shaped sparse pre-state (target path, one neighbour word per path table, garbage in allocatable frames); recursive index 300; page-table indices (256,0,510,511)"
    //@ obligation C01 C01.recursive_translate_page_4kib.shape_p2_absent.target_after tier=thorough bounded="pool of 7 tables (4 path + 3 allocatable); tree-shaped sparse pre-state (target path, one neighbour word per path table, garbage in allocatable frames); recursive index 300; page-table indices (256,0,510,511)"
    //@ obligation C01 C01.recursive_translate_page_4kib.shape_p2_absent.other_addresses_unchanged tier=thorough bounded="pool of 7 tables (4 path + 3 allocatable); tree-shaped sparse pre-state (target path, one neighbour word per path table, garbage in allocatable frames); recursive index 300; page-table indices (256,0,510,511)"
    //@ obligation C02 C02.recursive_translate_page_4kib.shape_p2_absent.error_leaves_every_mapping tier=thorough bounded="pool of 7 tables (4 path + 3 allocatable); tree-shaped sparse pre-state (target path, one neighbour word per path table, garbage in allocatable frames); recursive index 300; page-table indices (256,0,510,511)"
    //@ obligation C09 C09.recursive_translate_page_4kib.shape_p2_absent.only_dictated_slots_change tier=thorough bounded="pool of 7 tables (4 path + 3 allocatable); tree-shaped sparse pre-state (target path, one neighbour word per path table, garbage in allocatable frames); recursive index 300; page-table indices (256,0,510,511)"
    //@ obligation C09 C09.recursive_translate_page_4kib.shape_p2_absent.no_frames_requested_or_zeroed tier=thorough bounded="pool of 7 tables (4 path + 3 allocatable); tree-shaped sparse pre-state (target path, one neighbour word per path table, garbage in allocatable frames); recursive index 300; page-table indices (256,0,510,511)"
    //@ obligation C09 C09.recursive_translate_page_4kib.shape_p2_absent.no_dangling_table_pointer tier=thorough bounded="pool of 7 tables (4 path + 3 allocatable); tree-shaped sparse pre-state (target path, one neighbour word per path table, garbage in allocatable frames); recursive index 300; page-table indices (256,0,510,511)"
    //@ obligation C09 C09.recursive_translate_page_4kib.shape_p2_absent.no_access_outside_page_tables tier=thorough bounded="pool of 7 tables (4 path + 3 allocatable); tree-shaped sparse pre-state (target path, one neighbour word per path table, garbage in allocatable frames); recursive index 300; page-table indices (256,0,510,511)"
    #[kani::proof]
    #[kani::stub(crate::structures::paging::page_table::PageTable::zero, zero_stub)]
    #[kani::stub(crate::addr::VirtAddr::as_mut_ptr, mmu_trap_as_mut_ptr)]
    fn c01_recursive_translate_page_p2_absent_up() {
        rec_leaf_op_step!("translate_page", 2, "p2_absent", P2_ABSENT, IDX_UP);
        kani::cover!(true, "c01_recursive_translate_page_p2_absent_up: reachable");
    }

    //@ obligation C02 C02.recursive_translate_page_4kib.shape_p2_huge.huge_parent_is_reported_not_walked tier=thorough bounded="pool of 7 tables (4 path + 3 allocatable); tree-shaped sparse pre-state (target path, one neighbour word per path table, garbage in allocatable frames); recursive index 300; page-table indices (255,511,0,256)"
    //@ obligation C02 C02.recursive_translate_page_4kib.shape_p2_huge.documented_outcome tier=thorough bounded="pool of 7 tables (4 path + 3 allocatable); tree-shaped sparse pre-state (target path, one neighbour word per path table, garbage in allocatable frames); recursive index 300; page-table indices (255,511,0,256)"
    //@ obligation C01 C01.recursive_translate_page_4kib.shape_p2_huge.reports_mapped_frame tier=thorough bounded="pool of 7 tables (4 path + 3 allocatable); tree-shaped sparse pre-state (target path, one neighbour word per path table, garbage in allocatable frames); recursive index 300; page-table indices (255,511,0,256)"
    //@ obligation C01 C01.recursive_translate_page_4kib.shape_p2_huge.target_after tier=thorough bounded="pool of 7 tables (4 path + 3 allocatable); tree-shaped sparse pre-state (target path, one neighbour word per path table, garbage in allocatable frames); recursive index 300; page-table indices (255,511,0,256)"
    //@ obligation C01 C01.recursive_translate_page_4kib.shape_p2_huge.other_addresses_unchanged tier=thorough bounded="pool of 7 tables (4 path + 3 allocatable); tree-shaped sparse pre-state (target path, one neighbour word per path table, garbage in allocatable frames); recursive index 300; page-table indices (255,511,0,256)"
    //@ obligation C02 C02.recursive_translate_page_4kib.shape_p2_huge.error_leaves_every_mapping tier=thorough bounded="pool of 7 tables (4 path + 3 allocatable); tree-shaped sparse pre-state (target path, one neighbour word per path table, garbage in allocatable frames); recursive index 300; page-table indices (255,511,0,256)"
    //@ obligation C09 C09.recursive_translate_page_4kib.shape_p2_huge.only_dictated_slots_change tier=thorough bounded="pool of 7 tables (4 path + 3 allocatable); tree-shaped sparse pre-state (target path, one neighbour word per path table, garbage in allocatable frames); recursive index 300; page-table indices (255,511,0,256)"
    //@ obligation C09 C09.recursive_translate_page_4kib.shape_p2_huge.no_frames_requested_or_zeroed tier=thorough bounded="pool of 7 tables (4 path + 3 allocatable); tree-shaped sparse pre-state (target path, one neighbour word per path table, garbage in allocatable frames); recursive index 300; page-table indices (255,511,0,256)"
    //@ obligation C09 C09.recursive_translate_page_4kib.shape_p2_huge.no_dangling_table_pointer tier=thorough bounded="pool of 7 tables (4 path + 3 allocatable); tree-shaped sparse pre-state (target path, one neighbour word per path table, garbage in allocatable frames); recursive index 300; page-table indices (255,511,0,256)"
    //@ obligation C09 C09.recursive_translate_page_4kib.shape_p2_huge.no_access_outside_page_tables tier=thorough bounded="pool of 7 tables (4 path + 3 allocatable); tree-shaped sparse pre-state (target path, one neighbour word per path table, garbage in allocatable frames); recursive index 300; page-table indices (255,511,0,256)"
    #[kani::proof]
    #[kani::stub(crate::structures::paging::page_table::PageTable::zero, zero_stub)]
    #[kani::stub(crate::addr::VirtAddr::as_mut_ptr, mmu_trap_as_mut_ptr)]
    fn c01_recursive_translate_page_p2_huge_mid() {
        rec_leaf_op_step!("translate_page", 2, "p2_huge", P2_HUGE, IDX_MID);
        kani::cover!(true, "c01_recursive_translate_page_p2_huge_mid: reachable");
    }

    //@ obligation C02 C02.recursive_translate_page_4kib.shape_p2_huge.huge_parent_is_reported_not_walked bounded="pool of 7 tables (4 path + 3 allocatable); tree-shaped sparse pre-state (target path, one neighbour word per path table, garbage in allocatable frames); recursive index 300; page-table indices (256,0,510,511)"
    //@ obligation C02 C02.recursive_translate_page_4kib.shape_p2_huge.documented_outcome bounded="pool of 7 tables (4 path + 3 allocatable); tree-shaped sparse pre-state (target path, one neighbour word per path table, garbage in allocatable frames); recursive index 300; page-table indices (256,0,510,511)"
    //@ obligation C01 C01.recursive_translate_page_4kib.shape_p2_huge.reports_mapped_frame bounded="pool of 7 tables (4 path + 3 allocatable); tree-shaped sparse pre-state (target path, one neighbour word per path table, garbage in allocatable frames); recursive index 300; page-table indices (256,0,510,511)"
    //@ obligation C01 C01.recursive_translate_page_4kib.shape_p2_huge.target_after bounded="pool of 7 tables (4 path + 3 allocatable); tree-shaped sparse pre-state (target path, one neighbour word per path table, garbage in allocatable frames); recursive index 300; page-table indices (256,0,510,511)"
    //@ obligation C01 C01.recursive_translate_page_4kib.shape_p2_huge.other_addresses_unchanged bounded="pool of 7 tables (4 path + 3 allocatable); tree-shaped sparse pre-state (target path, one neighbour word per path table, garbage in allocatable frames); recursive index 300; page-table indices (256,0,510,511)"
    //@ obligation C02 C02.recursive_translate_page_4kib.shape_p2_huge.error_leaves_every_mapping bounded="pool of 7 tables (4 path + 3 allocatable); tree-shaped sparse pre-state (target path, one neighbour word per path table, garbage in allocatable frames); recursive index 300; page-table indices (256,0,510,511)"
    //@ obligation C09 C09.recursive_translate_page_4kib.shape_p2_huge.only_dictated_slots_change bounded="pool of 7 tables (4 path + 3 allocatable); tree-shaped sparse pre-state (target path, one neighbour word per path table, garbage in allocatable frames); recursive index 300; page-table indices (256,0,510,511)"
    //@ obligation C09 C09.recursive_translate_page_4kib.shape_p2_huge.no_frames_requested_or_zeroed bounded="pool of 7 tables (4 path + 3 allocatable); tree-shaped sparse pre-state (target path, one neighbour word per path table, garbage in allocatable frames); recursive index 300; page-table indices (256,0,510,511)"
    //@ obligation C09 C09.recursive_translate_page_4kib.shape_p2_huge.no_dangling_table_pointer bounded="pool of 7 tables (4 path + 3 allocatable); tree-shaped sparse pre-state (target path, one neighbour word per path table, garbage in allocatable frames); recursive index 300; page-table indices (256,0,510,511)"
    //@ obligation C09 C09.recursive_translate_page_4kib.shape_p2_huge.no_access_outside_page_tables bounded="pool of 7 tables (4 path + 3 allocatable); tree-shaped sparse pre-state (target path, one neighbour word per path table, garbage in allocatable frames); recursive index 300; page-table indices (256,0,510,511)"
    #[kani::proof]
    #[kani::stub(crate::structures::paging::page_table::PageTable::zero, zero_stub)]
    #[kani::stub(crate::addr::VirtAddr::as_mut_ptr, mmu_trap_as_mut_ptr)]
    fn c01_recursive_translate_page_p2_huge_up() {
        rec_leaf_op_step!("translate_page", 2, "p2_huge", P2_HUGE, IDX_UP);
        kani::cover!(true, "c01_recursive_translate_page_p2_huge_up: reachable");
    }

    //@ obligation C02 C02.recursive_translate_page_4kib.shape_p1_absent.huge_parent_is_reported_not_walked tier=thorough bounded="pool of 7 tables (4 path + 3 allocatable); tree-shaped sparse pre-state (target path, one neighbour word per path table, garbage in allocatable frames); recursive index 300; page-table indices (255,511,0,256)"
    //@ obligation C02 C02.recursive_translate_page_4kib.shape_p1_absent.documented_outcome tier=thorough bounded="pool of 7 tables (4 path + 3 allocatable); tree-shaped sparse pre-state (target path, one neighbour word per path table, garbage in allocatable frames); recursive index 300; page-table indices (255,511,0,256)"
    //@ obligation C01 C01.recursive_translate_page_4kib.shape_p1_absent.reports_mapped_frame tier=thorough bounded="pool of 7 tables (4 path + 3 allocatable); tree-shaped sparse pre-state (target path, one neighbour word per path table, garbage in allocatable frames); recursive index 300; page-table indices (255,511,0,256)"
    //@ obligation C01 C01.recursive_translate_page_4kib.shape_p1_absent.target_after tier=thorough bounded="pool of 7 tables (4 path + 3 allocatable); tree-shaped sparse pre-state (target path, one neighbour word per path table, garbage in allocatable frames); recursive index 300; page-table indices (255,511,0,256)"
    //@ obligation C01 C01.recursive_translate_page_4kib.shape_p1_absent.other_addresses_unchanged tier=thorough bounded="pool of 7 tables (4 path + 3 allocatable); tree-shaped sparse pre-state (target path, one neighbour word per path table, garbage in allocatable frames); recursive index 300; page-table indices (255,511,0,256)"
    //@ obligation C02 C02.recursive_translate_page_4kib.shape_p1_absent.error_leaves_every_mapping tier=thorough bounded="pool of 7 tables (4 path + 3 allocatable); tree-shaped sparse pre-state (target path, one neighbour word per path table, garbage in allocatable frames); recursive index 300; page-table indices (255,511,0,256)"
    //@ obligation C09 C09.recursive_translate_page_4kib.shape_p1_absent.only_dictated_slots_change tier=thorough bounded="pool of 7 tables (4 path + 3 allocatable); tree-shaped sparse pre-state (target path, one neighbour word per path table, garbage in allocatable frames); recursive index 300; page-table indices (255,511,0,256)"
    //@ obligation C09 C09.recursive_translate_page_4kib.shape_p1_absent.no_frames_requested_or_zeroed tier=thorough bounded="pool of 7 tables (4 path + 3 allocatable); tree-shaped sparse pre-state (target path, one neighbour word per path table, garbage in allocatable frames); recursive index 300; page-table indices (255,511,0,256)"
    //@ obligation C09 C09.recursive_translate_page_4kib.shape_p1_absent.no_dangling_table_pointer tier=thorough bounded="pool of 7 tables (4 path + 3 allocatable); tree-shaped sparse pre-state (target path, one neighbour word per path table, garbage in allocatable frames); recursive index 300; page-table indices (255,511,0,256)"
    //@ obligation C09 C09.recursive_translate_page_4kib.shape_p1_absent.no_access_outside_page_tables tier=thorough bounded="pool of 7 tables (4 path + 3 allocatable); tree-shaped sparse pre-state (target path, one neighbour word per path table, garbage in allocatable frames); recursive index 300; page-table indices (255,511,0,256)"
    #[kani::proof]
    #[kani::stub(crate::structures::paging::page_table::PageTable::zero, zero_stub)]
    #[kani::stub(crate::addr::VirtAddr::as_mut_ptr, mmu_trap_as_mut_ptr)]
    fn c01_recursive_translate_page_p1_absent_mid() {
        rec_leaf_op_step!("translate_page", 2, "p1_absent", P1_ABSENT, IDX_MID);
        kani::cover!(true, "c01_recursive_translate_page_p1_absent_mid: reachable");
    }

    //@ obligation C02 C02.recursive_translate_page_4kib.shape_p1_absent.huge_parent_is_reported_not_walked bounded="pool of 7 tables (4 path + 3 allocatable); tree-shaped sparse pre-state (target path, one neighbour word per path table, garbage in allocatable frames); recursive index 300; page-table indices (256,0,510,511)"
    //@ obligation C02 C02.recursive_translate_page_4kib.shape_p1_absent.documented_outcome bounded="pool of 7 tables (4 path + 3 allocatable); tree-shaped sparse pre-state (target path, one neighbour word per path table, garbage in allocatable frames); recursive index 300; page-table indices (256,0,510,511)"
    //@ obligation C01 C01.recursive_translate_page_4kib.shape_p1_absent.reports_mapped_frame bounded="pool of 7 tables (4 path + 3 allocatable); tree-shaped sparse pre-state (target path, one neighbour word per path table, garbage in allocatable frames); recursive index 300; page-table indices (256,0,510,511)"
    //@ obligation C01 C01.recursive_translate_page_4kib.shape_p1_absent.target_after bounded="pool of 7 tables (4 path + 3 allocatable); tree-shaped sparse pre-state (target path, one neighbour word per path table, garbage in allocatable frames); recursive index 300; page-table indices (256,0,510,511)"
    //@ obligation C01 C01.recursive_translate_page_4kib.shape_p1_absent.other_addresses_unchanged bounded="pool of 7 tables (4 path + 3 allocatable); tree-shaped sparse pre-state (target path, one neighbour word per path table, garbage in allocatable frames); recursive index 300; page-table indices (256,0,510,511)"
    //@ obligation C02 C02.recursive_translate_page_4kib.shape_p1_absent.error_leaves_every_mapping bounded="pool of 7 tables (4 path + 3 allocatable); tree-shaped sparse pre-state (target path, one neighbour word per path table, garbage in allocatable frames); recursive index 300; page-table indices (256,0,510,511)"
    //@ obligation C09 C09.recursive_translate_page_4kib.shape_p1_absent.only_dictated_slots_change bounded="pool of 7 tables (4 path + 3 allocatable); tree-shaped sparse pre-state (target path, one neighbour word per path table, garbage in allocatable frames); recursive index 300; page-table indices (256,0,510,511)"
    //@ obligation C09 C09.recursive_translate_page_4kib.shape_p1_absent.no_frames_requested_or_zeroed bounded="pool of 7 tables (4 path + 3 allocatable); tree-shaped sparse pre-state (target path, one neighbour word per path table, garbage in allocatable frames); recursive index 300; page-table indices (256,0,510,511)"
    //@ obligation C09 C09.recursive_translate_page_4kib.shape_p1_absent.no_dangling_table_pointer bounded="pool of 7 tables (4 path + 3 allocatable); tree-shaped sparse pre-state (target path, one neighbour word per path table, garbage in allocatable frames); recursive index 300; page-table indices (256,0,510,511)"
    //@ obligation C09 C09.recursive_translate_page_4kib.shape_p1_absent.no_access_outside_page_tables bounded="pool of 7 tables (4 path + 3 allocatable); tree-shaped sparse pre-state (target path, one neighbour word per path table, garbage in allocatable frames); recursive index 300; page-table indices (256,0,510,511)"
    #[kani::proof]
    #[kani::stub(crate::structures::paging::page_table::PageTable::zero, zero_stub)]
    #[kani::stub(crate::addr::VirtAddr::as_mut_ptr, mmu_trap_as_mut_ptr)]
    fn c01_recursive_translate_page_p1_absent_up() {
        rec_leaf_op_step!("translate_page", 2, "p1_absent", P1_ABSENT, IDX_UP);
        kani::cover!(true, "c01_recursive_translate_page_p1_absent_up: reachable");
    }

    //@ obligation C02 C02.recursive_translate_page_4kib.shape_p1_leaf.huge_parent_is_reported_not_walked tier=thorough bounded="pool of 7 tables (4 path + 3 allocatable); tree-shaped sparse pre-state (target path, one neighbour word per path table, garbage in allocatable frames); recursive index 300; page-table indices (255,511,0,256)"
    //@ obligation C02 C02.recursive_translate_page_4kib.shape_p1_leaf.documented_outcome tier=thorough bounded="pool of 7 tables (4 path + 3 allocatable); tree-shaped sparse pre-state (target path, one neighbour word per path table, garbage in allocatable frames); recursive index 300; page-table indices (255,511,0,256)"
    //@ obligation C01 C01.recursive_translate_page_4kib.shape_p1_leaf.reports_mapped_frame tier=thorough bounded="pool of 7 tables (4 path + 3 allocatable); tree-shaped sparse pre-state (target path, one neighbour word per path table, garbage in allocatable frames); recursive index 300; page-table indices (255,511,0,256)"
    //@ obligation C01 C01.recursive_translate_page_4kib.shape_p1_leaf.target_after tier=thorough bounded="pool of 7 tables (4 path + 3 allocatable); tree-shaped sparse pre-state (target path, one neighbour word per path table, garbage in allocatable frames); recursive index 300; page-table indices (255,511,0,256)"
    //@ obligation C01 C01.recursive_translate_page_4kib.shape_p1_leaf.other_addresses_unchanged tier=thorough bounded="pool of 7 tables (4 path + 3 allocatable); tree-shaped sparse pre-state (target path, one neighbour word per path table, garbage in allocatable frames); recursive index 300; page-table indices (255,511,0,256)"
    //@ obligation C02 C02.recursive_translate_page_4kib.shape_p1_leaf.error_leaves_every_mapping tier=thorough bounded="pool of 7 tables (4 path + 3 allocatable); tree-shaped sparse pre-state (target path, one neighbour word per path table, garbage in allocatable frames); recursive index 300; page-table indices (255,511,0,256)"
    //@ obligation C09 C09.recursive_translate_page_4kib.shape_p1_leaf.only_dictated_slots_change tier=thorough bounded="pool of 7 tables (4 path + 3 allocatable); tree-shaped sparse pre-state (target path, one neighbour word per path table, garbage in allocatable frames); recursive index 300; page-table indices (255,511,0,256)"
    //@ obligation C09 C09.recursive_translate_page_4kib.shape_p1_leaf.no_frames_requested_or_zeroed tier=thorough bounded="pool of 7 tables (4 path + 3 allocatable); tree-shaped sparse pre-state (target path, one neighbour word per path table, garbage in allocatable frames); recursive index 300; page-table indices (255,511,0,256)"
    //@ obligation C09 C09.recursive_translate_page_4kib.shape_p1_leaf.no_dangling_table_pointer tier=thorough bounded="pool of 7 tables (4 path + 3 allocatable); tree-shaped sparse pre-state (target path, one neighbour word per path table, garbage in allocatable frames); recursive index 300; page-table indices (255,511,0,256)"
    //@ obligation C09 C09.recursive_translate_page_4kib.shape_p1_leaf.no_access_outside_page_tables tier=thorough bounded="pool of 7 tables (4 path + 3 allocatable); tree-shaped sparse pre-state (target path, one neighbour word per path table, garbage in allocatable frames); recursive index 300; page-table indices (255,511,0,256)"
    #[kani::proof]
    #[kani::stub(crate::structures::paging::page_table::PageTable::zero, zero_stub)]
    #[kani::stub(crate::addr::VirtAddr::as_mut_ptr, mmu_trap_as_mut_ptr)]
    fn c01_recursive_translate_page_p1_leaf_mid() {
        rec_leaf_op_step!("translate_page", 2, "p1_leaf", P1_LEAF, IDX_MID);
        kani::cover!(true, "c01_recursive_translate_page_p1_leaf_mid: reachable");
    }

    //@ obligation C02 C02.recursive_translate_page_4kib.shape_p1_leaf.huge_parent_is_reported_not_walked bounded="pool of 7 tables (4 path + 3 allocatable); tree-shaped sparse pre-state (target path, one neighbour word per path table, garbage in allocatable frames); recursive index 300; page-table indices (256,0,510,511)"
    //@ obligation C02 C02.recursive_translate_page_4kib.shape_p1_leaf.documented_outcome bounded="pool of 7 tables (4 path + 3 allocatable); tree-shaped sparse pre-state (target path, one neighbour word per path table, garbage in allocatable frames); recursive index 300; page-table indices (256,0,510,511)"
    //@ obligation C01 C01.recursive_translate_page_4kib.shape_p1_leaf.reports_mapped_frame bounded="pool of 7 tables (4 path + 3 allocatable); tree-shaped sparse pre-state (target path, one neighbour word per path table, garbage in allocatable frames); recursive index 300; page-table indices (256,0,510,511)"
    //@ obligation C01 C01.recursive_translate_page_4kib.shape_p1_leaf.target_after bounded="pool of 7 tables (4 path + 3 allocatable); tree-shaped sparse pre-state (target path, one neighbour word per path table, garbage in allocatable frames); recursive index 300; page-table indices (256,0,510,511)"
    //@ obligation C01 C01.recursive_translate_page_4kib.shape_p1_leaf.other_addresses_unchanged bounded="pool of 7 tables (4 path + 3 allocatable); tree-shaped sparse pre-state (target path, one neighbour word per path table, garbage in allocatable frames); recursive index 300; page-table indices (256,0,510,511)"
    //@ obligation C02 C02.recursive_translate_page_4kib.shape_p1_leaf.error_leaves_every_mapping bounded="pool of 7 tables (4 path + 3 allocatable); tree-shaped sparse pre-state (target path, one neighbour word per path table, garbage in allocatable frames); recursive index 300; page-table indices (256,0,510,511)"
    //@ obligation C09 C09.recursive_translate_page_4kib.shape_p1_leaf.only_dictated_slots_change bounded="pool of 7 tables (4 path + 3 allocatable); tree-shaped sparse pre-state (target path, one neighbour word per path table, garbage in allocatable frames); recursive index 300; page-table indices (256,0,510,511)"
    //@ obligation C09 C09.recursive_translate_page_4kib.shape_p1_leaf.no_frames_requested_or_zeroed bounded="pool of 7 tables (4 path + 3 allocatable); tree-shaped sparse pre-state (target path, one neighbour word per path table, garbage in allocatable frames); recursive index 300; page-table indices (256,0,510,511)"
    //@ obligation C09 C09.recursive_translate_page_4kib.shape_p1_leaf.no_dangling_table_pointer bounded="pool of 7 tables (4 path + 3 allocatable); tree-shaped sparse pre-state (target path, one neighbour word per path table, garbage in allocatable frames); recursive index 300; page-table indices (256,0,510,511)"
    //@ obligation C09 C09.recursive_translate_page_4kib.shape_p1_leaf.no_access_outside_page_tables bounded="pool of 7 tables (4 path + 3 allocatable); tree-shaped sparse pre-state (target path, one neighbour word per path table, garbage in allocatable frames); recursive index 300; page-table indices (256,0,510,511)"
    #[kani::proof]
    #[kani::stub(crate::structures::paging::page_table::PageTable::zero, zero_stub)]
    #[kani::stub(crate::addr::VirtAddr::as_mut_ptr, mmu_trap_as_mut_ptr)]
    fn c01_recursive_translate_page_p1_leaf_up() {
        rec_leaf_op_step!("translate_page", 2, "p1_leaf", P1_LEAF, IDX_UP);
        kani::cover!(true, "c01_recursive_translate_page_p1_leaf_up: reachable");
    }

    //@ obligation C01 C01.recursive_translate.shape_p4_absent.agrees_with_walk bounded="pool of 7 tables (4 path + 3 allocatable); tree-shaped sparse pre-state (target path, one neighbour word per path table, garbage in allocatable frames); recursive index 300; page-table indices (255,511,0,256)"
    //@ obligation C01 C01.recursive_translate_addr.shape_p4_absent.agrees_with_walk bounded="pool of 7 tables (4 path + 3 allocatable); tree-shaped sparse pre-state (target path, one neighbour word per path table, garbage in allocatable frames); recursive index 300; page-table indices (255,511,0,256)"
    //@ obligation C09 C09.recursive_translate.shape_p4_absent.writes_nothing bounded="pool of 7 tables (4 path + 3 allocatable); tree-shaped sparse pre-state (target path, one neighbour word per path table, garbage in allocatable frames); recursive index 300; page-table indices (255,511,0,256)"
    //@ obligation C09 C09.recursive_translate.shape_p4_absent.no_frames_requested_or_zeroed bounded="pool of 7 tables (4 path + 3 allocatable); tree-shaped sparse pre-state (target path, one neighbour word per path table, garbage in allocatable frames); recursive index 300; page-table indices (255,511,0,256)"
    //@ obligation C09 C09.recursive_translate.shape_p4_absent.no_access_outside_page_tables bounded="pool of 7 tables (4 path + 3 allocatable); tree-shaped sparse pre-state (target path, one neighbour word per path table, garbage in allocatable frames); recursive index 300; page-table indices (255,511,0,256)"
    #[kani::proof]
    #[kani::stub(crate::structures::paging::page_table::PageTable::zero, zero_stub)]
    #[kani::stub(crate::addr::VirtAddr::as_mut_ptr, mmu_trap_as_mut_ptr)]
    fn c01_recursive_translate_p4_absent_mid() {
        rec_translate_step!("p4_absent", P4_ABSENT, IDX_MID);
        kani::cover!(true, "c01_recursive_translate_p4_absent_mid: reachable");
    }

    //@ obligation C01 C01.recursive_translate.shape_p4_absent.agrees_with_walk tier=thorough bounded="pool of 7 tables (4 path + 3 allocatable); tree-shaped sparse pre-state (target path, one neighbour word per path table, garbage in allocatable frames); recursive index 300; page-table indices (256,0,510,511)"
    //@ obligation C01 C01.recursive_translate_addr.shape_p4_absent.agrees_with_walk tier=thorough bounded="pool of 7 tables (4 path + 3 allocatable); tree-shaped sparse pre-state (target path, one neighbour word per path table, garbage in allocatable frames); recursive index 300; page-table indices (256,0,510,511)"
    //@ obligation C09 C09.recursive_translate.shape_p4_absent.writes_nothing tier=thorough bounded="pool of 7 tables (4 path + 3 allocatable); tree-shaped sparse pre-state (target path, one neighbour word per path table, garbage in allocatable frames); recursive index 300; page-table indices (256,0,510,511)"
    //@ obligation C09 C09.recursive_translate.shape_p4_absent.no_frames_requested_or_zeroed tier=thorough bounded="pool of 7 tables (4 path + 3 allocatable); tree-shaped sparse pre-state (target path, one neighbour word per path table, garbage in allocatable frames); recursive index 300; page-table indices (256,0,510,511)"
    //@ obligation C09 C09.recursive_translate.shape_p4_absent.no_access_outside_page_tables tier=thorough bounded="pool of 7 tables (4 path + 3 allocatable); tree-shaped sparse pre-state (target path, one neighbour word per path table, garbage in allocatable frames); recursive index 300; page-table indices (256,0,510,511)"
    #[kani::proof]
    #[kani::stub(crate::structures::paging::page_table::PageTable::zero, zero_stub)]
    #[kani::stub(crate::addr::VirtAddr::as_mut_ptr, mmu_trap_as_mut_ptr)]
    fn c01_recursive_translate_p4_absent_up() {
        rec_translate_step!("p4_absent", P4_ABSENT, IDX_UP);
        kani::cover!(true, "c01_recursive_translate_p4_absent_up: reachable");
    }

    //@ obligation C01 C01.recursive_translate.shape_p3_absent.agrees_with_walk bounded="pool of 7 tables (4 path + 3 allocatable); tree-shaped sparse pre-state (target path, one neighbour word per path table, garbage in allocatable frames); recursive index 300; page-table indices (255,511,0,256)"
    //@ obligation C01 C01.recursive_translate_addr.shape_p3_absent.agrees_with_walk bounded="pool of 7 tables (4 path + 3 allocatable); tree-shaped sparse pre-state (target path, one neighbour word per path table, garbage in allocatable frames); recursive index 300; page-table indices (255,511,0,256)"
    //@ obligation C09 C09.recursive_translate.shape_p3_absent.writes_nothing bounded="pool of 7 tables (4 path + 3 allocatable); tree-shaped sparse pre-state (target path, one neighbour word per path table, garbage in allocatable frames); recursive index 300; page-table indices (255,511,0,256)"
    //@ obligation C09 C09.recursive_translate.shape_p3_absent.no_frames_requested_or_zeroed bounded="pool of 7 tables (4 path + 3 allocatable); tree-shaped sparse pre-state (target path, one neighbour word per path table, garbage in allocatable frames); recursive index 300; page-table indices (255,511,0,256)"
    //@ obligation C09 C09.recursive_translate.shape_p3_absent.no_access_outside_page_tables bounded="pool of 7 tables (4 path + 3 allocatable); tree-shaped sparse pre-state (target path, one neighbour word per path table, garbage in allocatable frames); recursive index 300; page-table indices (255,511,0,256)"
    #[kani::proof]
    #[kani::stub(crate::structures::paging::page_table::PageTable::zero, zero_stub)]
    #[kani::stub(crate::addr::VirtAddr::as_mut_ptr, mmu_trap_as_mut_ptr)]
    fn c01_recursive_translate_p3_absent_mid() {
        rec_translate_step!("p3_absent", P3_ABSENT, IDX_MID);
        kani::cover!(true, "c01_recursive_translate_p3_absent_mid: reachable");
    }

    //@ obligation C01 C01.recursive_translate.shape_p3_absent.agrees_with_walk tier=thorough bounded="pool of 7 tables (4 path + 3 allocatable); tree-shaped sparse pre-state (target path, one neighbour word per path table, garbage in allocatable frames); recursive index 300; page-table indices (256,0,510,511)"
    //@ obligation C01 C01.recursive_translate_addr.shape_p3_absent.agrees_with_walk tier=thorough bounded="pool of 7 tables (4 path + 3 allocatable); tree-shaped sparse pre-state (target path, one neighbour word per path table, garbage in allocatable frames); recursive index 300; page-table indices (256,0,510,511)"
    //@ obligation C09 C09.recursive_translate.shape_p3_absent.writes_nothing tier=thorough bounded="pool of 7 tables (4 path + 3 allocatable); tree-shaped sparse pre-state (target path, one neighbour word per path table, garbage in allocatable frames); recursive index 300; page-table indices (256,0,510,511)"
    //@ obligation C09 C09.recursive_translate.shape_p3_absent.no_frames_requested_or_zeroed tier=thorough bounded="pool of 7 tables (4 path + 3 allocatable); tree-shaped sparse pre-state (target path, one neighbour word per path table, garbage in allocatable frames); recursive index 300; page-table indices (256,0,510,511)"
    //@ obligation C09 C09.recursive_translate.shape_p3_absent.no_access_outside_page_tables tier=thorough bounded="pool of 7 tables (4 path + 3 allocatable); tree-shaped sparse pre-state (target path, one neighbour word per path table, garbage in allocatable frames); recursive index 300; page-table indices (256,0,510,511)"
    #[kani::proof]
    #[kani::stub(crate::structures::paging::page_table::PageTable::zero, zero_stub)]
    #[kani::stub(crate::addr::VirtAddr::as_mut_ptr, mmu_trap_as_mut_ptr)]
    fn c01_recursive_translate_p3_absent_up() {
        rec_translate_step!("p3_absent", P3_ABSENT, IDX_UP);
        kani::cover!(true, "c01_recursive_translate_p3_absent_up: reachable");
    }

    //@ obligation C01 C01.recursive_translate.shape_p3_huge.agrees_with_walk bounded="pool of 7 tables (4 path + 3 allocatable); tree-shaped sparse pre-state (target path, one neighbour word per path table, garbage in allocatable frames); recursive index 300; page-table indices (255,511,0,256)"
    //@ obligation C01 C01.recursive_translate_addr.shape_p3_huge.agrees_with_walk bounded="pool of 7 tables (4 path + 3 allocatable); tree-shaped sparse pre-state (target path, one neighbour word per path table, garbage in allocatable frames); recursive index 300; page-table indices (255,511,0,256)"
    //@ obligation C09 C09.recursive_translate.shape_p3_huge.writes_nothing bounded="pool of 7 tables (4 path + 3 allocatable); tree-shaped sparse pre-state (target path, one neighbour word per path table, garbage in allocatable frames); recursive index 300; page-table indices (255,511,0,256)"
    //@ obligation C09 C09.recursive_translate.shape_p3_huge.no_frames_requested_or_zeroed bounded="pool of 7 tables (4 path + 3 allocatable); tree-shaped sparse pre-state (target path, one neighbour word per path table, garbage in allocatable frames); recursive index 300; page-table indices (255,511,0,256)"
    //@ obligation C09 C09.recursive_translate.shape_p3_huge.no_access_outside_page_tables bounded="pool of 7 tables (4 path + 3 allocatable); tree-shaped sparse pre-state (target path, one neighbour word per path table, garbage in allocatable frames); recursive index 300; page-table indices (255,511,0,256)"
    #[kani::proof]
    #[kani::stub(crate::structures::paging::page_table::PageTable::zero, zero_stub)]
    #[kani::stub(crate::addr::VirtAddr::as_mut_ptr, mmu_trap_as_mut_ptr)]
    fn c01_recursive_translate_p3_huge_mid() {
        rec_translate_step!("p3_huge", P3_HUGE, IDX_MID);
        kani::cover!(true, "c01_recursive_translate_p3_huge_mid: reachable");
    }

    //@ obligation C01 C01.recursive_translate.shape_p3_huge.agrees_with_walk tier=thorough bounded="pool of 7 tables (4 path + 3 allocatable); tree-shaped sparse pre-state (target path, one neighbour word per path table, garbage in allocatable frames); recursive index 300; page-table indices (256,0,510,511)"
    //@ obligation C01 C01.recursive_translate_addr.shape_p3_huge.agrees_with_walk tier=thorough bounded="pool of 7 tables (4 path + 3 allocatable); tree-shaped sparse pre-state (target path, one neighbour word per path table, garbage in allocatable frames); recursive index 300; page-table indices (256,0,510,511)"
    //@ obligation C09 C09.recursive_translate.shape_p3_huge.writes_nothing tier=thorough bounded="pool of 7 tables (4 path + 3 allocatable); tree-shaped sparse pre-state (target path, one neighbour word per path table, garbage in allocatable frames); recursive index 300; page-table indices (256,0,510,511)"
    //@ obligation C09 C09.recursive_translate.shape_p3_huge.no_frames_requested_or_zeroed tier=thorough bounded="pool of 7 tables (4 path + 3 allocatable); tree-shaped sparse pre-state (target path, one neighbour word per path table, garbage in allocatable frames); recursive index 300; page-table indices (256,0,510,511)"
    //@ obligation C09 C09.recursive_translate.shape_p3_huge.no_access_outside_page_tables tier=thorough bounded="pool of 7 tables (4 path + 3 allocatable); tree-shaped sparse pre-state (target path, one neighbour word per path table, garbage in allocatable frames); recursive index 300; page-table indices (256,0,510,511)"
    #[kani::proof]
    #[kani::stub(crate::structures::paging::page_table::PageTable::zero, zero_stub)]
    #[kani::stub(crate::addr::VirtAddr::as_mut_ptr, mmu_trap_as_mut_ptr)]
    fn c01_recursive_translate_p3_huge_up() {
        rec_translate_step!("p3_huge", P3_HUGE, IDX_UP);
        kani::cover!(true, "c01_recursive_translate_p3_huge_up: reachable");
    }

    //@ obligation C01 C01.recursive_translate.shape_p2_absent.agrees_with_walk tier=thorough bounded="pool of 7 tables (4 path + 3 allocatable); tree-shaped sparse pre-state (target path, one neighbour word per path table, garbage in allocatable frames); recursive index 300; page-table indices (255,511,0,256)"
    //@ obligation C01 C01.recursive_translate_addr.shape_p2_absent.agrees_with_walk tier=thorough bounded="pool of 7 tables (4 path + 3 allocatable); tree-shaped sparse pre-state (target path, one neighbour word per path table, garbage in allocatable frames); recursive index 300; page-table indices (255,511,0,256)"
    //@ obligation C09 C09.recursive_translate.shape_p2_absent.writes_nothing tier=thorough bounded="pool of 7 tables (4 path + 3 allocatable); tree-shaped sparse pre-state (target path, one neighbour word per path table, garbage in allocatable frames); recursive index 300; page-table indices (255,511,0,256)"
    //@ obligation C09 C09.recursive_translate.shape_p2_absent.no_frames_requested_or_zeroed tier=thorough bounded="pool of 7 tables (4 path + 3 allocatable); tree-shaped sparse pre-state (target path, one neighbour word per path table, garbage in allocatable frames); recursive index 300; page-table indices (255,511,0,256)"
    //@ obligation C09 C09.recursive_translate.shape_p2_absent.no_access_outside_page_tables tier=thorough bounded="pool of 7 tables (4 path + 3 allocatable); tree-shaped sparse pre-state (target path, one neighbour word per path table, garbage in allocatable frames); recursive index 300; page-table indices (255,511,0,256)"
    #[kani::proof]
    #[kani::stub(crate::structures::paging::page_table::PageTable::zero, zero_stub)]
    #[kani::stub(crate::addr::VirtAddr::as_mut_ptr, mmu_trap_as_mut_ptr)]
    fn c01_recursive_translate_p2_absent_mid() {
        rec_translate_step!("p2_absent", P2_ABSENT, IDX_MID);
        kani::cover!(true, "c01_recursive_translate_p2_absent_mid: reachable");
    }

    //@ obligation C01 C01.recursive_translate.shape_p2_absent.agrees_with_walk bounded="pool of 7 tables (4 path + 3 allocatable); tree-shaped sparse pre-state (target path, one neighbour word per path table, garbage in allocatable frames); recursive index 300; page-table indices (256,0,510,511)"
    //@ obligation C01 C01.recursive_translate_addr.shape_p2_absent.agrees_with_walk bounded="pool of 7 tables (4 path + 3 allocatable); tree-shaped sparse pre-state (target path, one neighbour word per path table, garbage in allocatable frames); recursive index 300; page-table indices (256,0,510,511)"
    //@ obligation C09 C09.recursive_translate.shape_p2_absent.writes_nothing bounded="pool of 7 tables (4 path + 3 allocatable); tree-shaped sparse pre-state (target path, one neighbour word per path table, garbage in allocatable frames); recursive index 300; page-table indices (256,0,510,511)"
    //@ obligation C09 C09.recursive_translate.shape_p2_absent.no_frames_requested_or_zeroed bounded="pool of 7 tables (4 path + 3 allocatable); tree-shaped sparse pre-state (target path, one neighbour word per path table, garbage in allocatable frames); recursive index 300; page-table indices (256,0,510,511)"
    //@ obligation C09 C09.recursive_translate.shape_p2_absent.no_access_outside_page_tables bounded="pool of 7 tables (4 path + 3 allocatable); tree-shaped sparse pre-state (target path, one neighbour word per path table, garbage in allocatable frames); recursive index 300; page-table indices (256,0,510,511)"
    #[kani::proof]
    #[kani::stub(crate::structures::paging::page_table::PageTable::zero, zero_stub)]
    #[kani::stub(crate::addr::VirtAddr::as_mut_ptr, mmu_trap_as_mut_ptr)]
    fn c01_recursive_translate_p2_absent_up() {
        rec_translate_step!("p2_absent", P2_ABSENT, IDX_UP);
        kani::cover!(true, "c01_recursive_translate_p2_absent_up: reachable");
    }

    //@ obligation C01 C01.recursive_translate.shape_p2_huge.agrees_with_walk bounded="pool of 7 tables (4 path + 3 allocatable); tree-shaped sparse pre-state (target path, one neighbour word per path table, garbage in allocatable frames); recursive index 300; page-table indices (255,511,0,256)"
    //@ obligation C01 C01.recursive_translate_addr.shape_p2_huge.agrees_with_walk bounded="pool of 7 tables (4 path + 3 allocatable); tree-shaped sparse pre-state (target path, one neighbour word per path table, garbage in allocatable frames); recursive index 300; page-table indices (255,511,0,256)"
    //@ obligation C09 C09.recursive_translate.shape_p2_huge.writes_nothing bounded="pool of 7 tables (4 path + 3 allocatable); tree-shaped sparse pre-state (target path, one neighbour word per path table, garbage in allocatable frames); recursive index 300; page-table indices (255,511,0,256)"
    //@ obligation C09 C09.recursive_translate.shape_p2_huge.no_frames_requested_or_zeroed bounded="pool of 7 tables (4 path + 3 allocatable); tree-shaped sparse pre-state (target path, one neighbour word per path table, garbage in allocatable frames); recursive index 300; page-table indices (255,511,0,256)"
    //@ obligation C09 C09.recursive_translate.shape_p2_huge.no_access_outside_page_tables bounded="pool of 7 tables (4 path + 3 allocatable); tree-shaped sparse pre-state (target path, one neighbour word per path table, garbage in allocatable frames); recursive index 300; page-table indices (255,511,0,256)"
    #[kani::proof]
    #[kani::stub(crate::structures::paging::page_table::PageTable::zero, zero_stub)]
    #[kani::stub(crate::addr::VirtAddr::as_mut_ptr, mmu_trap_as_mut_ptr)]
    fn c01_recursive_translate_p2_huge_mid() {
        rec_translate_step!("p2_huge", P2_HUGE, IDX_MID);
        kani::cover!(true, "c01_recursive_translate_p2_huge_mid: reachable");
    }

    //@ obligation C01 C01.recursive_translate.shape_p2_huge.agrees_with_walk tier=thorough bounded="pool of 7 tables (4 path + 3 allocatable); tree-shaped sparse pre-state (target path, one neighbour word per path table, garbage in allocatable frames); recursive index 300; page-table indices (256,0,510,511)"
    //@ obligation C01 C01.recursive_translate_addr.shape_p2_huge.agrees_with_walk tier=thorough bounded="pool of 7 tables (4 path + 3 allocatable); tree-shaped sparse pre-state (target path, one neighbour word per path table, garbage in allocatable frames); recursive index 300; page-table indices (256,0,510,511)"
    //@ obligation C09 C09.recursive_translate.shape_p2_huge.writes_nothing tier=thorough bounded="pool of 7 tables (4 path + 3 allocatable); tree-shaped sparse pre-state (target path, one neighbour word per path table, garbage in allocatable frames); recursive index 300; page-table indices (256,0,510,511)"
    //@ obligation C09 C09.recursive_translate.shape_p2_huge.no_frames_requested_or_zeroed tier=thorough bounded="pool of 7 tables (4 path + 3 allocatable); tree-shaped sparse pre-state (target path, one neighbour word per path table, garbage in allocatable frames); recursive index 300; page-table indices (256,0,510,511)"
    //@ obligation C09 C09.recursive_translate.shape_p2_huge.no_access_outside_page_tables tier=thorough bounded="pool of 7 tables (4 path + 3 allocatable); tree-shaped sparse pre-state (target path, one neighbour word per path table, garbage in allocatable frames); recursive index 300; page-table indices (256,0,510,511)"
    #[kani::proof]
    #[kani::stub(crate::structures::paging::page_table::PageTable::zero, zero_stub)]
    #[kani::stub(crate::addr::VirtAddr::as_mut_ptr, mmu_trap_as_mut_ptr)]
    fn c01_recursive_translate_p2_huge_up() {
        rec_translate_step!("p2_huge", P2_HUGE, IDX_UP);
        kani::cover!(true, "c01_recursive_translate_p2_huge_up: reachable");
    }

    //@ obligation C01 C01.recursive_translate.shape_p1_absent.agrees_with_walk tier=thorough bounded="pool of 7 tables (4 path + 3 allocatable); tree-shaped sparse pre-state (target path, one neighbour word per path table, garbage in allocatable frames); recursive index 300; page-table indices (255,511,0,256)"
    //@ obligation C01 C01.recursive_translate_addr.shape_p1_absent.agrees_with_walk tier=thorough bounded="pool of 7 tables (4 path + 3 allocatable); tree-shaped sparse pre-state (target path, one neighbour word per path table, garbage in allocatable frames); recursive index 300; page-table indices (255,511,0,256)"
    //@ obligation C09 C09.recursive_translate.shape_p1_absent.writes_nothing tier=thorough bounded="pool of 7 tables (4 path + 3 allocatable); tree-shaped sparse pre-state (target path, one neighbour word per path table, garbage in allocatable frames); recursive index 300; page-table indices (255,511,0,256)"
    //@ obligation C09 C09.recursive_translate.shape_p1_absent.no_frames_requested_or_zeroed tier=thorough bounded="pool of 7 tables (4 path + 3 allocatable); tree-shaped sparse pre-state (target path, one neighbour word per path table, garbage in allocatable frames); recursive index 300; page-table indices (255,511,0,256)"
    //@ obligation C09 C09.recursive_translate.shape_p1_absent.no_access_outside_page_tables tier=thorough bounded="pool of 7 tables (4 path + 3 allocatable); tree-shaped sparse pre-state (target path, one neighbour word per path table, garbage in allocatable frames); recursive index 300; page-table indices (255,511,0,256)"
    #[kani::proof]
    #[kani::stub(crate::structures::paging::page_table::PageTable::zero, zero_stub)]
    #[kani::stub(crate::addr::VirtAddr::as_mut_ptr, mmu_trap_as_mut_ptr)]
    fn c01_recursive_translate_p1_absent_mid() {
        rec_translate_step!("p1_absent", P1_ABSENT, IDX_MID);
        kani::cover!(true, "c01_recursive_translate_p1_absent_mid: reachable");
    }

    //@ obligation C01 C01.recursive_translate.shape_p1_absent.agrees_with_walk bounded="pool of 7 tables (4 path + 3 allocatable); tree-shaped sparse pre-state (target path, one neighbour word per path table, garbage in allocatable frames); recursive index 300; page-table indices (256,0,510,511)"
    //@ obligation C01 C01.recursive_translate_addr.shape_p1_absent.agrees_with_walk bounded="pool of 7 tables (4 path + 3 allocatable); tree-shaped sparse pre-state (target path, one neighbour word per path table, garbage in allocatable frames); recursive index 300; page-table indices (256,0,510,511)"
    //@ obligation C09 C09.recursive_translate.shape_p1_absent.writes_nothing bounded="pool of 7 tables (4 path + 3 allocatable); tree-shaped sparse pre-state (target path, one neighbour word per path table, garbage in allocatable frames); recursive index 300; page-table indices (256,0,510,511)"
    //@ obligation C09 C09.recursive_translate.shape_p1_absent.no_frames_requested_or_zeroed bounded="pool of 7 tables (4 path + 3 allocatable); tree-shaped sparse pre-state (target path, one neighbour word per path table, garbage in allocatable frames); recursive index 300; page-table indices (256,0,510,511)"
    //@ obligation C09 C09.recursive_translate.shape_p1_absent.no_access_outside_page_tables bounded="pool of 7 tables (4 path + 3 allocatable); tree-shaped sparse pre-state (target path, one neighbour word per path table, garbage in allocatable frames); recursive index 300; page-table indices (256,0,510,511)"
    #[kani::proof]
    #[kani::stub(crate::structures::paging::page_table::PageTable::zero, zero_stub)]
    #[kani::stub(crate::addr::VirtAddr::as_mut_ptr, mmu_trap_as_mut_ptr)]
    fn c01_recursive_translate_p1_absent_up() {
        rec_translate_step!("p1_absent", P1_ABSENT, IDX_UP);
        kani::cover!(true, "c01_recursive_translate_p1_absent_up: reachable");
    }

    //@ obligation C01 C01.recursive_translate.shape_p1_leaf.agrees_with_walk bounded="pool of 7 tables (4 path + 3 allocatable); tree-shaped sparse pre-state (target path, one neighbour word per path table, garbage in allocatable frames); recursive index 300; page-table indices (255,511,0,256)"
    //@ obligation C01 C01.recursive_translate_addr.shape_p1_leaf.agrees_with_walk bounded="pool of 7 tables (4 path + 3 allocatable); tree-shaped sparse pre-state (target path, one neighbour word per path table, garbage in allocatable frames); recursive index 300; page-table indices (255,511,0,256)"
    //@ obligation C09 C09.recursive_translate.shape_p1_leaf.writes_nothing bounded="pool of 7 tables (4 path + 3 allocatable); tree-shaped sparse pre-state (target path, one neighbour word per path table, garbage in allocatable frames); recursive index 300; page-table indices (255,511,0,256)"
    //@ obligation C09 C09.recursive_translate.shape_p1_leaf.no_frames_requested_or_zeroed bounded="pool of 7 tables (4 path + 3 allocatable); tree-shaped sparse pre-state (target path, one neighbour word per path table, garbage in allocatable frames); recursive index 300; page-table indices (255,511,0,256)"
    //@ obligation C09 C09.recursive_translate.shape_p1_leaf.no_access_outside_page_tables bounded="pool of 7 tables (4 path + 3 allocatable); tree-shaped sparse pre-state (target path, one neighbour word per path table, garbage in allocatable frames); recursive index 300; page-table indices (255,511,0,256)"
    #[kani::proof]
    #[kani::stub(crate::structures::paging::page_table::PageTable::zero, zero_stub)]
    #[kani::stub(crate::addr::VirtAddr::as_mut_ptr, mmu_trap_as_mut_ptr)]
    fn c01_recursive_translate_p1_leaf_mid() {
        rec_translate_step!("p1_leaf", P1_LEAF, IDX_MID);
        kani::cover!(true, "c01_recursive_translate_p1_leaf_mid: reachable");
    }

    //@ obligation C01 C01.recursive_translate.shape_p1_leaf.agrees_with_walk tier=thorough bounded="pool of 7 tables (4 path + 3 allocatable); tree-shaped sparse pre-state (target path, one neighbour word per path table, garbage in allocatable frames); recursive index 300; page-table indices (256,0,510,511)"
    //@ obligation C01 C01.recursive_translate_addr.shape_p1_leaf.agrees_with_walk tier=thorough bounded="pool of 7 tables (4 path + 3 allocatable); tree-shaped sparse pre-state (target path, one neighbour word per path table, garbage in allocatable frames); recursive index 300; page-table indices (256,0,510,511)"
    //@ obligation C09 C09.recursive_translate.shape_p1_leaf.writes_nothing tier=thorough bounded="pool of 7 tables (4 path + 3 allocatable); tree-shaped sparse pre-state (target path, one neighbour word per path table, garbage in allocatable frames); recursive index 300; page-table indices (256,0,510,511)"
    //@ obligation C09 C09.recursive_translate.shape_p1_leaf.no_frames_requested_or_zeroed tier=thorough bounded="pool of 7 tables (4 path + 3 allocatable); tree-shaped sparse pre-state (target path, one neighbour word per path table, garbage in allocatable frames); recursive index 300; page-table indices (256,0,510,511)"
    //@ obligation C09 C09.recursive_translate.shape_p1_leaf.no_access_outside_page_tables tier=thorough bounded="pool of 7 tables (4 path + 3 allocatable); tree-shaped sparse pre-state (target path, one neighbour word per path table, garbage in allocatable frames); recursive index 300; page-table indices (256,0,510,511)"
    #[kani::proof]
    #[kani::stub(crate::structures::paging::page_table::PageTable::zero, zero_stub)]
    #[kani::stub(crate::addr::VirtAddr::as_mut_ptr, mmu_trap_as_mut_ptr)]
    fn c01_recursive_translate_p1_leaf_up() {
        rec_translate_step!("p1_leaf", P1_LEAF, IDX_UP);
        kani::cover!(true, "c01_recursive_translate_p1_leaf_up: reachable");
    }
}
