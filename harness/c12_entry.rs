//@ include-into src/structures/idt.rs
// C12, part 3: a gate descriptor has the architectural 64-bit format.
//
// Independent decoder, written from SDM 3A 6.14.1 figure 6-8 "64-Bit IDT Gate
// Descriptors" / APM 2 4.8.4 figure 4-24 (NOT from the crate's field names or
// its bit_field calls). The 16 descriptor bytes are read as one little-endian
// u128 `x` straight from memory:
//
//   bytes  0..2   x[ 15:  0]  offset 15:0
//   bytes  2..4   x[ 31: 16]  segment selector
//   byte   4      x[ 34: 32]  IST            x[39:35] must be 0
//   byte   5      x[ 43: 40]  type (0xE interrupt gate, 0xF trap gate)
//                 x[ 44]      0 (system descriptor)
//                 x[ 46: 45]  DPL
//                 x[ 47]      P
//   bytes  6..8   x[ 63: 48]  offset 31:16
//   bytes  8..12  x[ 95: 64]  offset 63:32
//   bytes 12..16  x[127: 96]  reserved
//
// Frame conditions are stated on the whole u128: "all bits outside the
// setter's own field are unchanged", from a fully symbolic prior entry (all
// 2^128 byte patterns; nothing excluded). Because every setter is proved from
// an arbitrary prior state, any SEQUENCE of setters leaves each field at its
// last written value (induction over the sequence); `c12_entry_setter_sequence`
// additionally runs symbolic sequences of three calls end to end.
#[cfg(kani)]
#[allow(unused_imports, clippy::all)]
mod verif_c12_entry {
    use super::*;
    use crate::verif_hw::{self, Kind};

    #[inline(never)]
    fn returned_on_invalid_input() {
        unsafe { core::hint::unreachable_unchecked() }
    }

    // ---------------------------------------------------------------- decoder

    const F_OFFSET: u128 = 0x0000_0000_FFFF_FFFF_FFFF_0000_0000_FFFF;
    const F_SELECTOR: u128 = 0xFFFF << 16;
    const F_IST: u128 = 0x7 << 32;
    const F_ZERO_35_39: u128 = 0x1F << 35;
    const F_TYPE: u128 = 0xF << 40;
    const F_TYPE_BIT0: u128 = 1 << 40;
    const F_TYPE_MUST_BE_ONE: u128 = 0b1110 << 40;
    const F_ZERO_44: u128 = 1 << 44;
    const F_DPL: u128 = 0x3 << 45;
    const F_P: u128 = 1 << 47;
    const F_RESERVED: u128 = 0xFFFF_FFFF << 96;

    fn g_offset(x: u128) -> u64 {
        ((x & 0xFFFF) as u64) | ((((x >> 48) & 0xFFFF) as u64) << 16) | ((((x >> 64) & 0xFFFF_FFFF) as u64) << 32)
    }
    fn g_selector(x: u128) -> u16 {
        (x >> 16) as u16
    }
    fn g_ist(x: u128) -> u8 {
        ((x >> 32) & 7) as u8
    }
    fn g_type(x: u128) -> u8 {
        ((x >> 40) & 0xF) as u8
    }
    fn g_dpl(x: u128) -> u8 {
        ((x >> 45) & 3) as u8
    }
    fn g_p(x: u128) -> bool {
        (x >> 47) & 1 == 1
    }
    fn g_reserved(x: u128) -> u32 {
        (x >> 96) as u32
    }
    fn g_zero_bits(x: u128) -> u128 {
        x & (F_ZERO_35_39 | F_ZERO_44)
    }

    /// The 16 bytes of an entry as they lie in memory.
    fn raw<F>(e: &Entry<F>) -> u128 {
        unsafe { core::ptr::read_unaligned(e as *const Entry<F> as *const u128) }
    }

    /// An entry with 16 arbitrary bytes.
    fn any_entry<F>() -> Entry<F> {
        let x: u128 = kani::any();
        unsafe { core::ptr::read_unaligned(&x as *const u128 as *const Entry<F>) }
    }

    fn canonical(a: u64) -> bool {
        (((a << 16) as i64) >> 16) as u64 == a
    }

    /// SDM 3A 5.5: ring number (exhaustive match).
    fn pl_num(p: PrivilegeLevel) -> u8 {
        match p {
            PrivilegeLevel::Ring0 => 0,
            PrivilegeLevel::Ring1 => 1,
            PrivilegeLevel::Ring2 => 2,
            PrivilegeLevel::Ring3 => 3,
        }
    }

    fn any_pl() -> PrivilegeLevel {
        match kani::any::<u8>() {
            0 => PrivilegeLevel::Ring0,
            1 => PrivilegeLevel::Ring1,
            2 => PrivilegeLevel::Ring2,
            _ => PrivilegeLevel::Ring3,
        }
    }

    // ------------------------------------------------------- set_handler_addr

    /// Body shared by all handler types `F` (the type is a phantom parameter).
    fn check_set_handler_addr<F>() {
        verif_hw::reset_symbolic();
        let cs = verif_hw::m().cs;
        let mut e: Entry<F> = any_entry();
        let prior = raw(&e);
        let a: u64 = kani::any();
        kani::assume(canonical(a));
        let before = *verif_hw::m();
        let ebase = &e as *const Entry<F> as *const u8;
        let opts = unsafe { e.set_handler_addr(VirtAddr::new(a)) } as *mut EntryOptions as *const u8;
        let x = raw(&e);
        assert!(
            g_offset(x) == a,
            "C12.Entry_set_handler_addr.offset_is_address: offset 15:0 | 31:16 | 63:32 == addr"
        );
        assert!(
            g_selector(x) == cs,
            "C12.Entry_set_handler_addr.selector_is_current_cs: selector == CS register"
        );
        assert!(
            g_p(x) && g_type(x) == 0xE && g_dpl(x) == 0 && g_ist(x) == 0 && g_zero_bits(x) == 0,
            "C12.Entry_set_handler_addr.present_interrupt_gate_ring0_no_ist: P=1, type 0xE, DPL 0, IST 0, bits 35-39 and 44 zero"
        );
        assert!(
            g_reserved(x) == g_reserved(prior),
            "C12.Entry_set_handler_addr.reserved_untouched: bytes 12..16 unchanged"
        );
        assert!(
            e.handler_addr().as_u64() == a,
            "C12.Entry_set_handler_addr.handler_addr_reads_back: handler_addr() == addr"
        );
        assert!(
            unsafe { opts.offset_from(ebase) } == 2,
            "C12.Entry_set_handler_addr.returns_own_options: the returned &mut EntryOptions is bytes 2..6 of the entry"
        );
        let m = verif_hw::m();
        assert!(
            m.only_event_is(Kind::MovFromSeg, verif_hw::SEG_CS as u64, cs as u64, 0)
                && m.regs_same_except(&before, verif_hw::field::NONE),
            "C12.Entry_set_handler_addr.only_reads_cs: one `mov r, cs`, no register changed"
        );
    }

    //@ obligation C12 C12.Entry_set_handler_addr.offset_is_address
    //@ obligation C12 C12.Entry_set_handler_addr.selector_is_current_cs
    //@ obligation C12 C12.Entry_set_handler_addr.present_interrupt_gate_ring0_no_ist
    //@ obligation C12 C12.Entry_set_handler_addr.reserved_untouched
    //@ obligation C12 C12.Entry_set_handler_addr.handler_addr_reads_back
    //@ obligation C12 C12.Entry_set_handler_addr.returns_own_options
    //@ obligation C12 C12.Entry_set_handler_addr.only_reads_cs
    #[kani::proof]
    fn c12_entry_set_handler_addr_encodes() {
        kani::cover!(true, "c12_entry_set_handler_addr_encodes: reachable");
        check_set_handler_addr::<HandlerFunc>();
    }

    /// The same for the four other handler types.
    //@ obligation C12 C12.Entry_set_handler_addr.offset_is_address
    //@ obligation C12 C12.Entry_set_handler_addr.selector_is_current_cs
    //@ obligation C12 C12.Entry_set_handler_addr.present_interrupt_gate_ring0_no_ist
    #[kani::proof]
    fn c12_entry_set_handler_addr_other_types() {
        kani::cover!(true, "c12_entry_set_handler_addr_other_types: reachable");
        check_set_handler_addr::<HandlerFuncWithErrCode>();
        check_set_handler_addr::<PageFaultHandlerFunc>();
        check_set_handler_addr::<DivergingHandlerFunc>();
        check_set_handler_addr::<DivergingHandlerFuncWithErrCode>();
    }

    // --------------------------------------------------------- set_handler_fn
    // ASSUMPTION (stub): `to_virt_addr` runs `VirtAddr::new(f as u64)`; CBMC's
    // encoding of a function address is not canonical, so the canonical check is
    // replaced by the unchecked constructor here (real code addresses are
    // canonical). The claim is then "the gate's offset is exactly `f as u64`".

    fn virt_addr_new_unchecked(addr: u64) -> VirtAddr {
        unsafe { VirtAddr::new_unsafe(addr) }
    }

    extern "x86-interrupt" fn h_plain(_f: InterruptStackFrame) {}
    extern "x86-interrupt" fn h_err(_f: InterruptStackFrame, _e: u64) {}
    extern "x86-interrupt" fn h_pf(_f: InterruptStackFrame, _e: PageFaultErrorCode) {}
    extern "x86-interrupt" fn h_div(_f: InterruptStackFrame) -> ! {
        loop {}
    }
    extern "x86-interrupt" fn h_div_err(_f: InterruptStackFrame, _e: u64) -> ! {
        loop {}
    }

    macro_rules! check_set_handler_fn {
        ($ty:ty, $f:expr) => {{
            verif_hw::reset_symbolic();
            let cs = verif_hw::m().cs;
            let mut e: Entry<$ty> = any_entry();
            let f: $ty = $f;
            e.set_handler_fn(f);
            let x = raw(&e);
            assert!(
                g_offset(x) == f as u64,
                "C12.Entry_set_handler_fn.offset_is_fn_address: offset == handler as u64"
            );
            assert!(
                g_selector(x) == cs && g_p(x) && g_type(x) == 0xE && g_dpl(x) == 0 && g_ist(x) == 0
                    && g_zero_bits(x) == 0,
                "C12.Entry_set_handler_fn.same_defaults_as_set_handler_addr: CS, P=1, type 0xE, DPL 0, IST 0"
            );
        }};
    }

    //@ obligation C12 C12.Entry_set_handler_fn.offset_is_fn_address
    //@ obligation C12 C12.Entry_set_handler_fn.same_defaults_as_set_handler_addr
    #[kani::proof]
    #[kani::stub(crate::addr::VirtAddr::new, virt_addr_new_unchecked)]
    fn c12_entry_set_handler_fn_encodes() {
        kani::cover!(true, "c12_entry_set_handler_fn_encodes: reachable");
        check_set_handler_fn!(HandlerFunc, h_plain);
        check_set_handler_fn!(HandlerFuncWithErrCode, h_err);
        check_set_handler_fn!(PageFaultHandlerFunc, h_pf);
        check_set_handler_fn!(DivergingHandlerFunc, h_div);
        check_set_handler_fn!(DivergingHandlerFuncWithErrCode, h_div_err);
    }

    // ---------------------------------------------------------------- setters
    // Each from an arbitrary 16-byte entry: own field == argument, every other
    // bit unchanged, handler_addr() unchanged, returns its own receiver.

    //@ obligation C12 C12.EntryOptions_set_present.sets_bit_47_only
    #[kani::proof]
    fn c12_options_set_present() {
        let mut e: Entry<HandlerFunc> = any_entry();
        let present: bool = kani::any();
        kani::cover!(true, "c12_options_set_present: reachable");
        let before = raw(&e);
        let h0 = e.handler_addr();
        let recv = &e.options as *const EntryOptions;
        let ret = e.options.set_present(present) as *mut EntryOptions as *const EntryOptions;
        let after = raw(&e);
        assert!(
            g_p(after) == present,
            "C12.EntryOptions_set_present.sets_bit_47_only: P == argument"
        );
        assert!(
            after & !F_P == before & !F_P,
            "C12.EntryOptions_set_present.sets_bit_47_only: no other bit of the 16 bytes changed"
        );
        assert!(
            e.handler_addr() == h0 && ret == recv,
            "C12.EntryOptions_set_present.sets_bit_47_only: handler_addr() unchanged, returns self"
        );
    }

    //@ obligation C12 C12.EntryOptions_disable_interrupts.sets_gate_type_bit_only
    #[kani::proof]
    fn c12_options_disable_interrupts() {
        let mut e: Entry<HandlerFunc> = any_entry();
        let disable: bool = kani::any();
        kani::cover!(true, "c12_options_disable_interrupts: reachable");
        let before = raw(&e);
        let h0 = e.handler_addr();
        let recv = &e.options as *const EntryOptions;
        let ret = e.options.disable_interrupts(disable) as *mut EntryOptions as *const EntryOptions;
        let after = raw(&e);
        assert!(
            (after & F_TYPE_BIT0 != 0) == !disable,
            "C12.EntryOptions_disable_interrupts.sets_gate_type_bit_only: type bit 0 (x[40]) == !disable"
        );
        assert!(
            before & F_TYPE_MUST_BE_ONE != F_TYPE_MUST_BE_ONE
                || g_type(after) == (if disable { 0xE } else { 0xF }),
            "C12.EntryOptions_disable_interrupts.sets_gate_type_bit_only: with the must-be-one bits set: interrupt gate (0xE) iff disable, else trap gate (0xF)"
        );
        assert!(
            after & !F_TYPE_BIT0 == before & !F_TYPE_BIT0,
            "C12.EntryOptions_disable_interrupts.sets_gate_type_bit_only: no other bit of the 16 bytes changed"
        );
        assert!(
            e.handler_addr() == h0 && ret == recv,
            "C12.EntryOptions_disable_interrupts.sets_gate_type_bit_only: handler_addr() unchanged, returns self"
        );
    }

    //@ obligation C12 C12.EntryOptions_set_privilege_level.sets_dpl_only
    #[kani::proof]
    fn c12_options_set_privilege_level() {
        let mut e: Entry<HandlerFunc> = any_entry();
        let dpl = any_pl();
        kani::cover!(true, "c12_options_set_privilege_level: reachable");
        let before = raw(&e);
        let h0 = e.handler_addr();
        let recv = &e.options as *const EntryOptions;
        let ret = e.options.set_privilege_level(dpl) as *mut EntryOptions as *const EntryOptions;
        let after = raw(&e);
        assert!(
            g_dpl(after) == pl_num(dpl),
            "C12.EntryOptions_set_privilege_level.sets_dpl_only: DPL (x[46:45]) == ring number"
        );
        assert!(
            after & !F_DPL == before & !F_DPL,
            "C12.EntryOptions_set_privilege_level.sets_dpl_only: no other bit of the 16 bytes changed"
        );
        assert!(
            e.handler_addr() == h0 && ret == recv,
            "C12.EntryOptions_set_privilege_level.sets_dpl_only: handler_addr() unchanged, returns self"
        );
    }

    //@ obligation C12 C12.EntryOptions_set_stack_index.sets_ist_to_index_plus_1_only
    #[kani::proof]
    fn c12_options_set_stack_index() {
        let mut e: Entry<HandlerFunc> = any_entry();
        let index: u16 = kani::any();
        kani::assume(index <= 6);
        kani::cover!(true, "c12_options_set_stack_index: reachable");
        let before = raw(&e);
        let h0 = e.handler_addr();
        let recv = &e.options as *const EntryOptions;
        let ret = unsafe { e.options.set_stack_index(index) } as *mut EntryOptions as *const EntryOptions;
        let after = raw(&e);
        assert!(
            g_ist(after) as u16 == index + 1,
            "C12.EntryOptions_set_stack_index.sets_ist_to_index_plus_1_only: IST (x[34:32]) == index + 1"
        );
        assert!(
            after & !F_IST == before & !F_IST,
            "C12.EntryOptions_set_stack_index.sets_ist_to_index_plus_1_only: no other bit of the 16 bytes changed"
        );
        assert!(
            e.handler_addr() == h0 && ret == recv,
            "C12.EntryOptions_set_stack_index.sets_ist_to_index_plus_1_only: handler_addr() unchanged, returns self"
        );
    }

    /// Documented panic ("panics if the index is not in the range 0..7"); the
    /// property quantifies over 0..=6 only, this is the complement.
    //@ obligation C12 C12.EntryOptions_set_stack_index.rejects_index_ge_7
    #[kani::proof]
    #[kani::should_panic]
    fn c12_options_set_stack_index_rejects() {
        let mut e: Entry<HandlerFunc> = any_entry();
        let index: u16 = kani::any();
        kani::assume(index >= 7);
        kani::cover!(true, "c12_options_set_stack_index_rejects: reachable");
        unsafe { e.options.set_stack_index(index) };
        returned_on_invalid_input();
    }

    //@ obligation C12 C12.EntryOptions_set_code_selector.sets_selector_only
    #[kani::proof]
    fn c12_options_set_code_selector() {
        let mut e: Entry<HandlerFunc> = any_entry();
        let sel: u16 = kani::any();
        kani::cover!(true, "c12_options_set_code_selector: reachable");
        let before = raw(&e);
        let h0 = e.handler_addr();
        let recv = &e.options as *const EntryOptions;
        let ret = unsafe { e.options.set_code_selector(SegmentSelector(sel)) } as *mut EntryOptions
            as *const EntryOptions;
        let after = raw(&e);
        assert!(
            g_selector(after) == sel,
            "C12.EntryOptions_set_code_selector.sets_selector_only: selector (bytes 2..4) == argument"
        );
        assert!(
            after & !F_SELECTOR == before & !F_SELECTOR,
            "C12.EntryOptions_set_code_selector.sets_selector_only: no other bit of the 16 bytes changed"
        );
        assert!(
            e.handler_addr() == h0 && ret == recv,
            "C12.EntryOptions_set_code_selector.sets_selector_only: handler_addr() unchanged, returns self"
        );
    }

    // ---------------------------------------------------- sequences of setters

    #[derive(Clone, Copy)]
    struct Model {
        p: bool,
        trap: bool,
        dpl: u8,
        ist: u8,
        sel: u16,
    }

    /// One symbolic setter call on `o`, mirrored on the model.
    fn any_step(o: &mut EntryOptions, m: &mut Model) {
        match kani::any::<u8>() {
            0 => {
                let v: bool = kani::any();
                o.set_present(v);
                m.p = v;
            }
            1 => {
                let v: bool = kani::any();
                o.disable_interrupts(v);
                m.trap = !v;
            }
            2 => {
                let v = any_pl();
                o.set_privilege_level(v);
                m.dpl = pl_num(v);
            }
            3 => {
                let v: u16 = kani::any();
                kani::assume(v <= 6);
                unsafe { o.set_stack_index(v) };
                m.ist = v as u8 + 1;
            }
            _ => {
                let v: u16 = kani::any();
                unsafe { o.set_code_selector(SegmentSelector(v)) };
                m.sel = v;
            }
        }
    }

    /// `missing()` -> `set_handler_addr(a)` -> three symbolic setter calls
    /// (chained on the returned `&mut EntryOptions`): every field holds its
    /// last written value (or the default), the address reads back.
    //@ obligation C12 C12.EntryOptions.setter_sequence_last_write_wins bounded="sequences of exactly 3 setter calls after set_handler_addr; any length follows by induction from the per-setter frame obligations, which hold from every prior state"
    #[kani::proof]
    fn c12_entry_setter_sequence() {
        verif_hw::reset_symbolic();
        let cs = verif_hw::m().cs;
        let a: u64 = kani::any();
        kani::assume(canonical(a));
        kani::cover!(true, "c12_entry_setter_sequence: reachable");
        let mut e: Entry<HandlerFunc> = Entry::missing();
        let mut m = Model { p: true, trap: false, dpl: 0, ist: 0, sel: cs };
        {
            let o = unsafe { e.set_handler_addr(VirtAddr::new(a)) };
            any_step(o, &mut m);
            any_step(o, &mut m);
            any_step(o, &mut m);
        }
        let x = raw(&e);
        assert!(
            g_p(x) == m.p
                && g_type(x) == (if m.trap { 0xF } else { 0xE })
                && g_dpl(x) == m.dpl
                && g_ist(x) == m.ist
                && g_selector(x) == m.sel,
            "C12.EntryOptions.setter_sequence_last_write_wins: P, gate type, DPL, IST, selector"
        );
        assert!(
            g_offset(x) == a && e.handler_addr().as_u64() == a && g_reserved(x) == 0 && g_zero_bits(x) == 0,
            "C12.EntryOptions.setter_sequence_last_write_wins: offset == addr == handler_addr(), reserved bits zero"
        );
    }

    // ------------------------------------------------- missing / new / reset

    /// Non-present 64-bit interrupt gate with the must-be-one type bits, all else 0.
    const MISSING: u128 = 0x0E << 40;

    //@ obligation C12 C12.Entry_missing.non_present_gate_with_must_be_one_bits
    #[kani::proof]
    fn c12_entry_missing_bytes() {
        kani::cover!(true, "c12_entry_missing_bytes: reachable");
        let x = raw(&Entry::<HandlerFunc>::missing());
        assert!(
            !g_p(x) && (g_type(x) >> 1) == 0b111,
            "C12.Entry_missing.non_present_gate_with_must_be_one_bits: P == 0, type bits 3:1 == 0b111"
        );
        assert!(
            x & !F_TYPE_MUST_BE_ONE == 0,
            "C12.Entry_missing.non_present_gate_with_must_be_one_bits: every other bit is 0"
        );
        assert!(
            raw(&Entry::<HandlerFuncWithErrCode>::missing()) == MISSING
                && raw(&Entry::<PageFaultHandlerFunc>::missing()) == MISSING
                && raw(&Entry::<DivergingHandlerFunc>::missing()) == MISSING
                && raw(&Entry::<DivergingHandlerFuncWithErrCode>::missing()) == MISSING
                && x == MISSING,
            "C12.Entry_missing.non_present_gate_with_must_be_one_bits: same 16 bytes for every handler type"
        );
        assert!(
            Entry::<HandlerFunc>::missing().handler_addr().as_u64() == 0,
            "C12.Entry_missing.non_present_gate_with_must_be_one_bits: handler_addr() == 0"
        );
    }

    /// The 16 bytes of vector `v` of a table.
    fn raw_vector(idt: &InterruptDescriptorTable, v: u8) -> u128 {
        unsafe {
            core::ptr::read_unaligned(
                (idt as *const InterruptDescriptorTable as *const u8).add(16 * v as usize) as *const u128,
            )
        }
    }

    /// `new()` / `default()`: all 256 descriptors are the missing gate (one
    /// symbolic vector number instead of a loop).
    //@ obligation C12 C12.Idt_new.all_256_entries_missing
    #[kani::proof]
    fn c12_idt_new_all_missing() {
        let v: u8 = kani::any();
        kani::cover!(true, "c12_idt_new_all_missing: reachable");
        let idt = InterruptDescriptorTable::new();
        assert!(
            raw_vector(&idt, v) == MISSING,
            "C12.Idt_new.all_256_entries_missing: new(): bytes 16v..16v+16 are the missing gate"
        );
        let d = InterruptDescriptorTable::default();
        assert!(
            raw_vector(&d, v) == MISSING,
            "C12.Idt_new.all_256_entries_missing: default(): bytes 16v..16v+16 are the missing gate"
        );
    }

    /// `reset()` from an arbitrary 4096-byte table.
    //@ obligation C12 C12.Idt_reset.all_256_entries_missing
    #[kani::proof]
    fn c12_idt_reset_all_missing() {
        let v: u8 = kani::any();
        let bytes: [u8; 4096] = kani::any();
        kani::cover!(true, "c12_idt_reset_all_missing: reachable");
        let mut idt: InterruptDescriptorTable =
            unsafe { core::ptr::read_unaligned(bytes.as_ptr() as *const InterruptDescriptorTable) };
        idt.reset();
        assert!(
            raw_vector(&idt, v) == MISSING,
            "C12.Idt_reset.all_256_entries_missing: bytes 16v..16v+16 are the missing gate"
        );
    }

    // ----------------------------------------------------------- handler_addr

    /// Tags a contract clause with its obligation name (identity on `c`).
    fn ob(_name: &'static str, c: bool) -> bool {
        c
    }

    /// C03 clause: `handler_addr()` is canonical for ANY 16 entry bytes, and it is
    /// the sign extension of offset bits 47:0 (contract on a thin wrapper; `x` =
    /// the 16 bytes as a little-endian u128).
    #[kani::ensures(|r: &u64| ob("C03.IdtEntry_handler_addr.valid", canonical(*r)))]
    #[kani::ensures(|r: &u64| ob("C12.Entry_handler_addr.reads_offset_fields", *r & 0xFFFF_FFFF_FFFF == g_offset(x) & 0xFFFF_FFFF_FFFF))]
    #[kani::ensures(|r: &u64| ob("C12.Entry_handler_addr.reads_offset_fields", !canonical(g_offset(x)) || *r == g_offset(x)))]
    fn w_handler_addr(x: u128) -> u64 {
        let e: Entry<HandlerFunc> = unsafe { core::ptr::read_unaligned(&x as *const u128 as *const Entry<HandlerFunc>) };
        e.handler_addr().as_u64()
    }

    //@ obligation C03 C03.IdtEntry_handler_addr.valid
    //@ obligation C12 C12.Entry_handler_addr.reads_offset_fields
    #[kani::proof_for_contract(w_handler_addr)]
    fn c12_entry_handler_addr_canonical() {
        let x: u128 = kani::any();
        w_handler_addr(x);
        kani::cover!(true, "c12_entry_handler_addr_canonical: reachable");
    }
}
