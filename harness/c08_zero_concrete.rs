//@ include-into src/structures/paging/page_table.rs
// Concrete-content variants of the zero()/is_empty harnesses of c08_table.rs (measured: still 220-310 s, the iterator
// adapters dominate, so they are thorough-tier). The quick-tier check of zero() is c09_page_table_zero_contract (c01_walker.rs). They license the `PageTable::zero` stub used by the mapper step harnesses.
#[cfg(kani)]
mod verif_c08_zero_concrete {
    use super::*;

    fn fill(t: &mut PageTable, v: u64) {
        let p = t as *mut PageTable as *mut u64;
        let mut i = 0;
        while i < 512 {
            unsafe { *p.add(i) = v; }
            i += 1;
        }
    }

    //@ obligation C08 C08.PageTable_zero.clears_every_slot_of_a_full_table tier=thorough bounded="concrete pre-state: all 512 words 0xffff_ffff_ffff_ffff"
    //@ obligation C09 C09.PageTable_zero.clears_every_slot_of_a_full_table tier=thorough bounded="concrete pre-state: all 512 words 0xffff_ffff_ffff_ffff"
    #[kani::proof]
    #[kani::unwind(513)]
    fn c08_zero_full_table_quick() {
        let mut t = PageTable::new();
        fill(&mut t, 0xffff_ffff_ffff_ffff);
        kani::cover!(true, "c08_zero_full_table_quick: reachable");
        t.zero();
        let j: usize = kani::any();
        kani::assume(j < 512);
        let w = unsafe { *(&t as *const PageTable as *const u64).add(j) };
        assert!(w == 0, "C08.PageTable_zero.clears_every_slot_of_a_full_table: word j is zero after zero()");
        assert!(t.is_empty(), "C08.PageTable_zero.clears_every_slot_of_a_full_table: is_empty() after zero()");
    }

    //@ obligation C08 C08.PageTable_is_empty.false_with_one_nonzero_slot tier=thorough bounded="concrete tables with exactly one non-zero word at slot 0, 63, 64, 256 or 511"
    #[kani::proof]
    #[kani::unwind(513)]
    fn c08_is_empty_one_nonzero_slot_quick() {
        let which: u8 = kani::any();
        kani::assume(which < 5);
        let k: usize = match which { 0 => 0, 1 => 63, 2 => 64, 3 => 256, _ => 511 };
        let mut t = PageTable::new();
        kani::cover!(true, "c08_is_empty_one_nonzero_slot_quick: reachable");
        assert!(t.is_empty(), "C08.PageTable_is_empty.false_with_one_nonzero_slot: new() is empty");
        unsafe { *(&mut t as *mut PageTable as *mut u64).add(k) = 1; }
        assert!(!t.is_empty(), "C08.PageTable_is_empty.false_with_one_nonzero_slot: not empty with one non-zero word");
    }
}
