//@ include-into src/lib.rs
//
// E1 TWINS, second batch (first batch: c03_twins.rs, c07_twins.rs): the
// remaining C03 obligations of /verif/spec/{addr,page,frame}.spec.rs that are
// reachable without the `step_trait` feature and were not twinned elsewhere
// (the `.valid` clauses of align_*/containing_address/from_start_address are
// in c06_twins.rs, those of forward_checked_* in c05_twins.rs), and the C04
// obligations of /verif/spec/page_table_types.spec.rs (index / offset
// constructors and conversions, level helpers). Same obligation NAMES as on
// the Verus side (DESIGN 2, twin rule); public API only (plus the
// `pub(crate)` `PageTableIndex::into_u64`).
//
// "valid" = the type invariant: canonical (bits 47..63 equal) for virtual
// addresses and page starts, below 2^52 for physical addresses and frame
// starts, size-aligned for pages and frames.
//
// E2 only (feature `step_trait` is off in the Kani build):
//   C03.VirtAddr_Step_forward_checked.valid, C03.VirtAddr_Step_backward_checked.valid,
//   C03.VirtAddr_backward_checked_u64.valid, C03.Page_Step_forward_checked.valid,
//   C03.Page_Step_backward_checked.valid.
#[cfg(kani)]
#[allow(unused_imports, clippy::all)]
mod verif_c03_twins2 {
    use super::*;
    use crate::structures::paging::page_table::PageTableLevel;
    use crate::structures::paging::{Page, PageOffset, PageSize, PageTableIndex, PhysFrame, Size1GiB, Size2MiB, Size4KiB};

    /// Checks every listed clause on its own path: Kani's `assert!` also ASSUMES its condition afterwards, so in a
    /// plain sequence a failing earlier clause would hide a failing later one (and with it the later obligation).
    macro_rules! check_each {
        ($( $c:expr => $m:literal ),+ $(,)?) => {{
            let pick: u8 = kani::any();
            let mut k: u8 = 0;
            $(
                if pick == k {
                    assert!($c, $m);
                }
                k += 1;
            )+
            let _ = k;
        }};
    }

    /// "the call returned although the input is invalid": see lib/C19_NOTES.md.
    #[inline(never)]
    fn returned_on_invalid_input() {
        unsafe { core::hint::unreachable_unchecked() }
    }

    const TWO52: u128 = 1 << 52;
    const TWO64: u128 = 1 << 64;

    fn canonical(a: u64) -> bool {
        let top = a >> 47;
        top == 0 || top == 0x1_ffff
    }

    fn virt_ok(x: i128) -> bool {
        x >= 0 && (x as u128) < TWO64 && canonical(x as u64)
    }

    fn phys_ok(x: i128) -> bool {
        x >= 0 && (x as u128) < TWO52
    }

    fn any_virt() -> (u64, VirtAddr) {
        let a: u64 = kani::any();
        kani::assume(canonical(a));
        (a, VirtAddr::new(a))
    }

    fn any_phys() -> (u64, PhysAddr) {
        let a: u64 = kani::any();
        kani::assume((a as u128) < TWO52);
        (a, PhysAddr::new(a))
    }

    fn any_page<S: PageSize>(size: u64) -> (u64, Page<S>) {
        let (a, v) = any_virt();
        kani::assume(a % size == 0);
        (a, Page::from_start_address(v).unwrap())
    }

    fn any_frame<S: PageSize>(size: u64) -> (u64, PhysFrame<S>) {
        let (a, p) = any_phys();
        kani::assume(a % size == 0);
        (a, PhysFrame::from_start_address(p).unwrap())
    }

    // ================================================================ C03 constructors

    //@ obligation C03 C03.PhysAddr_new.returns_iff_52bit
    #[kani::proof]
    fn c03_twin2_physaddr_new_exact() {
        let a: u64 = kani::any();
        kani::assume((a as u128) < TWO52);
        kani::cover!(true, "c03_twin2_physaddr_new_exact: reachable");
        let r = PhysAddr::new(a).as_u64();
        check_each! {
            r == a
                => "C03.PhysAddr_new.returns_iff_52bit: a valid address is returned unchanged",
        }
    }

    //@ obligation C03 C03.PhysAddr_new.returns_iff_52bit
    #[kani::proof]
    #[kani::should_panic]
    fn c03_twin2_physaddr_new_panics() {
        let a: u64 = kani::any();
        kani::assume((a as u128) >= TWO52);
        kani::cover!(true, "c03_twin2_physaddr_new_panics: reachable");
        let _ = PhysAddr::new(a);
        returned_on_invalid_input();
    }

    //@ obligation C03 C03.VirtAddr_zero.valid
    //@ obligation C03 C03.PhysAddr_zero.valid
    #[kani::proof]
    fn c03_twin2_zero() {
        kani::cover!(true, "c03_twin2_zero: reachable");
        let v = VirtAddr::zero().as_u64();
        check_each! {
            v == 0 && canonical(v)
                => "C03.VirtAddr_zero.valid: zero() is address 0, which is canonical",
        }
        let p = PhysAddr::zero().as_u64();
        check_each! {
            p == 0 && (p as u128) < TWO52
                => "C03.PhysAddr_zero.valid: zero() is address 0, which is below 2^52",
        }
    }

    // from_ptr: returns iff the pointer's address is canonical, and then that address
    //@ obligation C03 C03.VirtAddr_from_ptr.valid_or_panic
    #[kani::proof]
    fn c03_twin2_virtaddr_from_ptr_exact() {
        let a: u64 = kani::any();
        kani::assume(canonical(a));
        kani::cover!(true, "c03_twin2_virtaddr_from_ptr_exact: reachable");
        let r = VirtAddr::from_ptr(a as *const u8).as_u64();
        check_each! {
            r == a && canonical(r)
                => "C03.VirtAddr_from_ptr.valid_or_panic: the pointer's address, which is canonical",
        }
    }

    //@ obligation C03 C03.VirtAddr_from_ptr.valid_or_panic
    #[kani::proof]
    #[kani::should_panic]
    fn c03_twin2_virtaddr_from_ptr_panics() {
        let a: u64 = kani::any();
        kani::assume(!canonical(a));
        kani::cover!(true, "c03_twin2_virtaddr_from_ptr_panics: reachable");
        let _ = VirtAddr::from_ptr(a as *const u8);
        returned_on_invalid_input();
    }

    // ================================================================ C03 assign operators (exactness: c07_twins.rs)

    //@ obligation C03 C03.VirtAddr_add_assign_u64.valid
    //@ obligation C03 C03.VirtAddr_sub_assign_u64.valid
    #[kani::proof]
    fn c03_twin2_virtaddr_assign_ops_valid() {
        let (a, mut v) = any_virt();
        let (b, mut w) = any_virt();
        let rhs: u64 = kani::any();
        kani::assume(virt_ok(a as i128 + rhs as i128));
        kani::assume(virt_ok(b as i128 - rhs as i128));
        kani::cover!(true, "c03_twin2_virtaddr_assign_ops_valid: reachable");
        v += rhs;
        check_each! {
            canonical(v.as_u64())
                => "C03.VirtAddr_add_assign_u64.valid: the stored address is canonical",
        }
        w -= rhs;
        check_each! {
            canonical(w.as_u64())
                => "C03.VirtAddr_sub_assign_u64.valid: the stored address is canonical",
        }
    }

    //@ obligation C03 C03.PhysAddr_add_assign_u64.valid
    //@ obligation C03 C03.PhysAddr_sub_assign_u64.valid
    #[kani::proof]
    fn c03_twin2_physaddr_assign_ops_valid() {
        let (a, mut v) = any_phys();
        let (b, mut w) = any_phys();
        let rhs: u64 = kani::any();
        kani::assume(phys_ok(a as i128 + rhs as i128));
        kani::assume(phys_ok(b as i128 - rhs as i128));
        kani::cover!(true, "c03_twin2_physaddr_assign_ops_valid: reachable");
        v += rhs;
        check_each! {
            (v.as_u64() as u128) < TWO52
                => "C03.PhysAddr_add_assign_u64.valid: the stored address is below 2^52",
        }
        w -= rhs;
        check_each! {
            (w.as_u64() as u128) < TWO52
                => "C03.PhysAddr_sub_assign_u64.valid: the stored address is below 2^52",
        }
    }

    fn page_assign_ops_valid<S: PageSize>(size: u64) {
        let (a, mut x) = any_page::<S>(size);
        let (b, mut y) = any_page::<S>(size);
        let rhs: u64 = kani::any();
        kani::assume(virt_ok(a as i128 + rhs as i128 * size as i128));
        kani::assume(virt_ok(b as i128 - rhs as i128 * size as i128));
        x += rhs;
        let r = x.start_address().as_u64();
        check_each! {
            canonical(r) && r % size == 0
                => "C03.Page_add_assign_u64.valid: the stored page start is canonical and size-aligned",
        }
        y -= rhs;
        let r = y.start_address().as_u64();
        check_each! {
            canonical(r) && r % size == 0
                => "C03.Page_sub_assign_u64.valid: the stored page start is canonical and size-aligned",
        }
    }

    //@ obligation C03 C03.Page_add_assign_u64.valid
    //@ obligation C03 C03.Page_sub_assign_u64.valid
    #[kani::proof]
    fn c03_twin2_page_assign_ops_valid() {
        let sel: u8 = kani::any();
        kani::assume(sel < 3);
        kani::cover!(true, "c03_twin2_page_assign_ops_valid: reachable");
        match sel {
            0 => page_assign_ops_valid::<Size4KiB>(4096),
            1 => page_assign_ops_valid::<Size2MiB>(0x20_0000),
            _ => page_assign_ops_valid::<Size1GiB>(0x4000_0000),
        }
    }

    fn frame_assign_ops_valid<S: PageSize>(size: u64) {
        let (a, mut x) = any_frame::<S>(size);
        let (b, mut y) = any_frame::<S>(size);
        let rhs: u64 = kani::any();
        kani::assume(phys_ok(a as i128 + rhs as i128 * size as i128));
        kani::assume(phys_ok(b as i128 - rhs as i128 * size as i128));
        x += rhs;
        let r = x.start_address().as_u64();
        check_each! {
            (r as u128) < TWO52 && r % size == 0
                => "C03.PhysFrame_add_assign_u64.valid: the stored frame start is below 2^52 and size-aligned",
        }
        y -= rhs;
        let r = y.start_address().as_u64();
        check_each! {
            (r as u128) < TWO52 && r % size == 0
                => "C03.PhysFrame_sub_assign_u64.valid: the stored frame start is below 2^52 and size-aligned",
        }
    }

    //@ obligation C03 C03.PhysFrame_add_assign_u64.valid
    //@ obligation C03 C03.PhysFrame_sub_assign_u64.valid
    #[kani::proof]
    fn c03_twin2_physframe_assign_ops_valid() {
        let sel: u8 = kani::any();
        kani::assume(sel < 3);
        kani::cover!(true, "c03_twin2_physframe_assign_ops_valid: reachable");
        match sel {
            0 => frame_assign_ops_valid::<Size4KiB>(4096),
            1 => frame_assign_ops_valid::<Size2MiB>(0x20_0000),
            _ => frame_assign_ops_valid::<Size1GiB>(0x4000_0000),
        }
    }

    // ================================================================ C03 start_address

    fn page_start_address_valid<S: PageSize>(size: u64) {
        let (a, x) = any_page::<S>(size);
        let r = x.start_address().as_u64();
        check_each! {
            r == a && canonical(r) && r % size == 0
                => "C03.Page_start_address.valid: the stored start address, canonical and size-aligned",
        }
    }

    //@ obligation C03 C03.Page_start_address.valid
    #[kani::proof]
    fn c03_twin2_page_start_address_valid() {
        let sel: u8 = kani::any();
        kani::assume(sel < 3);
        kani::cover!(true, "c03_twin2_page_start_address_valid: reachable");
        match sel {
            0 => page_start_address_valid::<Size4KiB>(4096),
            1 => page_start_address_valid::<Size2MiB>(0x20_0000),
            _ => page_start_address_valid::<Size1GiB>(0x4000_0000),
        }
    }

    fn frame_start_address_valid<S: PageSize>(size: u64) {
        let (a, x) = any_frame::<S>(size);
        let r = x.start_address().as_u64();
        check_each! {
            r == a && (r as u128) < TWO52 && r % size == 0
                => "C03.PhysFrame_start_address.valid: the stored start address, below 2^52 and size-aligned",
        }
    }

    //@ obligation C03 C03.PhysFrame_start_address.valid
    #[kani::proof]
    fn c03_twin2_physframe_start_address_valid() {
        let sel: u8 = kani::any();
        kani::assume(sel < 3);
        kani::cover!(true, "c03_twin2_physframe_start_address_valid: reachable");
        match sel {
            0 => frame_start_address_valid::<Size4KiB>(4096),
            1 => frame_start_address_valid::<Size2MiB>(0x20_0000),
            _ => frame_start_address_valid::<Size1GiB>(0x4000_0000),
        }
    }

    // ================================================================ C04 PageTableIndex / PageOffset

    //@ obligation C04 C04.PageTableIndex_new.returns_iff_lt_512
    //@ obligation C04 C04.PageTableIndex_to_u16.value
    //@ obligation C04 C04.PageTableIndex_to_u64.value
    //@ obligation C04 C04.PageTableIndex_to_usize.value
    //@ obligation C04 C04.PageTableIndex_into_u64.value
    //@ obligation C04 C04.PageTableIndex_to_u32.value
    #[kani::proof]
    fn c04_twin2_page_table_index_new_exact() {
        let i: u16 = kani::any();
        kani::assume(i < 512);
        kani::cover!(true, "c04_twin2_page_table_index_new_exact: reachable");
        let x = PageTableIndex::new(i);
        check_each! {
            u16::from(x) == i
                => "C04.PageTableIndex_new.returns_iff_lt_512: an index below 512 is stored unchanged",
            u16::from(x) == i && u16::from(x) < 512
                => "C04.PageTableIndex_to_u16.value: the stored index",
            u64::from(x) == i as u64
                => "C04.PageTableIndex_to_u64.value: the stored index",
            usize::from(x) == i as usize
                => "C04.PageTableIndex_to_usize.value: the stored index",
            x.into_u64() == i as u64
                => "C04.PageTableIndex_into_u64.value: the stored index",
            u32::from(x) == i as u32
                => "C04.PageTableIndex_to_u32.value: the stored index",
        }
    }

    //@ obligation C04 C04.PageTableIndex_new.returns_iff_lt_512
    #[kani::proof]
    #[kani::should_panic]
    fn c04_twin2_page_table_index_new_panics() {
        let i: u16 = kani::any();
        kani::assume(i >= 512);
        kani::cover!(true, "c04_twin2_page_table_index_new_panics: reachable");
        let _ = PageTableIndex::new(i);
        returned_on_invalid_input();
    }

    //@ obligation C04 C04.PageTableIndex_new_truncate.mod_512
    #[kani::proof]
    fn c04_twin2_page_table_index_new_truncate() {
        let i: u16 = kani::any();
        kani::cover!(true, "c04_twin2_page_table_index_new_truncate: reachable");
        let r = u16::from(PageTableIndex::new_truncate(i));
        check_each! {
            r == i % 512 && r < 512
                => "C04.PageTableIndex_new_truncate.mod_512: the index modulo 512",
        }
    }

    //@ obligation C04 C04.PageOffset_new.returns_iff_lt_4096
    //@ obligation C04 C04.PageOffset_to_u16.value
    //@ obligation C04 C04.PageOffset_to_u64.value
    //@ obligation C04 C04.PageOffset_to_u32.value
    //@ obligation C04 C04.PageOffset_to_usize.value
    #[kani::proof]
    fn c04_twin2_page_offset_new_exact() {
        let o: u16 = kani::any();
        kani::assume(o < 4096);
        kani::cover!(true, "c04_twin2_page_offset_new_exact: reachable");
        let x = PageOffset::new(o);
        check_each! {
            u16::from(x) == o
                => "C04.PageOffset_new.returns_iff_lt_4096: an offset below 4096 is stored unchanged",
            u16::from(x) == o && u16::from(x) < 4096
                => "C04.PageOffset_to_u16.value: the stored offset",
            u64::from(x) == o as u64
                => "C04.PageOffset_to_u64.value: the stored offset",
            u32::from(x) == o as u32
                => "C04.PageOffset_to_u32.value: the stored offset",
            usize::from(x) == o as usize
                => "C04.PageOffset_to_usize.value: the stored offset",
        }
    }

    //@ obligation C04 C04.PageOffset_new.returns_iff_lt_4096
    #[kani::proof]
    #[kani::should_panic]
    fn c04_twin2_page_offset_new_panics() {
        let o: u16 = kani::any();
        kani::assume(o >= 4096);
        kani::cover!(true, "c04_twin2_page_offset_new_panics: reachable");
        let _ = PageOffset::new(o);
        returned_on_invalid_input();
    }

    //@ obligation C04 C04.PageOffset_new_truncate.mod_4096
    #[kani::proof]
    fn c04_twin2_page_offset_new_truncate() {
        let o: u16 = kani::any();
        kani::cover!(true, "c04_twin2_page_offset_new_truncate: reachable");
        let r = u16::from(PageOffset::new_truncate(o));
        check_each! {
            r == o % 4096 && r < 4096
                => "C04.PageOffset_new_truncate.mod_4096: the offset modulo 4096",
        }
    }

    // ================================================================ C04 PageTableLevel

    /// (level, its number 1..4)
    fn any_level() -> (PageTableLevel, u8) {
        match kani::any::<u8>() {
            0 => (PageTableLevel::One, 1),
            1 => (PageTableLevel::Two, 2),
            2 => (PageTableLevel::Three, 3),
            _ => (PageTableLevel::Four, 4),
        }
    }

    /// exhaustive (a new variant breaks the build)
    fn level_num(l: PageTableLevel) -> u8 {
        match l {
            PageTableLevel::One => 1,
            PageTableLevel::Two => 2,
            PageTableLevel::Three => 3,
            PageTableLevel::Four => 4,
        }
    }

    //@ obligation C04 C04.PageTableLevel_next_lower_level.table
    //@ obligation C04 C04.PageTableLevel_next_higher_level.table
    #[kani::proof]
    fn c04_twin2_level_neighbours() {
        let (l, n) = any_level();
        kani::cover!(true, "c04_twin2_level_neighbours: reachable");
        let lo = l.next_lower_level();
        check_each! {
            lo.is_none() == (n == 1) && (lo.is_none() || level_num(lo.unwrap()) == n - 1)
                => "C04.PageTableLevel_next_lower_level.table: None exactly for level 1, else the level numbered one less",
        }
        let hi = l.next_higher_level();
        check_each! {
            hi.is_none() == (n == 4) && (hi.is_none() || level_num(hi.unwrap()) == n + 1)
                => "C04.PageTableLevel_next_higher_level.table: None exactly for level 4, else the level numbered one more",
        }
    }

    fn pow2(x: u64) -> bool {
        x != 0 && x & x.wrapping_sub(1) == 0
    }

    //@ obligation C04 C04.PageTableLevel_table_alignment.layout_9_9_9_9_12
    //@ obligation C04 C04.PageTableLevel_entry_alignment.layout_9_9_9_9_12
    #[kani::proof]
    fn c04_twin2_level_alignments() {
        let (l, n) = any_level();
        kani::cover!(true, "c04_twin2_level_alignments: reachable");
        // 9-9-9-9-12: an entry of level n maps 2^(12 + 9 (n - 1)) bytes, a table 512 entries
        let entry: u64 = match n {
            1 => 0x1000,
            2 => 0x20_0000,
            3 => 0x4000_0000,
            _ => 0x80_0000_0000,
        };
        let table: u64 = match n {
            1 => 0x20_0000,
            2 => 0x4000_0000,
            3 => 0x80_0000_0000,
            _ => 0x1_0000_0000_0000,
        };
        let t = l.table_address_space_alignment();
        check_each! {
            t == table && pow2(t)
                => "C04.PageTableLevel_table_alignment.layout_9_9_9_9_12: 2 MiB, 1 GiB, 512 GiB, 256 TiB for levels 1-4",
        }
        let e = l.entry_address_space_alignment();
        check_each! {
            e == entry && e == 1u64 << (12 + 9 * (n as u32 - 1)) && pow2(e)
                => "C04.PageTableLevel_entry_alignment.layout_9_9_9_9_12: 4 KiB, 2 MiB, 1 GiB, 512 GiB for levels 1-4",
        }
    }
}
