//@ include-into src/structures/paging/mapper/recursive_page_table.rs
//
// C10 for RecursivePageTable: `CleanUp::clean_up_addr_range` (`impl CleanUp for RecursivePageTable`).
// BOUNDED check, same construction as c10_cleanup.rs (read its header and lib/C10_NOTES.md first):
// every harness runs the real function once, and then once more, on one hand-picked, fully CONCRETE
// hierarchy of 7 LITERAL tables and a concrete page range; the pool, the oracle walker `hw_walk`, the
// deallocator log and the clause helpers are the items of `verif_c10_cleanup`, imported, not copied.
//
// What is different here
//   Recursive entry  level-4 slot R holds `frame of table 0 | PRESENT | WRITABLE` in every scenario.
//   Software MMU     RecursivePageTable reaches the lower tables by dereferencing computed VIRTUAL
//                    addresses (`p3_ptr/p2_ptr/p1_ptr(..)` = `<recursive page>.start_address().as_mut_ptr()`).
//                    `#[kani::stub(VirtAddr::as_mut_ptr, c10_mmu_as_mut_ptr)]` answers such an address
//                    the way hardware would: `hw_walk` (the 4-level walk over the RAW words from
//                    CR3 = frame of table 0, written from the SDM, independent of the crate) and then
//                    frame -> pool table. So the mapper's own accesses go where the MMU would send
//                    them: an address computed with the wrong helper, or through a huge-page entry,
//                    lands in whatever table / data frame it would land in on a machine.
//                    Everything is concrete (address, indices, table words), so the walk is decided
//                    during symbolic execution and nothing forks (measured: notes section 7).
//   Trap table       an address that does not resolve to a page table of the pool (page fault, or a
//                    frame that is not a table) is answered with an eighth, all-zero literal table and
//                    counted; NULL would cut the path at Kani's unnamed "null reference produced"
//                    check before any named clause is reached.
//   Request log      per resolved request the pool table it reached. Clean-up never needs the
//                    level-4 table through the window (it owns `self.p4`): a request that resolves to
//                    table 0 is a descent into the recursive slot (`p3_ptr` of a page whose level-4
//                    index is R is the address (R,R,R,R) = the level-4 table itself).
//   Extra clause     `recursive_slot_untouched`: P4[R] holds the recursive entry after each call, the
//                    level-4 frame is never deallocated, no MMU request resolved to the level-4 table
//                    or left the hierarchy. (With P4[R] -> P4 "everything reached through the slot"
//                    is the hierarchy itself seen one level too low: freeing or clearing any of it in
//                    that role is also reported by the inherited clauses, whose `allowed` sets never
//                    contain a table for a range inside the window.)
//   Probe addresses  `translation_unchanged` quantifies over every canonical address whose level-4
//                    index is not R: the window shows the page tables themselves, and the page that
//                    showed a deallocated table is, by construction, no longer mapped there (same
//                    exclusion as in c01_recursive_step.rs).
//
// Scenarios (R = 1; small indices because `skip(n)` costs n unwound iterations). JUNK is a
// non-present, non-zero word: the table that holds it is not empty.
//   p3_eq_r         P4[0] -> T1, T1[R] -> T2, T2[0] -> empty T3; T1 and T2 hold JUNK elsewhere; range = span of T3.
//                   T3 must go although its LEVEL-3 index equals R (a filter on `i == R` at every level skips it).
//   p2_eq_r         the same with the LEVEL-2 index equal to R.
//   chain_p3_eq_r   (thorough) the all-empty chain through P3 slot R: all three tables go, bottom-up.
//   window_inside   P4[0] -> T1 -> empty T2 (an empty level-2 table, as unmap leaves it); the range is
//                   (R,0,0,0) ..= (R,0,0,511), INSIDE the recursive window: nothing may be freed, written or
//                   resolved. (Without the filter the call treats P4 as a level-3 table, T1 as a level-2 table,
//                   T2 as an empty level-1 table, and frees T2 and T1.)
//   straddle_absent range = last page of level-4 slot R-1 ..= first page of slot R, P4[R-1] absent, an empty level-2
//                   table elsewhere: nothing may be freed, written or dereferenced.
//   straddle        (thorough) range = last page of level-4 slot R-1 ..= first page of slot R; T1[511] -> T2, both hold
//                   JUNK in slot 0; nothing may go, slot R must not be entered.
//   straddle_free   (thorough) the same with T1, T2 otherwise empty: T2 and T1 go.
//   window_p1, huge_pages   the scenarios of c10_cleanup.rs with the recursive entry added (parity).

#[cfg(kani)]
#[allow(dead_code)]
mod verif_c10_cleanup_recursive {
    use super::super::mapped_page_table::verif_c10_cleanup::*;
    use super::*;

    /// the recursive level-4 index of every scenario
    const R: usize = 1;
    /// the recursive entry
    const REC: u64 = F[0] | P | RW;
    /// a non-present, non-zero (software-defined) word
    const JUNK: u64 = 0x8000_0000_0000_0200;

    /// the canonical virtual address with these four table indices
    const fn va(i4: usize, i3: usize, i2: usize, i1: usize) -> u64 {
        let a = ((i4 as u64) << 39) | ((i3 as u64) << 30) | ((i2 as u64) << 21) | ((i1 as u64) << 12);
        if i4 >= 256 {
            a | 0xffff_0000_0000_0000
        } else {
            a
        }
    }

    // ------------------------------------------------------------------ software MMU

    const REQN: usize = 8;
    struct Mmu {
        p: [*mut PageTable; NT],
        trap: *mut PageTable,
        /// number of requests
        n: usize,
        /// the pool table each request reached (NONE: trap)
        res: [usize; REQN],
        /// requests that did not resolve to a page table of the pool
        outside: usize,
    }
    static mut MMU: Mmu = Mmu { p: [core::ptr::null_mut(); NT], trap: core::ptr::null_mut(), n: 0, res: [NONE; REQN], outside: 0 };
    #[allow(static_mut_refs)]
    fn mmu() -> &'static mut Mmu {
        unsafe { &mut *core::ptr::addr_of_mut!(MMU) }
    }
    fn mmu_install(pool: &Pool, trap: *mut PageTable) {
        let m = mmu();
        m.p = pool.p;
        m.trap = trap;
        mmu_reset();
    }
    fn mmu_reset() {
        let m = mmu();
        m.n = 0;
        m.res = [NONE; REQN];
        m.outside = 0;
    }
    /// What dereferencing virtual address `v` reaches with CR3 = frame of table 0.
    fn mmu_resolve(v: u64) -> *mut PageTable {
        let m = mmu();
        let pool = Pool { p: m.p };
        let w = hw_walk(&pool, v);
        let k = if w.kind == MAPPED && w.phys & 0xfff == 0 { lookup(w.phys) } else { NONE };
        if m.n < REQN {
            m.res[m.n] = k;
        }
        m.n += 1;
        if k == NONE {
            m.outside += 1;
            m.trap
        } else {
            m.p[k]
        }
    }
    /// stub of `VirtAddr::as_mut_ptr` (in recursive_page_table.rs called only on recursive addresses)
    fn c10_mmu_as_mut_ptr<T>(this: VirtAddr) -> *mut T {
        mmu_resolve(this.as_u64()) as *mut T
    }
    /// every request reached a level-1..3 table of the pool: none the level-4 table, none the trap
    fn mmu_requests_ok() -> bool {
        let m = mmu();
        let mut ok = m.n <= REQN && m.outside == 0;
        let mut j = 0;
        while j < REQN {
            if j < m.n {
                ok = ok && m.res[j] != 0 && m.res[j] != NONE;
            }
            j += 1;
        }
        ok
    }
    /// Runs the MMU and the crate's three address helpers once BEFORE the call under test (first
    /// reach of their internal checks, see `oracle_selftest`), and checks the MMU on three addresses
    /// whose answer is known in every scenario: the level-4 table through the window, the level-3
    /// table of P4[0] (a page fault where P4[0] is absent), page faults under the absent P4[2] and P4[255].
    fn mmu_selftest(pool: &Pool) -> bool {
        let m = mmu();
        let r = PageTableIndex::new(R as u16);
        let a: *mut PageTable = c10_mmu_as_mut_ptr(VirtAddr::new(va(R, R, R, R)));
        let mut ok = a == pool.p[0] && m.n == 1 && m.res[0] == 0 && m.outside == 0 && !mmu_requests_ok();
        let b: *mut PageTable = c10_mmu_as_mut_ptr(VirtAddr::new(va(255, 511, 511, 511)));
        ok = ok && b == m.trap && m.n == 2 && m.res[1] == NONE && m.outside == 1;
        mmu_reset();
        let e0 = pool.rd(0, 0);
        let t1 = if e0 & P != 0 { lookup(e0 & ADDR) } else { NONE };
        let c = p3_ptr(pg(0), r);
        if t1 != NONE {
            ok = ok && c == pool.p[t1] && m.n == 1 && m.res[0] == t1 && m.outside == 0 && mmu_requests_ok();
        } else {
            ok = ok && c == m.trap && m.n == 1 && m.res[0] == NONE && m.outside == 1 && !mmu_requests_ok();
        }
        mmu_reset();
        let d = p2_ptr(pg(va(2, 0, 0, 0)), r);
        let e = p1_ptr(pg(va(2, 0, 0, 0)), r);
        ok = ok && d == m.trap && e == m.trap && m.n == 2 && m.outside == 2 && !mmu_requests_ok();
        mmu_reset();
        ok
    }

    // ------------------------------------------------------------------ scenario

    macro_rules! c10_pool {
        ($pool:ident, $t:expr) => {
            let mut t0 = table_from($t[0]);
            let mut t1 = table_from($t[1]);
            let mut t2 = table_from($t[2]);
            let mut t3 = table_from($t[3]);
            let mut t4 = table_from($t[4]);
            let mut t5 = table_from($t[5]);
            let mut t6 = table_from($t[6]);
            let $pool = Pool {
                p: [
                    &mut t0 as *mut PageTable,
                    &mut t1 as *mut PageTable,
                    &mut t2 as *mut PageTable,
                    &mut t3 as *mut PageTable,
                    &mut t4 as *mut PageTable,
                    &mut t5 as *mut PageTable,
                    &mut t6 as *mut PageTable,
                ],
            };
        };
    }

    /// see c10_cleanup.rs: the assert's reachability check is UNREACHABLE while the clause holds
    macro_rules! ob {
        ($pick:ident, $i:literal, $cond:expr, $msg:expr $(,)?) => {
            if $pick == $i && !($cond) {
                kani::assert(false, $msg);
            }
        };
    }

    macro_rules! rscenario {
        ($name:literal, $tables:expr, $parent:expr, $allowed:expr, $required:expr, $start:expr, $end:expr) => {{
            const T: [[u64; 512]; NT] = $tables;
            let parent: Parents = $parent;
            let allowed: [bool; NT] = $allowed;
            let required: [bool; NT] = $required;
            c10_pool!(pool, T);
            let mut trap_table = table_from(EMPTY);
            mmu_install(&pool, &mut trap_table as *mut PageTable);
            let v: u64 = kani::any();
            kani::assume(canonical(v) && ((v >> 39) & 511) as usize != R);
            let w_pre = hw_walk(&pool, v);
            let k: usize = kani::any();
            let s: usize = kani::any();
            kani::assume(k < NT && s < 512);
            let pick: u8 = kani::any();
            let pre = pool.rd(k, s);

            ob!(pick, 1, oracle_selftest(&pool), concat!("C10.recursive_", $name, ".only_empty_overlapping_tables_freed: (harness sanity) the oracle helpers give the hand-computed answers on a made-up log"));
            ob!(pick, 10, mmu_selftest(&pool), concat!("C10.recursive_", $name, ".recursive_slot_untouched: (harness sanity) the software MMU resolves (R,R,R,R) to the level-4 table, (R,R,R,0) to the level-3 table of slot 0 if there is one, an unmapped address to the trap table"));
            ob!(pick, 11, pool.rd(0, R) == REC, concat!("C10.recursive_", $name, ".recursive_slot_untouched: (harness sanity) the scenario has the recursive entry in level-4 slot R"));

            // vacuity guard BEFORE the call (C10_NOTES.md section 2, item 4)
            kani::cover(true, concat!("c10_recursive_", $name, ": reachable"));

            let range = Page::range_inclusive(pg($start), pg($end));
            let mut log = new_log(&pool, parent, s);
            let mut mapper = unsafe { RecursivePageTable::new_unchecked(&mut *pool.p[0], PageTableIndex::new(R as u16)) };
            unsafe { mapper.clean_up_addr_range(range, &mut log) };
            let w_post = hw_walk(&pool, v);
            let mid = pool.rd(k, s);
            let rec_mid = pool.rd(0, R);
            let mmu_ok_1 = mmu_requests_ok();

            ob!(pick, 2, w_pre.kind != MALFORMED, concat!("C10.recursive_", $name, ".translation_unchanged: (harness sanity) the scenario's pre-state is well formed"));
            ob!(pick, 3, only_allowed_empty(&log, &allowed),
                concat!("C10.recursive_", $name, ".only_empty_overlapping_tables_freed: every deallocated frame is a level-1..3 table of the hierarchy that overlaps the range and was all zero at that moment; never the level-4 table, a table holding an entry, a huge-page frame"),
            );
            ob!(pick, 4, once_and_unlinked_first(&log),
                concat!("C10.recursive_", $name, ".each_once_after_unlink: every frame is deallocated at most once and its parent slot was already cleared"),
            );
            ob!(pick, 5, required_freed(&log, &required),
                concat!("C10.recursive_", $name, ".no_empty_table_left_inside_range: every table wholly inside the range that is (or becomes) empty was deallocated"),
            );
            ob!(pick, 6, mid == dictated(&log, &parent, k, s, pre),
                concat!("C10.recursive_", $name, ".only_parent_slots_of_freed_tables_change: every word of every table is unchanged, except that the slot that linked a deallocated table is 0"),
            );
            ob!(pick, 7, w_post == w_pre, concat!("C10.recursive_", $name, ".translation_unchanged: the hardware walk of an arbitrary canonical address outside the recursive window gives the same result as before"));
            ob!(pick, 12, rec_mid == REC && times_freed(&log, F[0]) == 0,
                concat!("C10.recursive_", $name, ".recursive_slot_untouched: level-4 slot R still holds the recursive entry and the level-4 frame was not deallocated"),
            );
            ob!(pick, 13, mmu_ok_1,
                concat!("C10.recursive_", $name, ".recursive_slot_untouched: every address the mapper dereferenced resolved to a level-1..3 table of the hierarchy: never to the level-4 table (= a descent into the recursive slot), never a page fault or a frame that is not a page table"),
            );

            // once more
            mmu_reset();
            let mut log2 = new_log(&pool, parent, s);
            unsafe { mapper.clean_up_addr_range(range, &mut log2) };
            ob!(pick, 8, log2.n == 0, concat!("C10.recursive_", $name, ".repeat_frees_nothing: a second clean-up deallocates nothing"));
            ob!(pick, 9, pool.rd(k, s) == mid, concat!("C10.recursive_", $name, ".repeat_frees_nothing: a second clean-up writes nothing"));
            ob!(pick, 14, pool.rd(0, R) == REC && mmu_requests_ok(),
                concat!("C10.recursive_", $name, ".recursive_slot_untouched: (second clean-up) slot R holds the recursive entry, no dereferenced address resolved to the level-4 table or outside the hierarchy"),
            );
        }};
    }

    // ================================================================== scenarios

    // p3_eq_r: P4[0] -> T1; T1[0] = JUNK, T1[R] -> T2; T2[0] -> T3 (empty), T2[3] = JUNK. Range = the 2 MiB span of
    // T3, whose LEVEL-3 index is R. T3 lies wholly inside: must go. T2, T1 hold JUNK: must stay.
    //@ obligation C10 C10.recursive_p3_eq_r.only_empty_overlapping_tables_freed bounded="concrete pre-state scenario p3_eq_r; pool of 7 literal tables; recursive index 1"
    //@ obligation C10 C10.recursive_p3_eq_r.each_once_after_unlink bounded="concrete pre-state scenario p3_eq_r; pool of 7 literal tables; recursive index 1"
    //@ obligation C10 C10.recursive_p3_eq_r.no_empty_table_left_inside_range bounded="concrete pre-state scenario p3_eq_r; pool of 7 literal tables; recursive index 1"
    //@ obligation C10 C10.recursive_p3_eq_r.only_parent_slots_of_freed_tables_change bounded="concrete pre-state scenario p3_eq_r; pool of 7 literal tables; recursive index 1"
    //@ obligation C10 C10.recursive_p3_eq_r.translation_unchanged bounded="concrete pre-state scenario p3_eq_r; pool of 7 literal tables; recursive index 1"
    //@ obligation C10 C10.recursive_p3_eq_r.repeat_frees_nothing bounded="concrete pre-state scenario p3_eq_r; pool of 7 literal tables; recursive index 1"
    //@ obligation C10 C10.recursive_p3_eq_r.recursive_slot_untouched bounded="concrete pre-state scenario p3_eq_r; pool of 7 literal tables; recursive index 1"
    #[kani::proof]
    #[kani::unwind(513)]
    #[kani::stub(crate::addr::VirtAddr::as_mut_ptr, c10_mmu_as_mut_ptr)]
    fn c10_recursive_p3_eq_r() {
        rscenario!(
            "p3_eq_r",
            [tbl(&[(0, F[1] | TBL), (R, REC)]), tbl(&[(0, JUNK), (R, F[2] | TBL)]), tbl(&[(0, F[3] | TBL), (3, JUNK)]), EMPTY, EMPTY, EMPTY, EMPTY],
            [NOP, (0, 0), (1, R), (2, 0), NOP, NOP, NOP],
            [false, false, false, true, false, false, false],
            [false, false, false, true, false, false, false],
            va(0, R, 0, 0),
            va(0, R, 0, 511)
        );
    }

    // p2_eq_r: P4[0] -> T1; T1[0] -> T2, T1[3] = JUNK; T2[0] = JUNK, T2[R] -> T3 (empty). Range = the span of T3,
    // whose LEVEL-2 index is R. T3 must go, T2 and T1 must stay.
    //@ obligation C10 C10.recursive_p2_eq_r.only_empty_overlapping_tables_freed bounded="concrete pre-state scenario p2_eq_r; pool of 7 literal tables; recursive index 1"
    //@ obligation C10 C10.recursive_p2_eq_r.each_once_after_unlink bounded="concrete pre-state scenario p2_eq_r; pool of 7 literal tables; recursive index 1"
    //@ obligation C10 C10.recursive_p2_eq_r.no_empty_table_left_inside_range bounded="concrete pre-state scenario p2_eq_r; pool of 7 literal tables; recursive index 1"
    //@ obligation C10 C10.recursive_p2_eq_r.only_parent_slots_of_freed_tables_change bounded="concrete pre-state scenario p2_eq_r; pool of 7 literal tables; recursive index 1"
    //@ obligation C10 C10.recursive_p2_eq_r.translation_unchanged bounded="concrete pre-state scenario p2_eq_r; pool of 7 literal tables; recursive index 1"
    //@ obligation C10 C10.recursive_p2_eq_r.repeat_frees_nothing bounded="concrete pre-state scenario p2_eq_r; pool of 7 literal tables; recursive index 1"
    //@ obligation C10 C10.recursive_p2_eq_r.recursive_slot_untouched bounded="concrete pre-state scenario p2_eq_r; pool of 7 literal tables; recursive index 1"
    #[kani::proof]
    #[kani::unwind(513)]
    #[kani::stub(crate::addr::VirtAddr::as_mut_ptr, c10_mmu_as_mut_ptr)]
    fn c10_recursive_p2_eq_r() {
        rscenario!(
            "p2_eq_r",
            [tbl(&[(0, F[1] | TBL), (R, REC)]), tbl(&[(0, F[2] | TBL), (3, JUNK)]), tbl(&[(0, JUNK), (R, F[3] | TBL)]), EMPTY, EMPTY, EMPTY, EMPTY],
            [NOP, (0, 0), (1, 0), (2, R), NOP, NOP, NOP],
            [false, false, false, true, false, false, false],
            [false, false, false, true, false, false, false],
            va(0, 0, R, 0),
            va(0, 0, R, 511)
        );
    }

    // chain_p3_eq_r: P4[0] -> T1, T1[R] -> T2, T2[0] -> T3, nothing else anywhere (but P4[R]). Range = span of T3.
    // T3 must go; T2 and T1 then become empty and overlap the range (may go; the code frees them bottom-up).
    // The level-4 table stays: it holds the recursive entry (and it is the level-4 table).
    //@ obligation C10 C10.recursive_chain_p3_eq_r.only_empty_overlapping_tables_freed tier=thorough bounded="concrete pre-state scenario chain_p3_eq_r; pool of 7 literal tables; recursive index 1"
    //@ obligation C10 C10.recursive_chain_p3_eq_r.each_once_after_unlink tier=thorough bounded="concrete pre-state scenario chain_p3_eq_r; pool of 7 literal tables; recursive index 1"
    //@ obligation C10 C10.recursive_chain_p3_eq_r.no_empty_table_left_inside_range tier=thorough bounded="concrete pre-state scenario chain_p3_eq_r; pool of 7 literal tables; recursive index 1"
    //@ obligation C10 C10.recursive_chain_p3_eq_r.only_parent_slots_of_freed_tables_change tier=thorough bounded="concrete pre-state scenario chain_p3_eq_r; pool of 7 literal tables; recursive index 1"
    //@ obligation C10 C10.recursive_chain_p3_eq_r.translation_unchanged tier=thorough bounded="concrete pre-state scenario chain_p3_eq_r; pool of 7 literal tables; recursive index 1"
    //@ obligation C10 C10.recursive_chain_p3_eq_r.repeat_frees_nothing tier=thorough bounded="concrete pre-state scenario chain_p3_eq_r; pool of 7 literal tables; recursive index 1"
    //@ obligation C10 C10.recursive_chain_p3_eq_r.recursive_slot_untouched tier=thorough bounded="concrete pre-state scenario chain_p3_eq_r; pool of 7 literal tables; recursive index 1"
    #[kani::proof]
    #[kani::unwind(513)]
    #[kani::stub(crate::addr::VirtAddr::as_mut_ptr, c10_mmu_as_mut_ptr)]
    fn c10_recursive_chain_p3_eq_r() {
        rscenario!(
            "chain_p3_eq_r",
            [tbl(&[(0, F[1] | TBL), (R, REC)]), tbl(&[(R, F[2] | TBL)]), tbl(&[(0, F[3] | TBL)]), EMPTY, EMPTY, EMPTY, EMPTY],
            [NOP, (0, 0), (1, R), (2, 0), NOP, NOP, NOP],
            [false, true, true, true, false, false, false],
            [false, false, false, true, false, false, false],
            va(0, R, 0, 0),
            va(0, R, 0, 511)
        );
    }

    // window_inside: P4[0] -> T1, T1[0] -> T2, T2 an EMPTY level-2 table. Range = (R,0,0,0) ..= (R,0,0,511): inside the
    // recursive window (these 512 pages show T2's 512 slots' targets). No level-1..3 table of the hierarchy lies under
    // a level-4 slot other than R: nothing overlaps, nothing may be freed, written, or even dereferenced.
    //@ obligation C10 C10.recursive_window_inside.only_empty_overlapping_tables_freed bounded="concrete pre-state scenario window_inside; pool of 7 literal tables; recursive index 1"
    //@ obligation C10 C10.recursive_window_inside.each_once_after_unlink bounded="concrete pre-state scenario window_inside; pool of 7 literal tables; recursive index 1"
    //@ obligation C10 C10.recursive_window_inside.no_empty_table_left_inside_range bounded="concrete pre-state scenario window_inside; pool of 7 literal tables; recursive index 1"
    //@ obligation C10 C10.recursive_window_inside.only_parent_slots_of_freed_tables_change bounded="concrete pre-state scenario window_inside; pool of 7 literal tables; recursive index 1"
    //@ obligation C10 C10.recursive_window_inside.translation_unchanged bounded="concrete pre-state scenario window_inside; pool of 7 literal tables; recursive index 1"
    //@ obligation C10 C10.recursive_window_inside.repeat_frees_nothing bounded="concrete pre-state scenario window_inside; pool of 7 literal tables; recursive index 1"
    //@ obligation C10 C10.recursive_window_inside.recursive_slot_untouched bounded="concrete pre-state scenario window_inside; pool of 7 literal tables; recursive index 1"
    #[kani::proof]
    #[kani::unwind(513)]
    #[kani::stub(crate::addr::VirtAddr::as_mut_ptr, c10_mmu_as_mut_ptr)]
    fn c10_recursive_window_inside() {
        rscenario!(
            "window_inside",
            [tbl(&[(0, F[1] | TBL), (R, REC)]), tbl(&[(0, F[2] | TBL)]), EMPTY, EMPTY, EMPTY, EMPTY, EMPTY],
            [NOP, (0, 0), (1, 0), NOP, NOP, NOP, NOP],
            [false, false, false, false, false, false, false],
            [false, false, false, false, false, false, false],
            va(R, 0, 0, 0),
            va(R, 0, 0, 511)
        );
    }

    // straddle_absent: range = last page of level-4 slot R-1 ..= first page of slot R, as in `straddle` below, but
    // P4[R-1] is absent (cheap: no `skip(511)`); the hierarchy is P4[3] -> T1, T1[0] -> T2, T2 an empty level-2 table,
    // outside the range. Slot R-1 has nothing, slot R must not be entered: nothing may be freed, written or dereferenced.
    //@ obligation C10 C10.recursive_straddle_absent.only_empty_overlapping_tables_freed bounded="concrete pre-state scenario straddle_absent; pool of 7 literal tables; recursive index 1"
    //@ obligation C10 C10.recursive_straddle_absent.each_once_after_unlink bounded="concrete pre-state scenario straddle_absent; pool of 7 literal tables; recursive index 1"
    //@ obligation C10 C10.recursive_straddle_absent.no_empty_table_left_inside_range bounded="concrete pre-state scenario straddle_absent; pool of 7 literal tables; recursive index 1"
    //@ obligation C10 C10.recursive_straddle_absent.only_parent_slots_of_freed_tables_change bounded="concrete pre-state scenario straddle_absent; pool of 7 literal tables; recursive index 1"
    //@ obligation C10 C10.recursive_straddle_absent.translation_unchanged bounded="concrete pre-state scenario straddle_absent; pool of 7 literal tables; recursive index 1"
    //@ obligation C10 C10.recursive_straddle_absent.repeat_frees_nothing bounded="concrete pre-state scenario straddle_absent; pool of 7 literal tables; recursive index 1"
    //@ obligation C10 C10.recursive_straddle_absent.recursive_slot_untouched bounded="concrete pre-state scenario straddle_absent; pool of 7 literal tables; recursive index 1"
    #[kani::proof]
    #[kani::unwind(513)]
    #[kani::stub(crate::addr::VirtAddr::as_mut_ptr, c10_mmu_as_mut_ptr)]
    fn c10_recursive_straddle_absent() {
        rscenario!(
            "straddle_absent",
            [tbl(&[(R, REC), (3, F[1] | TBL)]), tbl(&[(0, F[2] | TBL)]), EMPTY, EMPTY, EMPTY, EMPTY, EMPTY],
            [NOP, (0, 3), (1, 0), NOP, NOP, NOP, NOP],
            [false, false, false, false, false, false, false],
            [false, false, false, false, false, false, false],
            va(R - 1, 511, 511, 511),
            va(R, 0, 0, 0)
        );
    }

    // straddle: range = last page of level-4 slot R-1 ..= first page of slot R. P4[0] -> T1; T1[0] = JUNK,
    // T1[511] -> T2; T2[0] = JUNK. Slot R-1's part of the range is page (0,511,511,511): T1 and T2 overlap it but hold
    // JUNK; slot R's part must not be entered. Nothing may go.
    //@ obligation C10 C10.recursive_straddle.only_empty_overlapping_tables_freed tier=thorough bounded="concrete pre-state scenario straddle; pool of 7 literal tables; recursive index 1"
    //@ obligation C10 C10.recursive_straddle.each_once_after_unlink tier=thorough bounded="concrete pre-state scenario straddle; pool of 7 literal tables; recursive index 1"
    //@ obligation C10 C10.recursive_straddle.no_empty_table_left_inside_range tier=thorough bounded="concrete pre-state scenario straddle; pool of 7 literal tables; recursive index 1"
    //@ obligation C10 C10.recursive_straddle.only_parent_slots_of_freed_tables_change tier=thorough bounded="concrete pre-state scenario straddle; pool of 7 literal tables; recursive index 1"
    //@ obligation C10 C10.recursive_straddle.translation_unchanged tier=thorough bounded="concrete pre-state scenario straddle; pool of 7 literal tables; recursive index 1"
    //@ obligation C10 C10.recursive_straddle.repeat_frees_nothing tier=thorough bounded="concrete pre-state scenario straddle; pool of 7 literal tables; recursive index 1"
    //@ obligation C10 C10.recursive_straddle.recursive_slot_untouched tier=thorough bounded="concrete pre-state scenario straddle; pool of 7 literal tables; recursive index 1"
    #[kani::proof]
    #[kani::unwind(513)]
    #[kani::stub(crate::addr::VirtAddr::as_mut_ptr, c10_mmu_as_mut_ptr)]
    fn c10_recursive_straddle() {
        rscenario!(
            "straddle",
            [tbl(&[(0, F[1] | TBL), (R, REC)]), tbl(&[(0, JUNK), (511, F[2] | TBL)]), tbl(&[(0, JUNK)]), EMPTY, EMPTY, EMPTY, EMPTY],
            [NOP, (0, 0), (1, 511), NOP, NOP, NOP, NOP],
            [false, false, false, false, false, false, false],
            [false, false, false, false, false, false, false],
            va(R - 1, 511, 511, 511),
            va(R, 0, 0, 0)
        );
    }

    // straddle_free: the same range; P4[0] -> T1, T1[511] -> T2, T2 an empty level-2 table, nothing else. T2 and T1
    // overlap the range (its one page in slot R-1) and are or become empty: they may go (the code frees both).
    //@ obligation C10 C10.recursive_straddle_free.only_empty_overlapping_tables_freed tier=thorough bounded="concrete pre-state scenario straddle_free; pool of 7 literal tables; recursive index 1"
    //@ obligation C10 C10.recursive_straddle_free.each_once_after_unlink tier=thorough bounded="concrete pre-state scenario straddle_free; pool of 7 literal tables; recursive index 1"
    //@ obligation C10 C10.recursive_straddle_free.no_empty_table_left_inside_range tier=thorough bounded="concrete pre-state scenario straddle_free; pool of 7 literal tables; recursive index 1"
    //@ obligation C10 C10.recursive_straddle_free.only_parent_slots_of_freed_tables_change tier=thorough bounded="concrete pre-state scenario straddle_free; pool of 7 literal tables; recursive index 1"
    //@ obligation C10 C10.recursive_straddle_free.translation_unchanged tier=thorough bounded="concrete pre-state scenario straddle_free; pool of 7 literal tables; recursive index 1"
    //@ obligation C10 C10.recursive_straddle_free.repeat_frees_nothing tier=thorough bounded="concrete pre-state scenario straddle_free; pool of 7 literal tables; recursive index 1"
    //@ obligation C10 C10.recursive_straddle_free.recursive_slot_untouched tier=thorough bounded="concrete pre-state scenario straddle_free; pool of 7 literal tables; recursive index 1"
    #[kani::proof]
    #[kani::unwind(513)]
    #[kani::stub(crate::addr::VirtAddr::as_mut_ptr, c10_mmu_as_mut_ptr)]
    fn c10_recursive_straddle_free() {
        rscenario!(
            "straddle_free",
            [tbl(&[(0, F[1] | TBL), (R, REC)]), tbl(&[(511, F[2] | TBL)]), EMPTY, EMPTY, EMPTY, EMPTY, EMPTY],
            [NOP, (0, 0), (1, 511), NOP, NOP, NOP, NOP],
            [false, true, true, false, false, false, false],
            [false, false, false, false, false, false, false],
            va(R - 1, 511, 511, 511),
            va(R, 0, 0, 0)
        );
    }

    // window_p1 (c10_cleanup.rs, plus the recursive entry): T3 maps page 5; range = pages 0..=1. T3 overlaps the
    // range and its slots 0..=1 are empty, but it holds an entry: nothing may be freed.
    //@ obligation C10 C10.recursive_window_p1.only_empty_overlapping_tables_freed bounded="concrete pre-state scenario window_p1; pool of 7 literal tables; recursive index 1"
    //@ obligation C10 C10.recursive_window_p1.each_once_after_unlink bounded="concrete pre-state scenario window_p1; pool of 7 literal tables; recursive index 1"
    //@ obligation C10 C10.recursive_window_p1.no_empty_table_left_inside_range bounded="concrete pre-state scenario window_p1; pool of 7 literal tables; recursive index 1"
    //@ obligation C10 C10.recursive_window_p1.only_parent_slots_of_freed_tables_change bounded="concrete pre-state scenario window_p1; pool of 7 literal tables; recursive index 1"
    //@ obligation C10 C10.recursive_window_p1.translation_unchanged bounded="concrete pre-state scenario window_p1; pool of 7 literal tables; recursive index 1"
    //@ obligation C10 C10.recursive_window_p1.repeat_frees_nothing bounded="concrete pre-state scenario window_p1; pool of 7 literal tables; recursive index 1"
    //@ obligation C10 C10.recursive_window_p1.recursive_slot_untouched bounded="concrete pre-state scenario window_p1; pool of 7 literal tables; recursive index 1"
    #[kani::proof]
    #[kani::unwind(513)]
    #[kani::stub(crate::addr::VirtAddr::as_mut_ptr, c10_mmu_as_mut_ptr)]
    fn c10_recursive_window_p1() {
        rscenario!(
            "window_p1",
            [tbl(&[(0, F[1] | TBL), (R, REC)]), tbl(&[(0, F[2] | TBL)]), tbl(&[(0, F[3] | TBL)]), tbl(&[(5, 0x5000_0000 | P | RW)]), EMPTY, EMPTY, EMPTY],
            [NOP, (0, 0), (1, 0), (2, 0), NOP, NOP, NOP],
            [false, false, false, false, false, false, false],
            [false, false, false, false, false, false, false],
            va(0, 0, 0, 0),
            va(0, 0, 0, 1)
        );
    }

    // huge_pages (c10_cleanup.rs, plus the recursive entry): T1[0] = 1 GiB page (frame 0x4000_0000: not a table),
    // T1[1] -> T2; T2[0] = 2 MiB page whose frame is F[4], the frame of the unlinked all-zero pool table 4; T2[1] -> T3
    // (empty). Range = last page of the first GiB ..= end of T3's span. Only T3 may and must go. Through the
    // software MMU a descent into the 1 GiB entry is the address (R,R,0,0), which the MMU maps to frame 0x4000_0000
    // (bit 7 of a level-1-position entry is PAT, not PS): not a table, the trap table; a descent into the 2 MiB entry
    // is (R,0,1,0), a 2 MiB mapping at the level-2 position of the walk, physical F[4]: table 4, all zero, "freed".
    //@ obligation C10 C10.recursive_huge_pages.only_empty_overlapping_tables_freed bounded="concrete pre-state scenario huge_pages; pool of 7 literal tables; recursive index 1"
    //@ obligation C10 C10.recursive_huge_pages.each_once_after_unlink bounded="concrete pre-state scenario huge_pages; pool of 7 literal tables; recursive index 1"
    //@ obligation C10 C10.recursive_huge_pages.no_empty_table_left_inside_range bounded="concrete pre-state scenario huge_pages; pool of 7 literal tables; recursive index 1"
    //@ obligation C10 C10.recursive_huge_pages.only_parent_slots_of_freed_tables_change bounded="concrete pre-state scenario huge_pages; pool of 7 literal tables; recursive index 1"
    //@ obligation C10 C10.recursive_huge_pages.translation_unchanged bounded="concrete pre-state scenario huge_pages; pool of 7 literal tables; recursive index 1"
    //@ obligation C10 C10.recursive_huge_pages.repeat_frees_nothing bounded="concrete pre-state scenario huge_pages; pool of 7 literal tables; recursive index 1"
    //@ obligation C10 C10.recursive_huge_pages.recursive_slot_untouched bounded="concrete pre-state scenario huge_pages; pool of 7 literal tables; recursive index 1"
    #[kani::proof]
    #[kani::unwind(513)]
    #[kani::stub(crate::addr::VirtAddr::as_mut_ptr, c10_mmu_as_mut_ptr)]
    fn c10_recursive_huge_pages() {
        rscenario!(
            "huge_pages",
            [tbl(&[(0, F[1] | TBL), (R, REC)]), tbl(&[(0, 0x4000_0000 | P | RW | PS), (1, F[2] | TBL)]), tbl(&[(0, F[4] | P | RW | PS), (1, F[3] | TBL)]), EMPTY, EMPTY, EMPTY, EMPTY],
            [NOP, (0, 0), (1, 1), (2, 1), NOP, NOP, NOP],
            [false, false, false, true, false, false, false],
            [false, false, false, true, false, false, false],
            va(0, 0, 511, 511),
            va(0, 1, 1, 511)
        );
    }
}
