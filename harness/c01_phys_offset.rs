//@ include-into src/structures/paging/mapper/offset_page_table.rs
//
// C01 building block (PART A): the frame-to-pointer map of OffsetPageTable.
//
//   PhysOffset::frame_to_pointer(f) as u64 == offset + f.start_address()     (exact or panic)
//
// This is the one fact about OffsetPageTable that the MappedPageTable<P> step harnesses (which
// hold for an arbitrary mapping P) need in order to carry over: OffsetPageTable is
// MappedPageTable<PhysOffset> behind one-line delegations (DESIGN.md, C01 section).
// "Exact or panic": whenever the mathematical sum offset + start is a canonical address the call
// returns exactly that pointer; otherwise (u64 overflow, or a sum inside the non-canonical gap) it
// panics - it never returns a wrapped or truncated pointer.

#[cfg(kani)]
mod verif_c01_phys_offset {
    use super::*;

    #[inline(never)]
    fn returned_on_invalid_input() {
        unsafe { core::hint::unreachable_unchecked() }
    }

    /// Canonical: bits 47..63 all equal (written from the SDM, not via VirtAddr::try_new).
    fn canonical(a: u64) -> bool {
        let top = a >> 47;
        top == 0 || top == 0x1_ffff
    }

    fn any_inputs() -> (u64, u64) {
        let off: u64 = kani::any();
        kani::assume(canonical(off));
        let start: u64 = kani::any();
        kani::assume(start & !0x000f_ffff_ffff_f000 == 0);
        (off, start)
    }

    //@ obligation C01 C01.PhysOffset_frame_to_pointer.pointer_is_offset_plus_frame_start
    #[kani::proof]
    fn c01_phys_offset_frame_to_pointer_exact() {
        let (off, start) = any_inputs();
        let sum = off as u128 + start as u128;
        kani::assume(sum <= u64::MAX as u128 && canonical(sum as u64));
        let m = PhysOffset { offset: VirtAddr::new(off) };
        let frame = PhysFrame::<Size4KiB>::from_start_address(PhysAddr::new(start)).unwrap();
        let p = m.frame_to_pointer(frame);
        assert!(
            p as u64 as u128 == sum,
            "C01.PhysOffset_frame_to_pointer.pointer_is_offset_plus_frame_start: pointer == offset + frame start"
        );
        kani::cover!(off >= 0xffff_8000_0000_0000 && start != 0, "c01_phys_offset_frame_to_pointer_exact: upper-half offset");
        kani::cover!(true, "c01_phys_offset_frame_to_pointer_exact: reachable");
    }

    //@ obligation C01 C01.PhysOffset_frame_to_pointer.panics_instead_of_wrapping
    #[kani::proof]
    #[kani::should_panic]
    fn c01_phys_offset_frame_to_pointer_panics() {
        let (off, start) = any_inputs();
        let sum = off as u128 + start as u128;
        kani::assume(!(sum <= u64::MAX as u128 && canonical(sum as u64)));
        let m = PhysOffset { offset: VirtAddr::new(off) };
        let frame = PhysFrame::<Size4KiB>::from_start_address(PhysAddr::new(start)).unwrap();
        kani::cover!(true, "c01_phys_offset_frame_to_pointer_panics: reachable");
        let _ = m.frame_to_pointer(frame);
        returned_on_invalid_input();
    }

    // OffsetPageTable::new stores the offset it is given (so the mapping above is the one in use).
    //@ obligation C01 C01.OffsetPageTable_new.uses_given_offset_and_table
    #[kani::proof]
    fn c01_offset_page_table_new_uses_offset() {
        let off: u64 = kani::any();
        kani::assume(canonical(off));
        let mut t = PageTable::new();
        let tp = &t as *const PageTable;
        let opt = unsafe { OffsetPageTable::new(&mut t, VirtAddr::new(off)) };
        kani::cover!(true, "c01_offset_page_table_new_uses_offset: reachable");
        assert!(
            opt.phys_offset().as_u64() == off && opt.level_4_table() as *const PageTable == tp,
            "C01.OffsetPageTable_new.uses_given_offset_and_table: offset and level-4 table stored"
        );
    }
}
